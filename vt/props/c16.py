"""C16 -- Signed cookies: only intact, unexpired, server-signed data is ever presented.

Decided:
  R16.a  a malformed cookie cannot fail the request.  *Callee facts are derived from the pinned
         secure_cookie/cookie.py*: decoding primitives applied to client bytes in SecureCookie.unserialize
         (b64decode, bytes.decode, url_unquote_plus, tuple-unpacking of split()) are listed with the
         handlers enclosing them; if any is not under a ValueError-catching handler, then on the call path
         SignedCookieMiddleware.request -> load_cookie -> JSONCookie.unserialize -> super().unserialize some
         clastic frame must catch Exception/ValueError, must not re-raise, and must yield an empty cookie; decoding primitives
         clastic itself applies to what the client sent (to the string given to unserialize; in request(), to anything read from
         the request other than through the loaded cookie) are under a handler of the same function that swallows the error;
  R16.b  JSONCookie.unquote is total: every call in it is under ``except Exception`` raising UnquoteError
         (the exception the dependency's MAC-then-unquote loop expects); quote() and unquote() are the two halves of
         one codec / serializer / charset; quote() is total on every value unquote() can return: it has no escaping
         ``raise``, and each text -> bytes step is total on the class of text that reaches it (the serializer's output
         is 'ascii' unless ensure_ascii is switched off, then 'any str, unpaired surrogates included'; a strict
         encode of the latter is a violation, a non-strict error handler or an enclosing handler discharges it); the two
         pipelines are inverse in shape: quote() is layout(encoder(text->bytes(dumps(v)))) of the value it is given, itself, and
         nothing is cut out of the payload; unquote() returns loads(bytes->text(decoder(v))) as it is, loads gets no hook that
         rebuilds values; UnquoteError is resolved in the module unquote() is written in;
  R16.c  MAC before use (dependency): cls.unquote and the _expires comparison are dominated by the
         safe_str_cmp(client_hash, mac.digest()) test; the MAC is never compared with == ; a non-empty value of the data reaches
         the returned cookie only along paths through the successful comparison; every return builds cls(<data>, secret_key, ..);
         the branch taken when the clock is past the signed _expires empties the data; neither JSONCookie nor a mixin in front of
         SecureCookie in its MRO overrides hash_method / serialize / load_cookie / save_cookie, and its unserialize delegates to
         super with the same secret_key;
  R16.d  key plumbing: load_cookie gets self.secret_key / self.cookie_name; secret_key is the constructor
         argument or os.urandom; the cookie is provided under arg_name (= provides); save_cookie runs on the
         next() result on every normal path; _expires is stamped only when absent -- as the cookie says after the endpoint
         ran: through a membership test or a lookup with a sentinel default -- and expiry is numeric, and what is stamped
         is the sum of one clock reading and self.expiry (no term subtracted, none missing); JSONCookie.set_expires records
         its argument under the key the dependency compares with the clock, on every path it takes for a time -- evaluated over
         the kinds of argument None / 0 / non-zero number / NOW marker: a guard on the truth value excludes 0, a legal time.
  R16.e  per-request state: no write of request() (attribute / item store, delete, mutating method call, global
         assignment; in the method itself or in a method of the class it calls) goes to an object that outlives the call --
         the middleware object, its class, a module-level container, a mutable default, or anything reached through
         them, under whatever local name (aliases are followed through reaching definitions; copies are new objects) --
         unless the write is request-independent and idempotent (a cache of configuration): neither the operands nor
         the path conditions derive from the request, the cookie or the response.  The ``**mapping`` given to save_cookie
         may be kept on the middleware (built by the constructor, then followed there) as long as request() only reads
         or copies it.
  R16.f  a key per middleware: the random key used when none is configured is drawn by a call evaluated each time the
         constructor runs -- followed through methods, functions, lambdas, partials, parameters and their defaults, class
         attributes and module-level names; a default-argument expression, a class attribute, a module-level value, a
         module / class variable filled lazily or a memoised factory is evaluated once per process, so that every middleware
         built without a key would sign with the same key (a cookie of one is "server-signed" for all others).
  R16.g  one cookie object, unchanged: every value JSONCookie.unserialize returns is the cookie the dependency verified or an empty
         one, and nothing is written to it there; request() provides to the endpoint and saves the very object load_cookie
         returned (no re-binding on the way), writes nothing into it but the expiry stamp, and that only after the endpoint ran;
         neither the stamp nor the expires / session_expires handed to save_cookie (which the dependency signs into the cookie as
         _expires) derives from the request other than through the verified cookie; the expiry handed to save_cookie is the
         cookie's own _expires entry, read after the endpoint ran (the dependency overwrites the entry with what it is given),
         or anything at all only where the cookie has none -- followed through conversions and accessor methods of the cookie
         class -- and, evaluated over a finite domain of kinds of time value (epoch number / aware datetime / naive datetime
         holding UTC / naive datetime holding local time), is of a kind the dependency reads as the instant that was meant (how it
         reads a naive datetime is taken from the source of its _date_to_unix).
  R16.h  what the application stored is written back: should_save (what save_cookie consults), looked up along the MRO of
         JSONCookie, is the dependency's (= modified) or an override that narrows it only by comparing the contents with a
         snapshot that shares no mutable object with the live cookie (deepcopy / a serialised form; a shallow copy or an alias
         is a violation: in-place changes of nested values followed by re-assignment go unnoticed and are never sent); a
         constructor override hands data / secret_key / new to the dependency unchanged on every path and stores nothing into
         the cookie; any other member of the dependency's load / save machinery that the class or a mixin replaces is an
         analysis gap.
Declined: cryptographic strength, what the serializer itself does to a value (tuples, non-string keys, NaN), clock behaviour
around the expiry instant.

Constructs are recognised by role, not by spelling: values are followed through single-assignment locals and
(CFG) reaching definitions, conditions are taken from the path conditions in either polarity, constants are
folded through module-level names, arguments are accepted in keyword or positional spelling.
"""
import ast
import codecs

from ..core import AnalysisError, norm, short
from ..loader import ClassInfo
from ..astutil import argn, assigned_value
from ..layers import layers_of_var, layers_of_expr, layers_of_value
from .common import (cfg_of, fkey, conds, has_cond, cond_texts, stmts_of, walk_body, call_tail, call_name,
                     returns_of, raises_of, raise_type, protected_by, stmt_of, handler_reraises_always)
from .c15 import next_derived

COOKIE = 'clastic.middleware.cookie'
DECODERS = {'b64decode', 'decode', 'loads', 'url_unquote_plus', 'url_unquote', 'unhexlify', 'fromhex', 'int', 'float',
            'urlsafe_b64decode', 'b32decode', 'b16decode'}
STRIPS = ('strip', 'lstrip', 'rstrip')
EXPIRES = '_expires'
_NOFOLD = object()


class _Ctx(object):
    """What the four rule groups share: the modules, the anchor functions and the two calls of the load path."""

    def __init__(self, rep):
        repo = self.repo = rep.repo
        self.ck = repo.mod(COOKIE)
        self.dep = repo.mod('secure_cookie.cookie')
        self.un = self.dep.func('SecureCookie.unserialize')
        self.ju = self.ck.func('JSONCookie.unserialize')
        self.rq = self.ck.func('SignedCookieMiddleware.request')
        self.sup_calls = [c for c in walk_body(self.ju.node) if isinstance(c, ast.Call) and call_tail(c) == 'unserialize'
                          and isinstance(c.func, ast.Attribute) and isinstance(c.func.value, ast.Call) and call_name(c.func.value) == 'super']
        self.load_calls = [c for c in walk_body(self.rq.node) if isinstance(c, ast.Call) and call_tail(c) == 'load_cookie']
        if len(self.sup_calls) != 1 or len(self.load_calls) != 1:
            raise AnalysisError('cookie call path changed: super().unserialize x%d, load_cookie x%d'
                                % (len(self.sup_calls), len(self.load_calls)))

    def home(self, node, default=None):
        """The module whose tree holds ``node``.  The anchors need not live in one module (a class moved into a private
        module and imported back is analysed where it is defined now): free names are resolved, constants folded and
        statements looked up in the module the code is written in, not in the module it is reached from."""
        if node is not None:
            for m in (self.ck, self.ju.mod, self.rq.mod, self.dep) + tuple(getattr(self.repo, '_mods', {}).values()):
                if node in m.parents:
                    return m
        return default or self.ck

    def stmt(self, node):
        return node if isinstance(node, ast.stmt) else stmt_of(self.home(node), node)

    def fold(self, e, mod=None):
        return self.repo.try_fold(e, mod or self.home(e), _NOFOLD) if e is not None else _NOFOLD


class _Located(object):
    """The report as the rule groups see it: the module an obligation is located in is the one that holds its node."""

    def __init__(self, rep, cx):
        self._rep, self._cx = rep, cx

    def __getattr__(self, name):
        return getattr(self._rep, name)

    def check(self, rule, key, ok, detail, mod=None, node=None):
        return self._rep.check(rule, key, ok, detail, self._cx.home(node, mod) if mod is not None else None, node)

    def ok(self, rule, key, detail, mod=None, node=None):
        return self.check(rule, key, True, detail, mod, node)

    def fail(self, rule, key, detail, mod=None, node=None):
        return self.check(rule, key, False, detail, mod, node)


def run(rep):
    rep.decide('R16.a malformed cookies cannot raise out of the load; R16.b unquote total, quote total on what unquote returns, '
               'codec agreement, the two payload pipelines are inverse in shape; R16.c MAC dominates use; R16.d key plumbing, '
               'provide-under-name, save on every path, stamp only when the cookie (consulted after the endpoint) has no expiry, '
               'set_expires records the expiry where the dependency looks for it; '
               'R16.e nothing request() learns from one request is written into an object shared with the next; '
               'R16.f the random default key is drawn per constructed middleware; R16.g one cookie object flows unchanged from '
               'verification to the endpoint to save_cookie, nothing of the request enters it, the expiry save_cookie signs is the cookie\'s own; '
               'R16.h a modified cookie is written back '
               '(should_save / constructor overrides)')
    rep.decline('cryptographic strength; what the serializer itself does to a value (JSON round-trip of tuples, non-string keys, NaN); '
                'clock behaviour at the expiry instant')
    rep.assume('binascii.Error and UnicodeDecodeError are ValueError subclasses (CPython)')
    rep.assume('json.loads returns str values with unpaired surrogates for escapes such as "\\ud83d"; json.dumps emits ASCII only '
               'unless ensure_ascii is false; str.encode with the strict handler raises on unpaired surrogates for every codec')
    rep.assume('secure-cookie 0.1.0 as parsed from site-packages/secure_cookie/cookie.py')
    rep.assume('werkzeug\'s Response.set_cookie reads a naive datetime ``expires`` the way the dependency\'s _date_to_unix does (as UTC)')
    try:
        cx = _Ctx(rep)
    except AnalysisError:
        raise
    except Exception as e:
        raise AnalysisError('cookie module: anchors not recognised (%s: %s)' % (type(e).__name__, e))
    located = _Located(rep, cx)
    for group in (rule_a, rule_b, rule_c, rule_d, rule_e, rule_g, rule_h):
        rep.guard(_no_crash(group), located, cx)


def _no_crash(fn):
    """An unexpected shape (IndexError, AttributeError, ... inside a rule) is an analysis gap, never a crash."""
    def group(rep, cx):
        try:
            return fn(rep, cx)
        except AnalysisError:
            raise
        except Exception as e:
            raise AnalysisError('unrecognised code shape (%s: %s)' % (type(e).__name__, e))
    group.__name__ = fn.__name__
    return group


# ---------------------------------------------------------------------------------------------- R16.a
def rule_a(rep, cx):
    ck, dep, un, ju, rq = cx.ck, cx.dep, cx.un, cx.ju, cx.rq
    sup_call, load_call = cx.sup_calls[0], cx.load_calls[0]
    rep.rule('R16.a', 'uncovered decoding primitives of the dependency are under a clastic handler that yields an empty cookie')
    prims = []
    for n in walk_body(un.node):
        if isinstance(n, ast.Call) and call_tail(n) in DECODERS:
            prims.append(n)
        if isinstance(n, ast.Assign) and isinstance(n.targets[0], ast.Tuple) and isinstance(n.value, ast.Call) \
                and call_tail(n.value) == 'split':
            prims.append(n.value)
    if len(prims) < 3:
        raise AnalysisError('secure_cookie unserialize: decoding primitives not found (model out of date)')
    uncovered = []
    for p in prims:
        h = protected_by(un, p, 'ValueError')
        if h is None:
            uncovered.append(p)
    rep.extra['dependency_primitives'] = [norm(p) for p in prims]
    rep.extra['dependency_uncovered'] = [norm(p) for p in uncovered]
    # the dependency's load_cookie reaches cls.unserialize unprotected?
    lc = dep.func('SecureCookie.load_cookie')
    lc_un = [c for c in walk_body(lc.node) if isinstance(c, ast.Call) and call_tail(c) == 'unserialize']
    dep_guard = bool(lc_un) and all(protected_by(lc, c, 'ValueError') is not None for c in lc_un)
    frames = [(ju, sup_call), (rq, load_call)]
    guard = None
    if uncovered and not dep_guard:
        for fi, c in frames:
            h = protected_by(fi, c, 'ValueError')
            if h is not None:
                guard = (fi, c, h)
                break
        if guard is None:
            for p in uncovered:
                rep.fail('R16.a', '%s::%s' % (un.key, norm(p)),
                         'decoding primitive %s in the dependency is not under a ValueError handler (enclosing handlers: %s) and '
                         'no clastic frame on request -> load_cookie -> JSONCookie.unserialize catches it: a malformed cookie '
                         '(e.g. clastic_cookie="a?b") makes the request fail with 500'
                         % (short(p), _handlers_text(dep, un, p) or 'none'), ck, sup_call)
        else:
            fi, c, h = guard
            for p in uncovered:
                rep.ok('R16.a', '%s::%s' % (un.key, norm(p)),
                       'uncovered in the dependency, caught by "except %s" in %s' % (norm(h.type) or 'bare', fi.qualname), ck, h)
            # the handler yields an empty cookie and does not re-raise
            no_raise = not any(isinstance(s, ast.Raise) for s in ast.walk(h))
            rep.check('R16.a', fkey(fi, 'handler does not re-raise'), no_raise, 'handler swallows the decoding error' if no_raise else
                      'the handler re-raises: the malformed cookie still fails the request', ck, h)
            if fi is ju:
                # what unserialize returns on the paths through the handler: directly (``return cls((), key, False)``)
                # or through a local bound in the handler and returned after the try statement
                vals = _returned_after(ju, h)
                keyp = ju.params()[-1]
                ok = vals is not None and bool(vals) and all(v is not None and _empty_cookie(cx, v) for _, v in vals)
                rep.check('R16.a', fkey(fi, 'handler yields empty cookie'), ok,
                          'handler returns a cookie object constructed with no data' if ok else
                          'handler does not return an empty cookie (attacker-chosen or missing value)', ck, h)
                if ok:
                    key_ok = all(norm(argn(v, 'secret_key', 1)) == keyp for _, v in vals)
                    rep.check('R16.a', fkey(fi, 'empty cookie keeps the key'), key_ok,
                              'the fallback cookie is built with the same secret key (so it can be saved)' if key_ok else
                              'fallback cookie is not given the secret key', ck, vals[0][0])
            else:
                # handler in the middleware: must (re)bind the cookie variable to an empty cookie
                asg = [s for s in h.body if isinstance(s, ast.Assign)]
                ok = bool(asg) and all(isinstance(s.value, ast.Call) for s in asg)
                rep.check('R16.a', fkey(fi, 'handler yields empty cookie'), ok, 'handler binds a fresh cookie' if ok else
                          'handler does not bind a fresh empty cookie', ck, h)
    else:
        for p in prims:
            rep.ok('R16.a', '%s::%s' % (un.key, norm(p)), 'covered inside the dependency', dep, p)
    for p in prims:
        if p not in uncovered:
            rep.ok('R16.a', '%s::%s' % (un.key, norm(p)), 'covered by a ValueError handler inside the dependency', dep, p)
    # decoding primitives clastic itself applies to what the client sent (the string handed to unserialize; in request(), anything
    # read from the request other than through the loaded cookie): each one under a handler of this function that does not re-raise
    from ..effects import Flow
    lst = cx.stmt(load_call)
    cvars = set(t.id for t in getattr(lst, 'targets', []) if isinstance(t, ast.Name))
    reqs = set(n.id for n in ast.walk(argn(load_call, 'request', 0) or ast.Constant(value=None)) if isinstance(n, ast.Name)) - {'self'}
    for fi, sources, boundary, skip in ((ju, set(ju.params()[1:2]), set(), []), (rq, reqs, cvars, [lst])):
        fl = Flow(fi)
        for n in walk_body(fi.node):
            prim, operands = None, []
            if isinstance(n, ast.Call) and call_tail(n) in DECODERS:
                prim = n
                operands = ([n.func.value] if isinstance(n.func, ast.Attribute) else []) + list(n.args) + [k.value for k in n.keywords]
            elif isinstance(n, ast.Assign) and isinstance(n.targets[0], ast.Tuple) and isinstance(n.value, ast.Call) and call_tail(n.value) == 'split' \
                    and isinstance(n.value.func, ast.Attribute):
                prim, operands = n.value, [n.value.func.value]
            if prim is None:
                continue
            at = cx.stmt(prim)
            if not any(_derives(fl, o, at, sources, boundary, skip) for o in operands):
                continue
            h = protected_by(fi, prim, 'ValueError')
            ok = h is not None and not any(isinstance(x, ast.Raise) for x in ast.walk(h))
            rep.check('R16.a', fkey(fi, 'own primitive: %s' % norm(prim)), ok,
                      'decoding of client data in %s is under a handler that swallows the error' % fi.qualname if ok else
                      '%s decodes what the client sent outside any handler of %s that swallows ValueError: a malformed cookie / request value '
                      'makes the request fail with 500 instead of yielding an empty cookie' % (short(prim, 50), fi.qualname), ck, prim)
    rep.floor('R16.a', 3)


COOKIE_CTORS = ('cls', 'JSONCookie')
MW_COOKIE_CTORS = ('self._cookie_type', 'type(self)._cookie_type', 'self.__class__._cookie_type', 'JSONCookie')


def _empty_cookie(cx, e, ctors=COOKIE_CTORS):
    """``cls(<no data>, ...)`` / ``JSONCookie(<no data>, ...)`` (data = first parameter of SecureCookie.__init__)."""
    if not (isinstance(e, ast.Call) and norm(e.func) in ctors):
        return False
    if any(isinstance(a, ast.Starred) for a in e.args) or any(k.arg is None for k in e.keywords):
        return False
    d = argn(e, 'data', 0)
    if d is None or _is_empty(d):
        return True
    v = cx.fold(d)
    return v is None or (isinstance(v, (tuple, list, dict)) and not v)


def _value_defs(fi, name):
    """[(statement, value)] for the plain bindings of local ``name``; None when it is also bound in a way that has
    no value expression (loop target, with-target, tuple unpacking, augmented assignment, except-as)."""
    out = []
    for st, v, idx in assigned_value(fi.node, name):
        if idx is not None or not isinstance(st, (ast.Assign, ast.AnnAssign)):
            return None
        out.append((st, v))
    return out


def _reaching(fi, name, at_stmt, src_nodes):
    """Values local ``name`` may hold at ``at_stmt`` on the paths that start at ``src_nodes``: [(def stmt, value)];
    None when a path from src reaches the statement without binding the name (or a binding has no value expr)."""
    cfg = cfg_of(fi)
    defs = _value_defs(fi, name)
    if defs is None:
        return None
    at = set(cfg.nodes_of(at_stmt))
    dn = dict((id(st), set(cfg.nodes_of(st))) for st, _ in defs)
    all_dn = set().union(*dn.values()) if dn else set()
    if at & cfg.reach(list(src_nodes), avoid=all_dn):
        return None
    from_src = cfg.reach(list(src_nodes))
    out = []
    for st, v in defs:
        mine = dn[id(st)] & from_src
        if not mine:
            continue
        after = [m for n in mine for m in cfg.succ[n] if (n, m) not in cfg.exc_edges]
        starts = [m for m in after if m not in all_dn]
        if (at & set(after)) or (at & cfg.reach(starts, avoid=all_dn)):
            out.append((st, v))
    return out


def _returned_after(fi, handler):
    """[(return stmt, value expr)] for every return the handler's paths end in; value is None when it cannot be
    named.  None when a path through the handler leaves the function without a return statement."""
    cfg = cfg_of(fi)
    hn = cfg.handler_nodes(handler)
    if not hn:
        return None
    r = cfg.reach(hn, normal_only=True)
    has_finally = any(isinstance(s, ast.Try) and s.finalbody for s in stmts_of(fi.node))
    out = []
    for n in r:
        nd = cfg.nodes[n]
        if cfg.exit in cfg.succ[n] and not isinstance(nd.stmt, ast.Return) and not has_finally:
            return None     # falls off the end: returns None, not a cookie
        if nd.kind != 'stmt' or not isinstance(nd.stmt, ast.Return):
            continue
        ret = nd.stmt
        if ret.value is None:
            out.append((ret, None))
        elif isinstance(ret.value, ast.Name) and ret.value.id not in fi.params():
            vs = _reaching(fi, ret.value.id, ret, hn)
            if not vs:
                out.append((ret, None))
            else:
                out.extend((ret, v) for _, v in vs)
        else:
            out.append((ret, ret.value))
    return out


# ---------------------------------------------------------------------------------------------- R16.b
def rule_b(rep, cx):
    ck, dep, repo = cx.ck, cx.dep, cx.repo
    rep.rule('R16.b', 'every call in JSONCookie.unquote is under except Exception -> UnquoteError')
    uq = ck.func('JSONCookie.unquote')
    calls = [c for c in walk_body(uq.node) if isinstance(c, ast.Call) and not (isinstance(cx.stmt(c), ast.Raise))]
    n = 0
    for c in calls:
        if any(c is x for h in _all_handlers(uq) for x in ast.walk(h)):
            continue
        n += 1
        h = protected_by(uq, c, 'Exception')
        ok = h is not None and all(_names_unquote_error(cx, uq, r) for r in ast.walk(h) if isinstance(r, ast.Raise)) \
            and handler_reraises_always(uq, h)
        rep.check('R16.b', fkey(uq, c), ok, 'failure of %s becomes UnquoteError' % short(c, 40) if ok else
                  '%s can raise something other than UnquoteError out of unquote (the dependency only expects UnquoteError)'
                  % short(c, 60), ck, c)
    if n < 2:
        raise AnalysisError('JSONCookie.unquote: decoding calls not found')
    jc = ck.cls('JSONCookie')
    # writer / reader agreement: the payload encoder of quote() and the decoder of unquote() are the two halves of one codec
    PAIRS = {'b64encode': 'b64decode', 'urlsafe_b64encode': 'urlsafe_b64decode', 'standard_b64encode': 'standard_b64decode',
             'b32encode': 'b32decode', 'b16encode': 'b16decode', 'hexlify': 'unhexlify', 'encodebytes': 'decodebytes'}
    qf = ck.func('JSONCookie.quote')
    encs = [call_tail(c) for c in walk_body(qf.node) if isinstance(c, ast.Call) and call_tail(c) in PAIRS]
    decs = [call_tail(c) for c in walk_body(uq.node) if isinstance(c, ast.Call) and call_tail(c) in PAIRS.values()]
    for what, found, f_ in (('encoder', encs, qf), ('decoder', decs, uq)):
        if not found and (_opaque_calls(cx, jc, f_) or not (encs or decs)):
            raise AnalysisError('%s: payload %s not found (work is done in %s, which could not be followed)'
                                % (f_.qualname, what, ', '.join(_opaque_calls(cx, jc, f_)) or 'an unknown place'))
    ok = len(encs) == 1 and len(decs) == 1 and PAIRS[encs[0]] == decs[0]
    rep.check('R16.b', '%s::JSONCookie quote/unquote codec' % COOKIE, ok, 'quote() and unquote() use matching halves of one codec (%s / %s)' % (encs, decs) if ok else
              'quote() encodes with %s but unquote() decodes with %s: values whose encoding differs between the two alphabets are silently '
              'dropped (the whole cookie is discarded as unquotable)' % (encs, decs), ck, qf.node)
    sers_q = [_receiver(cx, qf, jc, c) for c in walk_body(qf.node) if isinstance(c, ast.Call) and call_tail(c) == 'dumps']
    sers_u = [_receiver(cx, uq, jc, c) for c in walk_body(uq.node) if isinstance(c, ast.Call) and call_tail(c) == 'loads']
    sers = sers_q + sers_u
    ok = bool(sers_q) and bool(sers_u) and len(set(sers)) == 1
    rep.check('R16.b', '%s::JSONCookie quote/unquote serializer' % COOKIE, ok, 'dumps / loads come from the same serialization module' if ok else
              'quote() and unquote() use different serializers: %s' % sers, ck, qf.node)
    charsets = set(_charset(cx, c) for f_ in (qf, uq) for c in walk_body(f_.node)
                   if isinstance(c, ast.Call) and call_tail(c) in ('encode', 'decode') and isinstance(c.func, ast.Attribute))
    rep.check('R16.b', '%s::JSONCookie quote/unquote charset' % COOKIE, len(charsets) == 1, 'text is encoded and decoded with the same charset %s' % sorted(charsets) if len(charsets) == 1 else
              'quote()/unquote() use different charsets: %s' % sorted(map(str, charsets)), ck, qf.node)
    # the class the handlers of unquote() raise under that name is the one the dependency's loop catches: the name is resolved
    # in the module unquote() is written in (the class may have moved; the import goes with it)
    raised = [r for h in _all_handlers(uq) for r in ast.walk(h) if isinstance(r, ast.Raise) and _names_unquote_error(cx, uq, r)]
    if dep.classes.get('UnquoteError') is None:
        raise AnalysisError('secure_cookie.cookie: class UnquoteError not found (model out of date)')
    ok = bool(raised) and all(_raised_class(cx, uq, r) is dep.classes['UnquoteError'] for r in raised)
    rep.check('R16.b', '%s::UnquoteError' % COOKIE, ok, 'UnquoteError is the dependency\'s own class' if ok else
              'UnquoteError is not the class secure_cookie catches', uq.mod, raised[0] if raised else uq.node)
    _quote_total(rep, cx, qf, jc)
    _codec_pipeline(rep, cx, qf, uq, jc, PAIRS)


# "exactly the data the application stored": as far as the shape of the two functions goes, unquote(quote(v)) is v --
#   quote   = layout . encoder . text->bytes . dumps   applied to the value it is given, itself;
#   unquote = loads . bytes->text . decoder            applied to the value it is given, itself, and returned as it is;
# the serializer's loads gets no hook that rebuilds values.  (What the serializer itself does to a value -- tuples, keys
# that are not strings -- stays declined.)  A step that is not one of these is an analysis gap, except the ones that are
# known to lose data: a slice of the payload (truncation), a transformed value, a transformed result, a loads hook.
LOADS_HOOKS = ('object_hook', 'object_pairs_hook', 'parse_float', 'parse_int', 'parse_constant', 'cls')
BLANK_BYTES = (b'', b'\n', b'\r', b'\r\n', b' ', '', '\n', '\r', '\r\n', ' ')


class _Lossy(Exception):
    def __init__(self, why, node):
        Exception.__init__(self, why)
        self.why, self.node = why, node


def _codec_pipeline(rep, cx, qf, uq, jc, pairs):
    from ..effects import Flow
    for fi, walk, good in ((qf, _quote_steps, 'quote() is layout(encoder(text -> bytes(dumps(value)))) of the value it is given'),
                           (uq, _unquote_steps, 'unquote() returns loads(bytes -> text(decoder(value))) of the value it is given, as it is')):
        ps = [p_ for p_ in fi.params() if p_ not in ('cls', 'self')]
        rets = [r for r in returns_of(fi) if r.value is not None]
        if len(ps) != 1 or not rets:
            raise AnalysisError('%s: parameter / return value not found' % fi.qualname)
        fl = Flow(fi)
        lossy = []
        for r in rets:
            try:
                walk(cx, fl, fi, jc, pairs, ps[0], r.value, r, 'result' if fi is uq else 'layout', 0)
            except _Lossy as e:
                lossy.append(e)
        rep.check('R16.b', fkey(fi, 'pipeline'), not lossy, good if not lossy else lossy[0].why, fi.mod, lossy[0].node if lossy else fi.node)


def _leaves(fl, fi, e, at, depth):
    if depth > 24:
        raise AnalysisError('%s: the payload pipeline is too deep to follow' % fi.qualname)
    out = []
    for lf in fl.leaves(e, at):
        if lf.opaque:
            raise AnalysisError('%s: %s is bound in a way that is not followed' % (fi.qualname, short(e, 30)))
        out.append((lf.value, lf.stmt))
    return out


def _is_param(fl, v, st, param):
    """A leaf that is the parameter's name stands for the value on entry (every binding in the function was followed to its value)."""
    return isinstance(v, ast.Name) and v.id == param


def _plain_call(v):
    return isinstance(v, ast.Call) and not any(isinstance(a, ast.Starred) for a in v.args) and not any(k.arg is None for k in v.keywords)


def _quote_steps(cx, fl, fi, jc, pairs, param, e, at, stage, depth):
    for v, st in _leaves(fl, fi, e, at, depth):
        rec = lambda x, stage_: _quote_steps(cx, fl, fi, jc, pairs, param, x, st, stage_, depth + 1)
        if isinstance(v, ast.Subscript) and stage != 'value':
            raise _Lossy('quote() cuts the payload (%s): a value longer than that no longer decodes -- the dependency discards the whole cookie as '
                         'unquotable and the next request presents an empty cookie instead of what the application stored' % short(v, 40), v)
        if stage == 'value':
            if not _is_param(fl, v, st, param):
                raise _Lossy('quote() serializes %s, not the value it is given: what the endpoint reads back on the next request is not what it stored'
                             % short(v, 40), v)
            continue
        call = v if _plain_call(v) else None
        meth = call.func.attr if call is not None and isinstance(call.func, ast.Attribute) else None
        if stage == 'layout':
            if meth in STR_TO_STR and not call.keywords and (not call.args or (len(call.args) == 1 and cx.fold(call.args[0]) in BLANK_BYTES)):
                rec(call.func.value, 'layout')
            elif meth == 'join' and len(call.args) == 1 and not call.keywords and cx.fold(call.func.value) in (b'', ''):
                inner = [x for x, _ in _leaves(fl, fi, call.args[0], st, depth + 1)]
                if not all(_plain_call(x) and isinstance(x.func, ast.Attribute) and x.func.attr in ('splitlines', 'split') and not x.args and not x.keywords
                           for x in inner):
                    raise AnalysisError('%s: the pieces joined in %s are not followed' % (fi.qualname, short(v, 40)))
                for x in inner:
                    rec(x.func.value, 'layout')
            elif meth == 'replace' and len(call.args) == 2 and not call.keywords and cx.fold(call.args[0]) in BLANK_BYTES[1:] and cx.fold(call.args[1]) in (b'', ''):
                rec(call.func.value, 'layout')
            elif call is not None and call_tail(call) in pairs and call.args:
                rec(call.args[0], 'bytes')
            else:
                raise AnalysisError('%s: the step %s between the encoder and the returned payload is not followed' % (fi.qualname, short(v, 40)))
        elif stage == 'bytes':
            enc = _encode_step(v)
            if enc is None:
                raise AnalysisError('%s: what is handed to the encoder (%s) is not a text -> bytes step that is followed' % (fi.qualname, short(v, 40)))
            rec(enc[0], 'text')
        elif stage == 'text':
            if meth in STR_TO_STR and not call.args and not call.keywords:
                rec(call.func.value, 'text')
            elif isinstance(v, ast.Call) and call_tail(v) == 'dumps' and argn(v, 'obj', 0) is not None:
                rec(argn(v, 'obj', 0), 'value')         # (its options: see the totality obligation)
            else:
                raise AnalysisError('%s: the text that is encoded (%s) is not the output of the serializer' % (fi.qualname, short(v, 40)))


def _unquote_steps(cx, fl, fi, jc, pairs, param, e, at, stage, depth):
    for v, st in _leaves(fl, fi, e, at, depth):
        rec = lambda x, stage_: _unquote_steps(cx, fl, fi, jc, pairs, param, x, st, stage_, depth + 1)
        call = v if _plain_call(v) else None
        meth = call.func.attr if call is not None and isinstance(call.func, ast.Attribute) else None
        if stage == 'result':
            if not (isinstance(v, ast.Call) and call_tail(v) == 'loads'):
                raise _Lossy('unquote() returns %s, not the value the serializer decoded: the endpoint does not get back what it stored' % short(v, 40), v)
            call = v
            if argn(call, 's', 0) is None:
                raise AnalysisError('%s: the arguments of %s are not followed' % (fi.qualname, short(v, 40)))
            hooks = [k.arg for k in call.keywords if k.arg in LOADS_HOOKS]
            for k in call.keywords:
                if k.arg is None:
                    opts = cx.fold(k.value)
                    if not isinstance(opts, dict):
                        raise AnalysisError('%s: the options %s of the serializer are not followed' % (fi.qualname, short(k.value, 40)))
                    hooks += [x for x in opts if x in LOADS_HOOKS]
            if hooks:
                raise _Lossy('the serializer\'s loads is given %s: the values handed to the endpoint are rebuilt by the hook and are not the ones it stored '
                             '(quote() has no counterpart)' % ', '.join(hooks), call)
            rec(argn(call, 's', 0), 'text')
        elif stage == 'text':
            if isinstance(v, ast.Subscript):
                raise _Lossy('unquote() decodes only a part of the payload (%s)' % short(v, 40), v)
            if meth in STR_TO_STR and not call.args and not call.keywords:
                rec(call.func.value, 'text')
            elif meth == 'decode' and norm(call.func.value) not in ('codecs', 'bytes', 'base64', 'binascii'):
                rec(call.func.value, 'bytes')
            elif call is not None and norm(call.func) in ('str', 'codecs.decode', 'bytes.decode') and call.args:
                rec(call.args[0], 'bytes')
            elif call is not None and call_tail(call) in pairs.values() and call.args:
                rec(call.args[0], 'value')         # the serializer is given bytes
            else:
                raise AnalysisError('%s: the text handed to the serializer (%s) is not followed' % (fi.qualname, short(v, 40)))
        elif stage == 'bytes':
            if isinstance(v, ast.Subscript):
                raise _Lossy('unquote() decodes only a part of the payload (%s)' % short(v, 40), v)
            if call is not None and call_tail(call) in pairs.values() and call.args:
                rec(call.args[0], 'value')
            else:
                raise AnalysisError('%s: the bytes that are decoded (%s) are not the output of the decoder' % (fi.qualname, short(v, 40)))
        elif stage == 'value':
            if not _is_param(fl, v, st, param):
                raise _Lossy('unquote() decodes %s, not the value it is given' % short(v, 40), v)


def _raised_class(cx, fi, r):
    """What ``raise X`` / ``raise X(..)`` names, resolved in the module the function is written in: ClassInfo or a text."""
    if r.exc is None:
        return None
    return cx.repo.resolve_class(fi.mod, r.exc.func if isinstance(r.exc, ast.Call) else r.exc)


def _names_unquote_error(cx, fi, r):
    """The raise statement names the exception the dependency's MAC-then-unquote loop expects: by that name, or under
    whatever name the module imports the dependency's class (whether it IS that class is an obligation of its own)."""
    t = raise_type(r)
    return t is not None and (t.rpartition('.')[2] == 'UnquoteError' or _raised_class(cx, fi, r) is cx.dep.classes.get('UnquoteError'))


# quote() is total on everything unquote() can hand to the application: the text the serializer produces is put into
# one of two classes ('ascii': only code points < 128; 'any': arbitrary str, unpaired surrogates included -- what
# json.loads returns for "\ud83d") and every text -> bytes step must be total on the class that reaches it.
ASCII_SUPERSETS = {'utf-8', 'utf-8-sig', 'ascii', 'iso8859-1', 'cp1252', 'utf-16', 'utf-16-le', 'utf-16-be', 'utf-32', 'utf-32-le', 'utf-32-be'}
TOTAL_HANDLERS = {'replace', 'ignore', 'backslashreplace', 'xmlcharrefreplace', 'namereplace'}
JSON_MODULES = ('json', 'simplejson')
STR_TO_STR = ('strip', 'lstrip', 'rstrip')


def _quote_total(rep, cx, qf, jc):
    from ..effects import Flow
    ck = cx.ck
    fl = Flow(qf)
    for r in raises_of(qf):
        t = raise_type(r)
        h = protected_by(qf, r, t) or protected_by(qf, r, 'Exception') if t is not None else None
        ok = h is not None and not any(isinstance(s, ast.Raise) for s in ast.walk(h))
        rep.check('R16.b', fkey(qf, r), ok, 'raised and handled inside quote()' if ok else
                  'quote() raises (%s): save_cookie() fails after the endpoint has run -- error response, the stored data is lost'
                  % short(r, 60), ck, r)
    for c in walk_body(qf.node):
        enc = _encode_step(c)
        if enc is None:
            continue
        text, a_cs, a_err = enc
        at = cx.stmt(c)
        cls_ = _text_class(cx, fl, qf, jc, text, at)
        if cls_ is None:
            continue        # not serializer output (the serializer / codec obligations speak about that)
        charset = _charset_of(cx, a_cs)
        errors = 'strict' if a_err is None else cx.fold(_follow(qf, a_err))
        if not isinstance(errors, str) or charset is None:
            raise AnalysisError('JSONCookie.quote: cannot decide the charset / error handler of %s' % short(c, 60))
        h = protected_by(qf, c, 'UnicodeEncodeError')
        handled = h is not None and not any(isinstance(s, ast.Raise) for s in ast.walk(h))
        if handled:
            ok, why = True, 'an encoding failure is handled inside quote()'
        elif errors in TOTAL_HANDLERS:
            ok, why = True, 'error handler %r makes the encoding step total' % errors
        elif cls_ == 'ascii':
            if charset not in ASCII_SUPERSETS:
                raise AnalysisError('JSONCookie.quote: cannot decide whether charset %s encodes every ASCII text' % charset)
            ok, why = True, 'the serializer emits ASCII only (ensure_ascii), which %s always encodes' % charset
        elif errors == 'surrogatepass' and charset.startswith('utf-'):
            ok, why = True, 'surrogatepass: %s encodes every str' % charset
        else:
            ok, why = False, ('the serializer is told not to escape non-ASCII text (ensure_ascii off), so a stored string with an unpaired '
                              'surrogate (what unquote() returns for "\\ud83d") makes %s raise UnicodeEncodeError inside save_cookie(), after the '
                              'endpoint has run: error response, no Set-Cookie, the stored data is lost' % short(c, 50))
        rep.check('R16.b', fkey(qf, 'quote is total: %s' % norm(c.func)), ok, why, ck, c)


def _encode_step(c):
    """(text expr, encoding expr, errors expr) of a str -> bytes step: ``t.encode(..)``, ``bytes(t, ..)``,
    ``codecs.encode(t, ..)``, ``str.encode(t, ..)``; None for any other node."""
    if not isinstance(c, ast.Call) or any(isinstance(a, ast.Starred) for a in c.args) or any(k.arg is None for k in c.keywords):
        return None
    f = c.func
    if isinstance(f, ast.Attribute) and f.attr == 'encode':
        if norm(f.value) in ('codecs', 'str'):
            return (c.args[0], argn(c, 'encoding', 1), argn(c, 'errors', 2)) if c.args else None
        return f.value, argn(c, 'encoding', 0), argn(c, 'errors', 1)
    if isinstance(f, ast.Name) and f.id == 'bytes' and c.args and (len(c.args) > 1 or c.keywords):
        return c.args[0], argn(c, 'encoding', 1), argn(c, 'errors', 2)
    return None


def _charset_of(cx, a):
    if a is None:
        return 'utf-8'
    v = cx.fold(a)
    if isinstance(v, str):
        try:
            return codecs.lookup(v).name
        except LookupError:
            return None
    return None


def _text_class(cx, fl, fi, jc, e, at, depth=0):
    """'ascii' / 'any': the class of text the serializer's output reaching ``e`` (evaluated at statement ``at``) is in;
    None when no serializer output reaches it.  AnalysisError when it does, in a way that is not followed."""
    out = set()
    for lf in fl.leaves(e, at):
        v = lf.value
        if isinstance(v, ast.Call) and isinstance(v.func, ast.Attribute) and v.func.attr in STR_TO_STR and depth < 6:
            c = _text_class(cx, fl, fi, jc, v.func.value, lf.stmt, depth + 1)
        elif isinstance(v, ast.Call) and call_tail(v) == 'dumps' and _receiver(cx, fi, jc, v) in JSON_MODULES:
            ea = _ensure_ascii(cx, fi, v)
            if ea is None:
                raise AnalysisError('JSONCookie.quote: cannot decide the ensure_ascii argument of %s' % short(v, 60))
            c = 'ascii' if ea else 'any'
        elif any(isinstance(n, ast.Call) and call_tail(n) == 'dumps' for n in ast.walk(v)):
            raise AnalysisError('JSONCookie.quote: serializer output reaches %s through %s, which is not followed' % (short(e, 30), short(v, 50)))
        else:
            c = None
        if c is not None:
            out.add(c)
    if not out:
        return None
    return 'any' if 'any' in out else 'ascii'


def _ensure_ascii(cx, fi, call):
    """What json.dumps is told about escaping: True (the default) / False; None when it cannot be decided."""
    if any(isinstance(a, ast.Starred) for a in call.args):
        return None
    for k in call.keywords:
        if k.arg == 'ensure_ascii':
            v = cx.fold(_follow(fi, k.value))
            return bool(v) if v is not _NOFOLD and not isinstance(v, ast.AST) else None
    for k in call.keywords:
        if k.arg is not None:
            continue
        v = cx.fold(k.value)
        if isinstance(v, dict):
            if 'ensure_ascii' in v:
                return bool(v['ensure_ascii'])
            continue
        try:
            layers = layers_of_value(fi.node, k.value)
        except AnalysisError:
            return None
        for l in layers:
            if l.keys is None:
                lv = cx.fold(l.node) if isinstance(l.node, ast.expr) else _NOFOLD
                if not isinstance(lv, dict):
                    return None
                if 'ensure_ascii' in lv:
                    return bool(lv['ensure_ascii'])
            elif 'ensure_ascii' in l.keys:
                x = cx.fold(l.values['ensure_ascii']) if l.values.get('ensure_ascii') is not None else _NOFOLD
                return bool(x) if x is not _NOFOLD else None
    return True


def _opaque_calls(cx, ci, fi):
    """Calls of functions of the analysed module / methods of the class that were not dissolved into ``fi``."""
    out = []
    for c in walk_body(fi.node):
        if not isinstance(c, ast.Call):
            continue
        f = c.func
        if isinstance(f, ast.Attribute) and norm(f.value) in ('cls', 'self', ci.name) and _own_method(cx, ci, f.attr):
            out.append(norm(f))
        elif isinstance(f, ast.Name):
            kind, m, _ = cx.repo.resolve(fi.mod, f.id)
            if kind == 'func' and m is not None and not m.external:
                out.append(f.id)
    return out


def _own_method(cx, ci, name):
    m = cx.repo.find_method(ci, name)
    return m is not None and not m.mod.external


def _receiver(cx, fi, ci, call):
    """The object a ``X.dumps`` / ``X.loads`` call is made on: a local naming it is followed, a class attribute read
    through cls / self / the name of the class or of one of its bases is replaced by the value the attribute has for
    class ``ci`` -- looked up along its MRO, so that a codec mixin listed before SecureCookie is seen the way Python sees
    it (``cls.serialization_method`` -> ``json``); a name bound by ``import m as n`` is given as ``m``."""
    e = _follow(fi, call.func.value) if isinstance(call.func, ast.Attribute) else call.func
    if isinstance(e, ast.Attribute):
        start = None
        if norm(e.value) in ('cls', 'self', 'type(self)', 'self.__class__'):
            start = ci
        elif isinstance(e.value, ast.Name):
            start = next((c for c in cx.repo.mro(ci) if isinstance(c, ClassInfo) and c.name == e.value.id), None)
        if start is not None:
            owner, v = cx.repo.class_attr(start, e.attr)
            if owner is not None and isinstance(v, ast.expr):
                return _module_text(cx, owner.mod, v)
    return _module_text(cx, fi.mod, e)


def _module_text(cx, mod, e):
    if isinstance(e, ast.Name):
        kind, _, obj = cx.repo.resolve(mod, e.id)
        if kind == 'module' and isinstance(obj, str):
            return obj
    return norm(e)


def _charset(cx, call):
    a = argn(call, 'encoding', 0)
    if a is None:
        return 'utf-8'
    v = cx.fold(a)
    if isinstance(v, str):
        try:
            return codecs.lookup(v).name
        except LookupError:
            return v
    return norm(a)


def _follow(fi, e, depth=0):
    """Follow a local that is bound exactly once (a named temporary) to the expression it names."""
    while isinstance(e, ast.Name) and depth < 6 and e.id not in fi.params():
        defs = _value_defs(fi, e.id)
        if not defs or len(defs) != 1:
            break
        e = defs[0][1]
        depth += 1
    return e


# ---------------------------------------------------------------------------------------------- R16.c
def rule_c(rep, cx):
    ck, dep, un, ju = cx.ck, cx.dep, cx.un, cx.ju
    rep.rule('R16.c', 'in SecureCookie.unserialize the MAC comparison dominates unquote and expiry; clastic keeps the MAC')
    is_mac = lambda t: isinstance(t, ast.Call) and call_tail(t) in ('safe_str_cmp', 'compare_digest') and 'digest' in norm(t)
    uses = [c for c in walk_body(un.node) if isinstance(c, ast.Call) and call_tail(c) == 'unquote']
    exp = [c for c in walk_body(un.node) if isinstance(c, ast.Compare) and '_expires' in norm(c) and
           any(isinstance(o, (ast.Gt, ast.Lt, ast.GtE, ast.LtE)) for o in c.ops)]
    if not uses or not exp:
        raise AnalysisError('dependency unserialize: unquote / expiry use not found')
    for u in uses + exp:
        cs = conds(un, u)
        ok = has_cond(cs, is_mac, True)
        rep.check('R16.c', '%s::%s' % (un.key, norm(u)), ok, 'dominated by the MAC comparison' if ok else
                  '%s is reachable without a successful MAC comparison' % short(u), dep, u)
    # the mac covers every item
    upd = [c for c in walk_body(un.node) if isinstance(c, ast.Call) and norm(c.func).endswith('mac.update')]
    rep.check('R16.c', '%s::mac.update' % un.key, bool(upd), 'MAC is computed over the received items' if upd else
              'no mac.update over the received items', dep, un.node)
    # (facts of the pinned dependency, read from its source like the ones above)
    from ..effects import Flow
    fl = Flow(un)
    digests = [c for c in walk_body(un.node) if isinstance(c, ast.Compare) and any(isinstance(o, (ast.Eq, ast.NotEq, ast.Is, ast.IsNot)) for o in c.ops)
               and any(isinstance(x, ast.Call) and call_tail(x) in ('digest', 'hexdigest')
                       for side in [c.left] + c.comparators for lf in fl.leaves(side, stmt_of(dep, c)) for x in ast.walk(lf.value))]
    rep.check('R16.c', '%s::constant-time comparison' % un.key, not digests, 'the MAC is compared by safe_str_cmp / compare_digest only' if not digests else
              'the MAC is compared with %s: the comparison time tells the client how many leading bytes of a forged MAC are right' % short(digests[0], 40),
              dep, digests[0] if digests else un.node)
    rets = returns_of(un)
    from ..effects import effects_in
    filled = set(ef.root for ef in effects_in(un.node) if ef.kind in ('store', 'mutcall'))

    def final_empty(name, v):
        # ``()`` / None stay empty; an empty dict / list display is the start of what the item stores of the function fill
        return _is_empty(v) and (isinstance(v, (ast.Tuple, ast.Constant)) or name not in filled)
    for r in rets:
        v = r.value
        built = isinstance(v, ast.Call) and norm(v.func) == 'cls' and not any(isinstance(a, ast.Starred) for a in v.args) and not any(k.arg is None for k in v.keywords)
        data, key = (argn(v, 'data', 0), argn(v, 'secret_key', 1)) if built else (None, None)
        ok = built and data is not None and key is not None and norm(key) == un.params()[-1]
        rep.check('R16.c', '%s::returns %s' % (un.key, norm(v)), ok, 'unserialize returns cls(<items>, secret_key, ..): a cookie of the class it was called on, with the key' if ok else
                  'SecureCookie.unserialize returns %s, not cls(<items>, secret_key, ..)' % short(v, 40), dep, r)
        if not ok:
            continue
        for lf in fl.leaves(data, r):
            if final_empty(norm(data), lf.value):
                continue
            # a non-empty value of the data reaches the constructor only along paths through the successful MAC comparison
            ds = [d for d in fl.reaching(norm(data), r) if d.kind == 'assign' and d.value is lf.value] if isinstance(data, ast.Name) else []
            through = bool(ds) and all(has_cond(list(conds(un, d.stmt)) + list(fl.flow_conds(d, r)), is_mac, True) for d in ds)
            rep.check('R16.c', '%s::data %s' % (un.key, norm(lf.value)), through,
                      'the non-empty data %s reaches the returned cookie only through the successful MAC comparison' % short(lf.value, 20) if through else
                      'data %s can reach the returned cookie without a successful MAC comparison' % short(lf.value, 30), dep, lf.stmt)
    for e in exp:
        # orientation: the cookie is emptied when now > _expires
        l, op, r_ = e.left, e.ops[0], e.comparators[0]
        now_left = any(isinstance(x, ast.Call) and norm(x.func) in ('time', 'time.time') for x in ast.walk(l))
        now_right = any(isinstance(x, ast.Call) and norm(x.func) in ('time', 'time.time') for x in ast.walk(r_))
        expired_when = True if (now_left and isinstance(op, (ast.Gt, ast.GtE))) or (now_right and isinstance(op, (ast.Lt, ast.LtE))) else \
            False if (now_left and isinstance(op, (ast.Lt, ast.LtE))) or (now_right and isinstance(op, (ast.Gt, ast.GtE))) else None
        if expired_when is None or len(e.ops) != 1 or now_left == now_right:
            raise AnalysisError('dependency unserialize: the expiry comparison %s is not followed' % short(e, 40))
        # the branch taken when the clock is past _expires empties the data, the other one does not
        iff = [st for st in stmts_of(un.node) if isinstance(st, ast.If) and st.test is e]
        datas = set(argn(r.value, 'data', 0).id for r in rets if isinstance(r.value, ast.Call) and isinstance(argn(r.value, 'data', 0), ast.Name))
        if len(iff) != 1 or not datas:
            raise AnalysisError('dependency unserialize: the statement testing %s is not followed' % short(e, 40))
        past, not_past = (iff[0].body, iff[0].orelse) if expired_when else (iff[0].orelse, iff[0].body)

        def empties(block):
            return any(isinstance(st, ast.Assign) and any(isinstance(t, ast.Name) and t.id in datas for t in st.targets) and
                       isinstance(st.value, (ast.Tuple, ast.Constant)) and _is_empty(st.value) for b_ in block for st in ast.walk(b_))
        ok = empties(past) and not empties(not_past)
        rep.check('R16.c', '%s::expiry orientation' % un.key, ok, 'the data is discarded when the clock is past the signed _expires' if ok else
                  'the comparison %s keeps the data when the clock is past _expires' % short(e, 40), dep, e)
    jc = ck.cls('JSONCookie')
    for nm in ('hash_method', 'serialize', 'load_cookie', 'save_cookie'):
        owner, _ = cx.repo.class_attr(jc, nm)       # along the MRO: a mixin listed before SecureCookie overrides as well
        if owner is None:
            raise AnalysisError('JSONCookie.%s: not found along the MRO of JSONCookie (dependency class not resolved)' % nm)
        ok = owner.mod.external
        rep.check('R16.c', '%s::JSONCookie.%s' % (COOKIE, nm), ok, 'JSONCookie inherits %s from SecureCookie' % nm if ok else
                  'JSONCookie overrides %s%s (the MAC / cookie plumbing is no longer the dependency\'s)'
                  % (nm, ' through its base %s' % owner.name if owner is not None and owner is not jc else ''), ck, (owner or jc).node)
    sc = cx.sup_calls[0]
    ps = [p for p in ju.params() if p != 'cls']
    plain = not any(isinstance(a, ast.Starred) for a in sc.args) and not any(k.arg is None for k in sc.keywords) \
        and len(sc.args) + len(sc.keywords) == 2
    a_str, a_key = argn(sc, 'string', 0), argn(sc, 'secret_key', 1)
    # the key is handed on as received; the string handed on derives from the received string only through strip()
    ok = plain and a_str is not None and a_key is not None and norm(a_key) == ps[1] and not assigned_value(ju.node, ps[1]) \
        and _stripped_param(ju, a_str, ps[0], set())
    rep.check('R16.c', fkey(ju, 'delegates'), ok, 'unserialize hands (stripped string, same secret_key) to SecureCookie.unserialize' if ok else
              'JSONCookie.unserialize does not delegate (string, secret_key) unchanged to the dependency', ck, sc)
    ok = _returns_call(ju, sc)
    rep.check('R16.c', fkey(ju, 'returns verified cookie'), ok, 'the verified cookie object is what is returned' if ok else
              'the result of the dependency\'s verification is not what is returned', ck, ju.node)
    rep.floor('R16.c', 8)


def _stripped_param(fi, e, param, seen):
    """``e`` is the parameter itself, a strip()/lstrip()/rstrip() of such a value, or a local every binding of which
    is such a value (``unwrapped = string.strip('"')``; ``string = string.strip('"')``)."""
    if isinstance(e, ast.Call) and isinstance(e.func, ast.Attribute) and e.func.attr in STRIPS and not e.keywords \
            and len(e.args) <= 1 and not any(isinstance(a, ast.Starred) for a in e.args):
        return _stripped_param(fi, e.func.value, param, seen)
    if isinstance(e, ast.Name):
        if e.id in seen:
            return True
        defs = _value_defs(fi, e.id)
        if defs is None:
            return False
        if e.id != param and (not defs or e.id in fi.params()):
            return False
        return all(_stripped_param(fi, v, param, seen | {e.id}) for _, v in defs)
    return False


def _returns_call(fi, call):
    """The value of ``call`` is what the function returns when the call succeeds: ``return <call>``, or
    ``v = <call>`` and every return that binding reaches (without a re-binding) is ``return v``."""
    st = stmt_of(fi.mod, call)
    if isinstance(st, ast.Return):
        return st.value is call
    if not (isinstance(st, ast.Assign) and st.value is call and len(st.targets) == 1 and isinstance(st.targets[0], ast.Name)):
        return False
    name = st.targets[0].id
    defs = _value_defs(fi, name)
    if defs is None:
        return False
    cfg = cfg_of(fi)
    dn = set()
    for d, _ in defs:
        dn.update(cfg.nodes_of(d))
    mine = cfg.nodes_of(st)
    after = [m for n in mine for m in cfg.succ[n] if (n, m) not in cfg.exc_edges and m not in dn]
    r = cfg.reach(after, avoid=dn, normal_only=True)
    rets = [cfg.nodes[n].stmt for n in r if cfg.nodes[n].kind == 'stmt' and isinstance(cfg.nodes[n].stmt, ast.Return)]
    if not rets or cfg.exit in [m for n in r for m in cfg.succ[n] if not isinstance(cfg.nodes[n].stmt, ast.Return)]:
        return False
    return all(isinstance(x.value, ast.Name) and x.value.id == name for x in rets)


# ---------------------------------------------------------------------------------------------- R16.d
def rule_d(rep, cx):
    ck, rq, repo = cx.ck, cx.rq, cx.repo
    rep.rule('R16.d', 'key/name plumbing, provide-under-name, save on every normal path, expiry stamping')
    lcall = cx.load_calls[0]
    recv = _follow(rq, lcall.func.value)
    ok = norm(argn(lcall, 'secret_key', 2)) == 'self.secret_key' and norm(argn(lcall, 'key', 1)) == 'self.cookie_name' and \
        norm(argn(lcall, 'request', 0)) == 'request' and norm(recv) in ('self._cookie_type', 'type(self)._cookie_type', 'self.__class__._cookie_type', 'JSONCookie')
    rep.check('R16.d', fkey(rq, 'load_cookie args'), ok, 'load_cookie(request, key=self.cookie_name, secret_key=self.secret_key)' if ok else
              'load_cookie is not given the middleware\'s own key/name: %s' % short(lcall), ck, lcall)
    ct = ck.cls('SignedCookieMiddleware').class_attrs.get('_cookie_type')
    rep.check('R16.d', '%s::SignedCookieMiddleware._cookie_type' % COOKIE, norm(ct) == 'JSONCookie', '_cookie_type is JSONCookie' if norm(ct) == 'JSONCookie' else
              '_cookie_type is %s' % norm(ct), ck)
    init = ck.func('SignedCookieMiddleware.__init__')
    mw = ck.cls('SignedCookieMiddleware')
    sk = [s for s in stmts_of(init.node) if isinstance(s, ast.Assign) and any(norm(t) == 'self.secret_key' for t in s.targets)]
    kf = _KeyFlow(cx, mw, init)
    atoms = []
    for s in sk:
        atoms += kf.atoms(init.mod, init, s.value, None, PER_CALL, ())
    # every value self.secret_key may get is the constructor argument or a random key (os.urandom, written in place or
    # reached through methods / functions / lambdas / partials / class attributes / module-level names)
    randoms = []
    for a in atoms:
        if a[0] == 'random' and not any(a[1] is b[1] and a[2] == b[2] for b in randoms):
            randoms.append(a)
    others = [a for a in atoms if a[0] != 'random' and a[:2] != ('param', 'secret_key')]
    ok = bool(sk) and any(a[:2] == ('param', 'secret_key') for a in atoms) and bool(randoms) and not others
    rep.check('R16.d', fkey(init, 'self.secret_key'), ok, 'secret key is the constructor argument, else random' if ok else
              'self.secret_key is not "the secret_key argument, else a random key": %s%s'
              % (short(sk[0].value) if sk else 'missing', '; it may also be %s' % ', '.join(sorted(set(str(a[1]) for a in others))) if others else ''),
              ck, init.node)
    for _, rcall, _, rmod, (rfi, renv) in randoms:
        gr = rmod.func_of_node(rmod.enclosing_function(rcall)) if rmod.enclosing_function(rcall) is not None else None
        nbytes = kf.constant(rmod, rfi, rcall.args[0], renv) if len(rcall.args) == 1 and not rcall.keywords else None
        ok = isinstance(nbytes, int) and not isinstance(nbytes, bool) and nbytes >= 16
        rep.check('R16.d', fkey(init, 'random key') if gr is None or gr is init else fkey(gr), ok,
                  'random key is >= 16 bytes of os.urandom' if ok else 'random key is not os.urandom(>=16)', rmod, rcall)
    if not randoms:
        rep.fail('R16.d', fkey(init, 'random key'), 'no os.urandom source for the default secret key', ck, init.node)
    # R16.f: a key per middleware.  The random key is the *server's secret of this middleware*: it must be drawn by a call
    # evaluated each time the constructor runs.  A default-argument expression, a class attribute, a module-level value or a
    # memoised factory is evaluated once per process: every middleware built without a key then signs with the same key.
    rep.rule('R16.f', 'the random default key is drawn per construction: not a default-argument expression, class attribute, '
                      'module-level value or memoised factory')
    for _, rcall, when, rmod, _ in randoms:
        rep.check('R16.f', fkey(init, 'random key per construction: %s' % norm(rcall)), when == PER_CALL,
                  '%s is evaluated each time a middleware is constructed' % short(rcall, 40) if when == PER_CALL else
                  '%s is %s: it is evaluated once per process, so every SignedCookieMiddleware constructed without secret_key signs and '
                  'verifies with the SAME key -- a cookie minted by one middleware (another application / stack, where the client may store '
                  'what it likes) carries a valid signature for every other one and is presented with its attacker-chosen contents '
                  'instead of as an empty cookie' % (short(rcall, 40), when), rmod, rcall)
    pv = [s for s in stmts_of(init.node) if isinstance(s, ast.Assign) and any(norm(t) == 'self.provides' for t in s.targets)]
    ok = len(pv) == 1 and _only_arg_name(init, _follow(init, pv[0].value)) and not assigned_value(init.node, 'arg_name')
    rep.check('R16.d', fkey(init, 'self.provides'), ok, 'provides is exactly (arg_name,)' if ok else 'provides is not (arg_name,)', ck, init.node)
    lst = cx.stmt(lcall)
    cvar = lst.targets[0].id if isinstance(lst, ast.Assign) and lst.value is lcall and len(lst.targets) == 1 \
        and isinstance(lst.targets[0], ast.Name) else None
    if cvar is None:
        raise AnalysisError('SignedCookieMiddleware.request: the loaded cookie is not bound to a local')
    ncalls = [c for c in walk_body(rq.node) if isinstance(c, ast.Call) and isinstance(c.func, ast.Name) and c.func.id == 'next']
    ok = False
    if len(ncalls) == 1 and not ncalls[0].args and len(ncalls[0].keywords) == 1 and ncalls[0].keywords[0].arg is None:
        kw0 = ncalls[0].keywords[0].value
        kwv = _follow(rq, kw0)
        # a named mapping must be used for nothing but this call (no entries added on the way)
        once = not isinstance(kw0, ast.Name) or sum(1 for x in walk_body(rq.node) if isinstance(x, ast.Name) and x.id == kw0.id) == 2
        ok = once and isinstance(kwv, ast.Dict) and len(kwv.keys) == 1 and norm(kwv.keys[0]) == 'self.arg_name' and norm(kwv.values[0]) == cvar
    rep.check('R16.d', fkey(rq, 'next(**{arg_name: cookie})'), ok, 'the loaded cookie is provided under self.arg_name' if ok else
              'next() is not called with {self.arg_name: <loaded cookie>}', ck, ncalls[0] if ncalls else rq.node)
    cfg = cfg_of(rq)
    nd = next_derived(rq)
    saves = [c for c in walk_body(rq.node) if isinstance(c, ast.Call) and call_tail(c) == 'save_cookie']
    nst = cx.stmt(ncalls[0]) if ncalls else None
    ok = bool(saves) and nst is not None and \
        all(norm(c.func.value) == cvar and norm(argn(c, 'response', 0)) in nd for c in saves) and \
        cfg.must_pass(cfg.nodes_of_all([cx.stmt(c) for c in saves]), cfg.nodes_of(nst), cfg.exit, normal_only=True)
    rep.check('R16.d', fkey(rq, 'save_cookie'), ok, 'cookie.save_cookie(<next() result>) runs on every normal path' if ok else
              'save_cookie on the next() result can be skipped', ck, saves[0] if saves else rq.node)
    ok = all(isinstance(r.value, ast.Name) and r.value.id in nd for r in returns_of(rq)) and returns_of(rq)
    rep.check('R16.d', fkey(rq, 'return'), bool(ok), 'returns the next() result' if ok else 'does not return the next() result', ck, rq.node)
    if ok and saves:
        # ... and the names still hold it where they are used: the response the cookie is saved on is the one returned
        from ..effects import Flow
        fl = Flow(rq)
        uses = [(argn(c, 'response', 0), cx.stmt(c)) for c in saves] + [(r.value, r) for r in returns_of(rq)]
        stale = [(e, at) for e, at in uses if not (isinstance(e, ast.Name) and _holds_next_result(fl, e.id, at, nd, 0))]
        rep.check('R16.d', fkey(rq, 'one response'), not stale, 'the response the cookie is saved on and the response returned are the next() result' if not stale else
                  '%s no longer holds the next() result at %s (re-bound in between): the Set-Cookie header is put on a response that is not the one returned'
                  % (norm(stale[0][0]), short(stale[0][1], 40)), ck, stale[0][1] if stale else rq.node)
    from ..effects import Flow as _Flow
    sfl = _Flow(rq)
    cnames = set(k for k in sfl.aliases(cvar) if '.' not in k)
    for s, absent_implied in _stamps(cx, rq, cvar):
        cs = conds(rq, s)
        excluded = _excluded_expiry(cx, rq, cs)
        numeric = all(any(_same_const(v, x) for x in excluded) for v in _markers(cx))
        # where the cookie was consulted for each path condition that says "no _expires entry"
        lookups = [x for x in (_absent_cond(cx, rq, sfl, t, p, cnames) for t, p in cs) if x is not None]
        absent = absent_implied or bool(lookups)
        ok = numeric and absent
        rep.check('R16.d', fkey(rq, '_expires stamp'), ok, 'expiry is stamped only when absent and expiry is numeric' if ok else
                  '_expires is stamped unconditionally / for non-numeric expiry: %s' % '; '.join(cond_texts(cs)), ck, s)
        if ok and not absent_implied:
            # ... and "absent" is what the cookie says when it is stamped: between consulting the cookie and the stamp neither the
            # endpoint runs nor anything else writes to the cookie (a test evaluated before next() knows nothing of a set_expires() there)
            changed = [_changed_since(cx, rq, cnames, sts, s) for sts in lookups]
            current = any(c is None for c in changed)
            rep.check('R16.d', fkey(rq, '_expires stamp: absence is current'), current,
                      'the cookie is consulted for _expires after the endpoint ran, nothing changes it before the stamp' if current else
                      'whether _expires is absent is decided before %s runs, which can change the cookie: an expiry set there (the endpoint\'s '
                      'cookie.set_expires(..)) is overwritten by the stamp -- the application\'s value no longer overrides the configured one'
                      % short(changed[0], 50), ck, s)
    ok = bool(saves) and all(_saved_under(cx, rq, c) == 'self.cookie_name' for c in saves)
    rep.check('R16.d', fkey(rq, 'save key'), ok, 'cookie is saved under self.cookie_name' if ok else 'cookie is not saved under self.cookie_name', ck, rq.node)
    for s, _ in _stamps(cx, rq, cvar):
        v = _stamp_value(cx, s)
        if v is None:
            continue
        pos, neg, other = _sum_terms(cx, rq, v, 1, 0)
        kinds = [k for k, _ in pos]
        if other:
            raise AnalysisError('SignedCookieMiddleware.request: the stamped expiry %s has a term that is not followed (%s)' % (short(v, 50), short(other[0], 40)))
        ok = not neg and sorted(kinds) == ['clock', 'expiry']
        why = 'the stamp is the clock plus the configured expiry' if ok else \
            ('%s is subtracted' % short(neg[0][1], 30) if neg else
             'no clock term: a number of seconds is stamped as an absolute time (long past: the cookie is discarded on every load)' if 'clock' not in kinds else
             'no expiry term: the cookie expires the moment it is issued' if 'expiry' not in kinds else 'clock / expiry counted more than once')
        rep.check('R16.d', fkey(rq, '_expires stamp value'), ok, why if ok else 'the stamped expiry %s is not "now + self.expiry": %s' % (short(v, 50), why), ck, s)
    _set_expires(rep, cx)
    rep.floor('R16.d', 9)


def _set_expires(rep, cx):
    """The application's side of the expiry: JSONCookie.set_expires(t) is how an endpoint ends or limits a session, and the stamp
    and save_cookie defer to what it leaves in the cookie.  For every *time* it can be given -- the NOW marker, zero ("expired at
    the epoch"), any other number -- each normal path records an expiry under the key the dependency's unserialize compares with
    the clock, unconditionally (an entry that is there already is replaced, and is not removed again), and what it records is its
    argument on some path (a constant stands in for the NOW marker only).  The function is evaluated over a finite domain of
    *kinds* of argument (None / 0 / a non-zero number / the marker): a guard on the truth value of the argument excludes 0, a
    legal time, along with None; what it does for None (withdraw the expiry, store it, refuse) is not judged."""
    from ..effects import Flow
    dep_keys = set(n.value for c in walk_body(cx.un.node) if isinstance(c, ast.Compare) and any(isinstance(o, (ast.Gt, ast.Lt, ast.GtE, ast.LtE)) for o in c.ops)
                   for x in ast.walk(c) if isinstance(x, ast.Subscript) for n in ast.walk(x.slice) if isinstance(n, ast.Constant) and isinstance(n.value, str))
    if EXPIRES not in dep_keys:
        raise AnalysisError('dependency unserialize: the key compared with the clock is %s, not %r (model out of date)' % (sorted(dep_keys), EXPIRES))
    se = cx.ck.func('JSONCookie.set_expires')
    ps = [p_ for p_ in se.params() if p_ != 'self']
    if 'self' not in se.params() or len(ps) != 1:
        raise AnalysisError('JSONCookie.set_expires: signature (self, <time>) not found')
    stores = [st for st, only_if_absent in _stamps(cx, se, 'self') if not only_if_absent]
    lost = _unrecorded_times(cx, se, ps[0], stores) if stores else []
    fl = Flow(se)
    given = False
    for st in stores:
        v = _stamp_value(cx, st)
        if v is None:
            raise AnalysisError('JSONCookie.set_expires: the value stored by %s is not followed' % short(st, 40))
        given = given or any(_is_param(fl, lf.value, lf.stmt, ps[0]) for lf in fl.leaves(v, st) if lf.stmt is not None)
    ok = bool(stores) and not lost and given
    rep.check('R16.d', fkey(se, 'records the expiry'), ok,
              'set_expires() stores the time it is given (the marker, 0 or any other number) under %r, the key the dependency compares with '
              'the clock, on every path' % EXPIRES if ok else
              ('set_expires() %s: the expiry an endpoint sets (set_expires(NOW) / set_expires(0) to end a session) is not in the signed data, the cookie '
               'stays valid and is presented again' % ('never stores anything under %r, the key the dependency compares with the clock' % EXPIRES if not stores else
                                                       'given %s can return without an %r entry of its own%s' % (' / '.join(k for k, _ in lost), EXPIRES,
                                                                                                               _guard_text(lost)) if lost else
                                                       'does not store the time it is given')), se.mod, stores[0] if stores else se.node)


ARG_NONE, ARG_ZERO, ARG_NUM, ARG_MARK, ARG_OTHER = 'None', '0', 'a non-zero number', 'the NOW marker', 'some other value'
TIME_ARGS = (ARG_ZERO, ARG_NUM, ARG_MARK)
REMOVERS = ('pop', 'clear', 'popitem')


def _guard_text(lost):
    """The last test on the way to the exit without a stored entry; for 0, what is wrong with testing the truth value of a time."""
    for kind, path in lost:
        if path:
            t, pol = path[-1]

            def truthiness(x):
                return isinstance(x, ast.Name) or (isinstance(x, ast.UnaryOp) and isinstance(x.op, ast.Not) and truthiness(x.operand)) or \
                    (isinstance(x, ast.BoolOp) and any(truthiness(y) for y in x.values))
            return ' (after: %s%s%s)' % ('' if pol else 'not ', short(t, 40),
                                         ' -- the truth value of a time is false for 0, "expired at the epoch", a legal time: "is None" is the test for "no time given"'
                                         if kind == ARG_ZERO and truthiness(t) else '')
    return ''


def _kind_of_const(cx, v):
    if v is None:
        return ARG_NONE
    if isinstance(v, (int, float)) and not isinstance(v, bool):
        return ARG_ZERO if v == 0 else ARG_NUM
    try:
        if v == cx.fold(ast.Name(id='NOW', ctx=ast.Load())):
            return ARG_MARK
    except Exception:
        pass
    return ARG_OTHER


def _truth3(cx, t, param, kind):
    """Three-valued outcome of test ``t`` when the local ``param`` holds a value of ``kind``: True / False / None (not decided).
    Only the *kind* is known, never the number: ``x > 5`` is undecided for a non-zero number, decided for 0."""
    if isinstance(t, ast.UnaryOp) and isinstance(t.op, ast.Not):
        r = _truth3(cx, t.operand, param, kind)
        return None if r is None else not r
    if isinstance(t, ast.BoolOp):
        rs = [_truth3(cx, x, param, kind) for x in t.values]
        if isinstance(t.op, ast.And):
            return False if False in rs else None if None in rs else True
        return True if True in rs else None if None in rs else False
    if isinstance(t, ast.Name) and t.id == param:
        return {ARG_NONE: False, ARG_ZERO: False, ARG_NUM: True, ARG_MARK: bool(cx.fold(ast.Name(id='NOW', ctx=ast.Load())))}.get(kind)
    if isinstance(t, ast.Call) and isinstance(t.func, ast.Name) and t.func.id == 'isinstance' and len(t.args) == 2 and norm(t.args[0]) == param:
        names = set(norm(x).rpartition('.')[2] for x in (t.args[1].elts if isinstance(t.args[1], ast.Tuple) else [t.args[1]]))
        if names <= {'int', 'float', 'Number', 'Real', 'Integral', 'str', 'bytes', 'type(None)', 'NoneType'} and kind != ARG_OTHER:
            numeric = bool(names & {'int', 'float', 'Number', 'Real', 'Integral'})
            return {ARG_NONE: bool(names & {'type(None)', 'NoneType'}), ARG_ZERO: numeric, ARG_NUM: numeric, ARG_MARK: 'str' in names}[kind]
        return None
    if isinstance(t, ast.Compare) and len(t.ops) == 1:
        op, l, r = t.ops[0], t.left, t.comparators[0]
        if norm(r) == param and norm(l) != param:
            flip = {ast.Lt: ast.Gt, ast.Gt: ast.Lt, ast.LtE: ast.GtE, ast.GtE: ast.LtE}
            l, r, op = r, l, flip.get(type(op), type(op))()
        if norm(l) != param or kind == ARG_OTHER:
            return None
        c = cx.fold(r)
        if c is _NOFOLD:
            return None
        if isinstance(op, (ast.In, ast.NotIn)):
            if not isinstance(c, (tuple, list, set, frozenset)):
                return None
            rs = [_eq3(cx, kind, x) for x in c]
            res = True if True in rs else None if None in rs else False
            return res if isinstance(op, ast.In) or res is None else not res
        if isinstance(op, (ast.Is, ast.IsNot)):
            res = (kind == ARG_NONE) if c is None else None
            return res if isinstance(op, ast.Is) or res is None else not res
        if isinstance(op, (ast.Eq, ast.NotEq)):
            res = _eq3(cx, kind, c)
            return res if isinstance(op, ast.Eq) or res is None else not res
        if isinstance(c, (int, float)) and not isinstance(c, bool) and kind == ARG_ZERO:
            return {ast.Lt: 0 < c, ast.LtE: 0 <= c, ast.Gt: 0 > c, ast.GtE: 0 >= c}.get(type(op))
    return None


def _eq3(cx, kind, c):
    """``x == c`` for a value x of the given kind and the constant c."""
    ck_ = _kind_of_const(cx, c)
    if kind in (ARG_NONE, ARG_ZERO, ARG_MARK):
        return ck_ == kind
    if kind == ARG_NUM:
        return None if ck_ == ARG_NUM else False
    return None


def _unrecorded_times(cx, fi, param, stores):
    """[(kind of argument, [guards taken])] for the times set_expires can be given and return -- on some normal path -- without
    an expiry entry stored by that call still in place.  Abstract evaluation over the CFG: a state is (kind the argument had on
    entry, kind the local holds now, is the entry stored, the tests that decided the path); a branch is taken when the test is
    true, or undecided, for the kind the local holds."""
    cfg = cfg_of(fi)
    store_ids = set(id(st) for st in stores)
    states = dict((n.id, set()) for n in cfg.nodes)
    todo = []
    for k in (ARG_NONE,) + TIME_ARGS:
        states[cfg.entry].add((k, k, False, ()))
    todo.append(cfg.entry)
    steps = 0
    while todo:
        steps += 1
        if steps > 20000:
            raise AnalysisError('%s: too many paths to evaluate' % fi.qualname)
        n = todo.pop()
        nd = cfg.nodes[n]
        out = set()
        for orig, cur, stored, why in states[n]:
            if nd.kind == 'branch':
                r = _truth3(cx, nd.test, param, cur)
                if r is not None and r is not nd.pol:
                    continue
                out.add((orig, cur, stored, (why + ((nd.test, nd.pol),))[-4:] if (nd.test, nd.pol) not in why else why))
            elif nd.kind == 'stmt' and nd.stmt is not None:
                st = nd.stmt
                if id(st) in store_ids:
                    stored = True
                elif _removes_expiry(cx, st):
                    stored = False
                tg = st.targets if isinstance(st, ast.Assign) else [st.target] if isinstance(st, (ast.AugAssign, ast.AnnAssign)) else []
                for t in tg:
                    if any(isinstance(x, ast.Name) and x.id == param for x in ast.walk(t)):
                        cur = _rebound_kind(cx, st, param, cur) if isinstance(st, ast.Assign) and isinstance(t, ast.Name) else ARG_OTHER
                out.add((orig, cur, stored, why))
            else:
                out.add((orig, cur, stored, why))
        for m in cfg.succ[n]:
            if (n, m) in cfg.exc_edges:
                continue
            new = out - states[m]
            if new:
                states[m] |= new
                todo.append(m)
    lost = {}
    for orig, cur, stored, why in states[cfg.exit]:
        if orig in TIME_ARGS and not stored:
            lost.setdefault(orig, list(why))
    return sorted(lost.items())


def _rebound_kind(cx, st, param, cur):
    """Kind of value the local holds after ``param = <value>``."""
    v = st.value
    if isinstance(v, ast.Name) and v.id == param:
        return cur
    if isinstance(v, ast.BoolOp) and len(v.values) == 2 and isinstance(v.values[0], ast.Name) and v.values[0].id == param:
        truth = _truth3(cx, v.values[0], param, cur)
        c = cx.fold(v.values[1])
        other = _kind_of_const(cx, c) if c is not _NOFOLD else ARG_OTHER
        if truth is None:
            return ARG_OTHER
        return (cur if truth else other) if isinstance(v.op, ast.Or) else (other if truth else cur)
    c = cx.fold(v)
    return _kind_of_const(cx, c) if c is not _NOFOLD else ARG_OTHER


def _removes_expiry(cx, st):
    """``self.pop('_expires', ..)`` / ``del self['_expires']`` / ``self.clear()``: the entry is gone again."""
    if isinstance(st, ast.Delete):
        return any(isinstance(t, ast.Subscript) and norm(t.value) == 'self' and cx.fold(t.slice) in (EXPIRES, _NOFOLD) for t in st.targets)
    for c in ast.walk(st):
        if isinstance(c, ast.Call) and isinstance(c.func, ast.Attribute) and norm(c.func.value) == 'self' and c.func.attr in REMOVERS:
            if c.func.attr != 'pop' or not c.args or cx.fold(c.args[0]) in (EXPIRES, _NOFOLD):
                return True
    return False


def _holds_next_result(fl, name, at, nd, depth):
    """Every definition of local ``name`` that reaches statement ``at`` binds the value of the next() call (directly, or by
    copying a local that holds it there)."""
    from .c15 import is_next_call
    ds = fl.reaching(name, at) if name in fl.defs else []
    if not ds or depth > 6:
        return False
    for d in ds:
        if d.kind != 'assign' or d.idx is not None:
            return False
        if is_next_call(d.value):
            continue
        if isinstance(d.value, ast.Name) and d.value.id in nd and _holds_next_result(fl, d.value.id, d.stmt, nd, depth + 1):
            continue
        return False
    return True


RANDOM_BYTES = ('os.urandom', 'secrets.token_bytes')
PER_CALL = 'per call'
MEMOISERS = ('lru_cache', 'cache', 'cached', 'memoize', 'memoized', 'memoise', 'cached_property', 'cachedproperty')
PARTIALS = ('functools.partial', 'partial')
KEY_ENCODERS = ('hexlify', 'b2a_hex', 'b64encode', 'urlsafe_b64encode', 'standard_b64encode', 'hex', 'bytes', 'bytearray')
SELF_TEXTS = ('self', 'cls', 'type(self)', 'self.__class__')


class _KeyFlow(object):
    """Where the value the constructor stores as ``self.secret_key`` comes from, and *when* each source is evaluated.

    ``atoms(mod, fi, e, env, when, seen)`` -> [('param', name, when, mod) | ('random', call, when, mod) | ('expr', text, when, mod)]
    for the values expression ``e`` may have, as far as ``or`` / conditional expressions / locals / parameters and their
    defaults / class attributes / module-level names / calls of functions, methods, lambdas and partials of the analysed
    tree go.  ``fi`` is the function the expression is written in (None: class or module level), ``env`` the bindings of
    that function's parameters ({name: (expr, mod, fi, env, when)}; None for the constructor itself, whose parameters are
    the configuration), ``when`` is PER_CALL or the text saying why the expression is evaluated only once."""

    def __init__(self, cx, mw, init):
        self.cx, self.repo, self.mw, self.init = cx, cx.repo, mw, init

    def atoms(self, mod, fi, e, env, when, seen):
        if len(seen) > 16:
            return [('expr', short(e, 40), when, mod)]
        rec = lambda x: self.atoms(mod, fi, x, env, when, seen)
        if isinstance(e, ast.BoolOp) and isinstance(e.op, ast.Or):
            return [a for v in e.values for a in rec(v)]
        if isinstance(e, ast.IfExp):
            return rec(e.body) + rec(e.orelse)
        if isinstance(e, ast.NamedExpr):
            return rec(e.value)
        if isinstance(e, ast.Name):
            return self._name(mod, fi, e, env, when, seen)
        if isinstance(e, ast.Attribute):
            return self._attribute(mod, fi, e, env, when, seen)
        if isinstance(e, ast.Call):
            return self._call(mod, fi, e, env, when, seen)
        return [('expr', short(e, 40), when, mod)]

    def constant(self, mod, fi, e, env, depth=0):
        """Folded value of an argument expression written in ``fi``: a parameter stands for the expression it is bound to
        (or its default), a once-bound local for its value, anything else is folded at module level."""
        if isinstance(e, ast.Name) and fi is None and env and e.id in env and depth < 6:
            x, xmod, xfi, xenv, _ = env[e.id]
            return self.constant(xmod, xfi, x, xenv, depth + 1)
        if isinstance(e, ast.Name) and fi is not None and depth < 6:
            if e.id in _all_params(fi.node) and not assigned_value(fi.node, e.id):
                if env is None:
                    return _NOFOLD
                if e.id in env:
                    x, xmod, xfi, xenv, _ = env[e.id]
                    return self.constant(xmod, xfi, x, xenv, depth + 1)
                return _NOFOLD
            defs = _value_defs(fi, e.id)
            if defs and len(defs) == 1:
                return self.constant(mod, fi, defs[0][1], env, depth + 1)
            if defs or defs is None:
                return _NOFOLD
        if isinstance(e, ast.Attribute) and depth < 6:
            # a class-level constant read through self / cls / the class name (never bound on the instance)
            ci = self._class_of(mod, fi, e.value)
            if ci is not None:
                owner, v = self.repo.class_attr(ci, e.attr)
                bound = any(isinstance(t, ast.Attribute) and t.attr == e.attr and isinstance(t.ctx, ast.Store)
                            for c in self.repo.mro(ci) if isinstance(c, ClassInfo) and not c.mod.external
                            for m in c.methods.values() for t in ast.walk(m.node))
                if owner is not None and isinstance(v, ast.expr) and not bound:
                    return self.constant(owner.mod, None, v, None, depth + 1)
            return _NOFOLD
        return self.repo.try_fold(e, mod, _NOFOLD)

    # -- names
    def _name(self, mod, fi, e, env, when, seen):
        key = (fi.key if fi is not None else mod.name, e.id, id(env))
        if key in seen:
            return []
        seen = seen + (key,)
        if fi is None and env and e.id in env:        # a parameter of a lambda
            x, xmod, xfi, xenv, xwhen = env[e.id]
            return self.atoms(xmod, xfi, x, xenv, xwhen, seen)
        if fi is not None:
            if e.id in _globals_of(fi):
                # a module-level variable the function (re)binds: one value for the process, whoever computed it
                once = 'kept in the module-level variable %s' % e.id
                out = [a for _, v, idx in assigned_value(fi.node, e.id) if idx is None and isinstance(v, ast.expr)
                       for a in self.atoms(mod, fi, v, env, once, seen)]
                return out + self._module_name(mod, e, once, seen)
            ps = _all_params(fi.node)
            defs = assigned_value(fi.node, e.id)
            out = []
            if e.id in ps:
                if env is None:
                    out.append(('param', e.id, when, mod))
                    d = _default_of(fi.node, e.id)
                    v = self.repo.try_fold(d, mod, _NOFOLD) if d is not None else None
                    if d is not None and (v is _NOFOLD or v):
                        # a default that is not None / '' / b'': what the parameter is when no key is configured
                        out += self.atoms(mod, None, d, None, _once_default(e.id, fi), seen)
                elif e.id in env:
                    x, xmod, xfi, xenv, xwhen = env[e.id]
                    out += self.atoms(xmod, xfi, x, xenv, xwhen, seen)
                else:
                    out.append(('expr', e.id, when, mod))
            for st, v, idx in defs:
                if idx is not None or not isinstance(st, (ast.Assign, ast.AnnAssign)):
                    out.append(('expr', short(st, 40), when, mod))
                else:
                    out += self.atoms(mod, fi, v, env, when, seen)
            if out or e.id in ps or defs:
                return out
        return self._module_name(mod, e, when, seen)

    def _module_name(self, mod, e, when, seen):
        kind, m, obj = self.repo.resolve(mod, e.id)
        if kind == 'value' and m is not None and obj:
            once = when if when != PER_CALL else 'the module-level value %s (evaluated once, when the module is imported)' % e.id
            out = []
            for v in obj:
                out += self.atoms(m, None, v, None, once, seen) if isinstance(v, ast.expr) else [('expr', e.id, once, m)]
            return out
        return [('expr', e.id, when, mod)]

    # -- attributes of the instance / the class
    def _class_of(self, mod, fi, recv):
        if norm(recv) in SELF_TEXTS:
            return fi.cls if fi is not None and fi.cls is not None else None
        if isinstance(recv, ast.Name):
            r = self.repo.resolve_class(mod, recv)
            return r if isinstance(r, ClassInfo) else None
        return None

    def _attribute(self, mod, fi, e, env, when, seen):
        ci = self._class_of(mod, fi, e.value)
        if ci is None:
            return [('expr', norm(e), when, mod)]
        key = (ci.key, e.attr)
        if key in seen:
            return []
        seen = seen + (key,)
        out = []
        classes = [c for c in self.repo.mro(ci) if isinstance(c, ClassInfo) and not c.mod.external]
        for c in classes:
            for m in c.methods.values():
                for st in stmts_of(m.node):
                    if not isinstance(st, (ast.Assign, ast.AnnAssign)) or st.value is None:
                        continue
                    for t in (st.targets if isinstance(st, ast.Assign) else [st.target]):
                        if not (isinstance(t, ast.Attribute) and t.attr == e.attr):
                            continue
                        rt = norm(t.value)
                        if rt == 'self' and 'classmethod' not in [norm(d) for d in m.node.decorator_list]:
                            if norm(e.value) == 'self' and m is fi:
                                out += self.atoms(mod, fi, st.value, env, when, seen)      # bound by this constructor run
                            else:
                                out.append(('expr', '%s bound in %s()' % (norm(t), m.name), when, m.mod))
                        elif rt in SELF_TEXTS or rt in [x.name for x in classes]:
                            once = when if when != PER_CALL else \
                                'kept in the class attribute %s.%s (assigned in %s(); one value for every instance)' % (c.name, e.attr, m.name)
                            out += self.atoms(m.mod, m, st.value, env if m is fi else {}, once, seen)
        owner, v = self.repo.class_attr(ci, e.attr)
        if owner is not None and isinstance(v, ast.expr) and not owner.mod.external:
            once = when if when != PER_CALL else \
                'the value of the class attribute %s.%s (evaluated once, when the class is defined; one value for every instance)' % (owner.name, e.attr)
            out += self.atoms(owner.mod, None, v, None, once, seen)
        return out or [('expr', norm(e), when, mod)]

    # -- calls
    def _is_random(self, mod, f):
        if norm(f) in RANDOM_BYTES:
            return True
        if isinstance(f, ast.Name):
            kind, m, obj = self.repo.resolve(mod, f.id)
            if kind == 'external' and obj in RANDOM_BYTES:
                return True
            if kind == 'value' and obj and len(obj) == 1 and isinstance(obj[0], ast.Attribute):
                return self._is_random(m, obj[0])
        if isinstance(f, ast.Attribute) and isinstance(f.value, ast.Name):
            kind, m, obj = self.repo.resolve(mod, f.value.id)
            if kind == 'module' and isinstance(obj, str) and '%s.%s' % (obj, f.attr) in RANDOM_BYTES:
                return True
        return False

    def _is_modref(self, mod, e):
        return isinstance(e, ast.Name) and self.repo.resolve(mod, e.id)[0] == 'module'

    def _call(self, mod, fi, e, env, when, seen):
        f = e.func
        if self._is_random(mod, f):
            return [('random', e, when, mod, (fi, env))]
        if any(isinstance(a, ast.Starred) for a in e.args) or any(k.arg is None for k in e.keywords):
            return [('expr', short(e, 40), when, mod)]
        tgt = self._callable(mod, fi, f, env, 0)
        if tgt is None:
            # a pure re-encoding of random bytes (hexlify, b64encode, .hex(), bytes()) is as random as its argument
            inner = None
            if call_tail(e) in KEY_ENCODERS and not e.keywords:
                if isinstance(f, ast.Attribute) and not e.args and not self._is_modref(mod, f.value):
                    inner = f.value
                elif len(e.args) == 1:
                    inner = e.args[0]
            if inner is not None:
                sub = self.atoms(mod, fi, inner, env, when, seen)
                if sub and all(a[0] == 'random' for a in sub):
                    return sub
            return [('expr', short(e, 40), when, mod)]
        kind, obj, omod, skip_first, per_instance = tgt
        if kind == 'partial':
            # functools.partial(os.urandom, 20): the partial object is built once, the random call runs when IT is called
            synth = ast.copy_location(ast.Call(func=obj.args[0], args=list(obj.args[1:]) + list(e.args),
                                               keywords=list(obj.keywords) + list(e.keywords)), obj)
            for n in ast.walk(synth):
                if not hasattr(n, 'lineno'):
                    ast.copy_location(n, obj)
            omod.parents.setdefault(synth, omod.parents.get(obj))
            return [('random', synth, when, omod, (None, None))]
        if kind == 'lambda':
            node, cfi, key, name = obj, None, 'lambda@%s:%s' % (omod.name, obj.lineno), 'the lambda'
            rets = [obj.body]
        else:
            node, cfi, key, name = obj.node, obj, obj.key, obj.name + '()'
            rets = [r.value for r in returns_of(obj)]
            memo = [d for d in obj.node.decorator_list if _dec_name(d) in MEMOISERS]
            odd = [d for d in obj.node.decorator_list if _dec_name(d) not in MEMOISERS + ('staticmethod', 'classmethod')]
            if odd:
                raise AnalysisError('SignedCookieMiddleware.__init__: the key comes from %s, whose decorator %s is not followed'
                                    % (name, norm(odd[0])))
            if memo and not per_instance and when == PER_CALL:
                if e.args or e.keywords:
                    raise AnalysisError('SignedCookieMiddleware.__init__: the key comes from the memoised %s called with arguments: '
                                        'how many distinct keys there are is not decided' % name)
                when = 'computed inside %s, which is memoised (@%s): its body runs once, every later call returns the first key' % (name, norm(memo[0]))
        if key in [k for k in seen if isinstance(k, str)]:
            return []
        seen = seen + (key,)
        cenv = _bind_call(node, e, skip_first, (mod, fi, env, when), omod, name)
        if cenv is None:
            return [('expr', short(e, 40), when, mod)]
        out = []
        for r in rets:
            out += self.atoms(omod, cfi, r, cenv, when, seen) if r is not None else [('expr', 'None', when, omod)]
        return out or [('expr', '%s returns nothing' % name, when, omod)]

    def _callable(self, mod, fi, f, env, depth):
        """('func', FuncInfo, mod, skip first parameter, keyed by the instance) | ('lambda', Lambda, mod, False, False) |
        ('partial', the partial(..) call, mod, False, False) for the callable expression ``f`` denotes; None: not followed."""
        if depth > 6:
            return None
        if isinstance(f, ast.Lambda):
            return ('lambda', f, mod, False, False)
        if isinstance(f, ast.Call) and norm(f.func) in PARTIALS and f.args and self._is_random(mod, f.args[0]) \
                and not any(isinstance(a, ast.Starred) for a in f.args) and not any(k.arg is None for k in f.keywords):
            return ('partial', f, mod, False, False)
        if isinstance(f, ast.Attribute):
            ci = self._class_of(mod, fi, f.value)
            m = self.repo.find_method(ci, f.attr) if ci is not None else None
            if m is None or m.mod.external:
                return None
            decs = [norm(d) for d in m.node.decorator_list]
            bound = norm(f.value) in SELF_TEXTS or 'classmethod' in decs
            return ('func', m, m.mod, bound and 'staticmethod' not in decs, norm(f.value) == 'self' and 'staticmethod' not in decs and 'classmethod' not in decs)
        if not isinstance(f, ast.Name):
            return None
        if fi is not None and f.id not in _globals_of(fi):
            if f.id in _all_params(fi.node):
                if assigned_value(fi.node, f.id):
                    return None
                if env is None:
                    d = _default_of(fi.node, f.id)        # the callable used when the configuration gives none
                    return self._callable(mod, None, d, None, depth + 1) if d is not None else None
                if f.id in env:
                    x, xmod, xfi, xenv, _ = env[f.id]
                    return self._callable(xmod, xfi, x, xenv, depth + 1)
                return None
            defs = assigned_value(fi.node, f.id)
            if defs:
                if len(defs) == 1 and defs[0][2] is None and isinstance(defs[0][0], (ast.Assign, ast.AnnAssign)):
                    return self._callable(mod, fi, defs[0][1], env, depth + 1)
                return None
        kind, m, obj = self.repo.resolve(mod, f.id)
        if kind == 'func' and m is not None and not m.external:
            return ('func', obj, m, False, False)
        if kind == 'value' and m is not None and obj and len(obj) == 1 and isinstance(obj[0], ast.expr):
            return self._callable(m, None, obj[0], None, depth + 1)
        return None


def _globals_of(fi):
    return set(n for st in stmts_of(fi.node) if isinstance(st, ast.Global) for n in st.names)


def _all_params(fnode):
    a = fnode.args
    return [x.arg for x in a.posonlyargs + a.args + a.kwonlyargs] + [x.arg for x in (a.vararg, a.kwarg) if x is not None]


def _default_of(fnode, name):
    a = fnode.args
    pos = a.posonlyargs + a.args
    for p_, d_ in list(zip(pos[len(pos) - len(a.defaults):], a.defaults)) + list(zip(a.kwonlyargs, a.kw_defaults)):
        if p_.arg == name:
            return d_
    return None


def _once_default(pname, fi_or_name):
    name = fi_or_name if isinstance(fi_or_name, str) else fi_or_name.name + '()'
    return 'the default-argument expression of parameter %s of %s (evaluated once, when the function is defined)' % (pname, name)


def _dec_name(d):
    if isinstance(d, ast.Call):
        d = d.func
    return d.attr if isinstance(d, ast.Attribute) else d.id if isinstance(d, ast.Name) else norm(d)


def _bind_call(fnode, call, skip_first, caller, omod, name):
    """{parameter: (expr, mod, fi, env, when)} for a call of the function / lambda ``fnode``: arguments are expressions of
    the caller (evaluated when the call is), parameters left out get their default expression, which belongs to the
    module level of the callee and was evaluated once.  None: the call does not bind the plain way."""
    a = fnode.args
    pos = [x.arg for x in a.posonlyargs + a.args]
    if skip_first:
        if not pos:
            return None
        pos = pos[1:]
    names = pos + [x.arg for x in a.kwonlyargs]
    if len(call.args) > len(pos):
        return None
    mod, fi, env, when = caller
    cenv = {}
    for p_, x in zip(pos, call.args):
        cenv[p_] = (x, mod, fi, env, when)
    for k in call.keywords:
        if k.arg not in names or k.arg in cenv:
            return None
        cenv[k.arg] = (k.value, mod, fi, env, when)
    for p_ in names:
        if p_ not in cenv:
            d = _default_of(fnode, p_)
            if d is None:
                return None
            cenv[p_] = (d, omod, None, None, when if when != PER_CALL else _once_default(p_, name))
    return cenv


def _only_arg_name(fi, e):
    """``(arg_name,)`` / ``[arg_name]`` / ``tuple([arg_name])`` -- the one provided name is the arg_name argument."""
    if isinstance(e, ast.Call) and isinstance(e.func, ast.Name) and e.func.id in ('tuple', 'list') and len(e.args) == 1 and not e.keywords:
        e = _follow(fi, e.args[0])
    return isinstance(e, (ast.Tuple, ast.List)) and len(e.elts) == 1 and norm(e.elts[0]) in ('arg_name', 'self.arg_name')


def _saved_under(cx, fi, call):
    """Text of the expression the cookie name (parameter ``key`` of SecureCookie.save_cookie) is given by in this call:
    a keyword / second positional argument, or the entry of the ``**mapping`` built in the function (dict literal,
    dict(...), item assignment, update -- later layers win).  None: the default name is used / not decidable."""
    direct = argn(call, 'key', 1)
    if direct is not None:
        return norm(direct)
    val = None
    for k in call.keywords:
        if k.arg is not None:
            continue
        src = k.value
        if isinstance(src, ast.Name):
            layers = layers_of_var(fi.node, src.id)
        else:
            layers = layers_of_expr(src)
        undecided = None
        for l in layers:
            if l.keys is not None:
                if 'key' in l.keys and not l.below:
                    val, undecided = norm(l.values['key']), None      # whatever was below it, this entry wins
                elif 'key' in l.keys and val is None and undecided is None:
                    val = norm(l.values['key'])
                continue
            # a layer of unknown content: an item assignment with a non-literal key is harmless if the key folds to
            # some other name; anything else may overwrite the entry
            nd_ = l.node
            if isinstance(nd_, ast.Assign):
                ks = [cx.fold(t.slice) for t in nd_.targets if isinstance(t, ast.Subscript)]
                if ks and all(isinstance(x, str) and x != 'key' for x in ks):
                    continue
            # a comprehension over a constant table of (keyword, attribute name) rows
            rows = _table_comprehension(cx, fi, nd_)
            if rows is not None:
                if 'key' in rows:
                    val, undecided = rows['key'], None
                continue
            # a mapping the middleware object keeps (``self.<attr>``, built once by the constructor), or a copy of it
            built = _constructor_built(cx, fi, nd_)
            if built is not None:
                for text, below in built:
                    if not below:
                        val, undecided = text, None
                    elif val is None and undecided is None:
                        val = text
                continue
            undecided = l.text       # only matters when no later layer sets the entry
        if undecided is not None:
            raise AnalysisError('save_cookie arguments: cannot decide the entries of %s' % undecided)
    return val


def _table_comprehension(cx, fi, e):
    """``{k: getattr(self, a) for k, a in TABLE}`` where TABLE folds (through module-level names and imports) to a sequence of
    (str, identifier) pairs  ->  {k: 'self.<a>'} (a later row wins, as in the comprehension); None for anything else."""
    if not isinstance(e, ast.DictComp) or len(e.generators) != 1:
        return None
    g = e.generators[0]
    if g.ifs or g.is_async or not (isinstance(g.target, ast.Tuple) and len(g.target.elts) == 2 and
                                   all(isinstance(x, ast.Name) for x in g.target.elts)):
        return None
    kn, an = [x.id for x in g.target.elts]
    v = e.value
    if kn == an or 'self' in (kn, an) or not (isinstance(e.key, ast.Name) and e.key.id == kn):
        return None
    if not (isinstance(v, ast.Call) and isinstance(v.func, ast.Name) and v.func.id == 'getattr' and len(v.args) == 2 and not v.keywords
            and norm(v.args[0]) == 'self' and isinstance(v.args[1], ast.Name) and v.args[1].id == an):
        return None
    if 'getattr' in fi.params() or 'getattr' in fi.mod.assigns or 'getattr' in fi.mod.imports or 'getattr' in fi.mod.functions:
        return None
    rows = cx.fold(g.iter)
    if not isinstance(rows, (tuple, list)) or not all(isinstance(r, (tuple, list)) and len(r) == 2 and isinstance(r[0], str) and
                                                      isinstance(r[1], str) and r[1].isidentifier() for r in rows):
        return None
    return dict((k, 'self.' + a) for k, a in rows)


def _constructor_built(cx, fi, src):
    """[(request-time text of the ``key`` entry, set-only-if-missing)] for the layers of a mapping kept in ``self.<attr>``
    that give a cookie name, when ``src`` is that attribute or a shallow copy of it and the attribute is bound and filled
    by the constructor only.  None: ``src`` is something else / the attribute's entries cannot be decided."""
    from ..effects import effects_in
    e = src
    for _ in range(4):
        if isinstance(e, ast.Name):
            e = _follow(fi, e)
        if isinstance(e, ast.Call) and isinstance(e.func, ast.Attribute) and e.func.attr == 'copy' and not e.args and not e.keywords:
            e = e.func.value
        elif isinstance(e, ast.Call) and norm(e.func) in ('copy.copy', 'copy.deepcopy', 'dict') and len(e.args) == 1 and not e.keywords:
            e = e.args[0]
    if not (isinstance(e, ast.Attribute) and norm(e.value) == 'self'):
        return None
    mw, var = cx.ck.cls('SignedCookieMiddleware'), norm(e)
    init = mw.methods.get('__init__')
    if init is None:
        return None
    for m in mw.methods.values():
        if m is not init and any(ef.chain and ef.chain[:2] == ['self', e.attr] for ef in effects_in(m.node)):
            return None         # also written outside the constructor
    try:
        layers = layers_of_var(init.node, var)
    except AnalysisError:
        return None
    if not layers or any(l.keys is None for l in layers):
        return None
    out = []
    for l in layers:
        if 'key' in l.keys:
            v = l.values.get('key')
            at = l.node if isinstance(l.node, ast.stmt) else cx.stmt(l.node)
            out.append((_request_time_text(mw, init, v, at) if v is not None and at is not None else None, l.below))
    return out


def _request_time_text(mw, init, v, at):
    """Text, valid in the other methods, of the value expression ``v`` has when the constructor evaluates it at statement
    ``at``: ``self.a`` itself, or the ``self.a`` the constructor stores the same local into -- provided self.a is bound by
    the constructor only, and not again after ``at``.  Anything else keeps its own (constructor-local) text."""
    from ..effects import effects_in, Flow
    fl = Flow(init)
    cfg = cfg_of(init)
    later = cfg.reach([m for n in cfg.nodes_of(at) for m in cfg.succ[n]])

    def stable(attr):
        for m in mw.methods.values():
            for ef in effects_in(m.node):
                if ef.chain and ef.chain[:2] == ['self', attr]:
                    st = ef.node if isinstance(ef.node, ast.stmt) else stmt_of(init.mod, ef.node)
                    if m is not init or len(ef.chain) > 2 or ef.kind != 'store' or set(cfg.nodes_of(st)) & later:
                        return False
        return True
    if isinstance(v, ast.Attribute) and norm(v.value) == 'self':
        return norm(v) if stable(v.attr) else norm(v) + ' (as it was during construction)'
    if isinstance(v, ast.Name):
        mine = set(id(d.stmt) for d in fl.reaching(v.id, at))
        for st in stmts_of(init.node):
            if isinstance(st, ast.Assign) and isinstance(st.value, ast.Name) and st.value.id == v.id and len(st.targets) == 1 \
                    and isinstance(st.targets[0], ast.Attribute) and norm(st.targets[0].value) == 'self':
                if set(id(d.stmt) for d in fl.reaching(v.id, st)) == mine and stable(st.targets[0].attr):
                    return norm(st.targets[0])
    return norm(v) + ' (constructor value)'


NUMERIC_WRAPPERS = ('int', 'float', 'round')
CLOCKS = ('time.time',)


def _stamp_value(cx, s):
    """The value expression a stamp statement stores under the expiry key; None when it has none of its own."""
    if isinstance(s, (ast.Assign, ast.AnnAssign)):
        return s.value
    c = s.value if isinstance(s, ast.Expr) else None
    if isinstance(c, ast.Call) and isinstance(c.func, ast.Attribute):
        if c.func.attr == 'setdefault' and len(c.args) == 2:
            return c.args[1]
        if c.func.attr == 'set_expires' and len(c.args) == 1 and not c.keywords:
            return c.args[0]
        if c.func.attr == 'update':
            for k in c.keywords:
                if k.arg == EXPIRES:
                    return k.value
            for a in c.args:
                if isinstance(a, ast.Dict):
                    for k, v in zip(a.keys, a.values):
                        if k is not None and cx.fold(k) == EXPIRES:
                            return v
    return None


def _is_clock(cx, f):
    if norm(f) in CLOCKS:
        return True
    if isinstance(f, ast.Name):
        kind, _, obj = cx.repo.resolve(cx.home(f), f.id)
        return kind == 'external' and obj in CLOCKS
    if isinstance(f, ast.Attribute) and isinstance(f.value, ast.Name):
        kind, _, obj = cx.repo.resolve(cx.home(f), f.value.id)
        return kind == 'module' and isinstance(obj, str) and '%s.%s' % (obj, f.attr) in CLOCKS
    return False


def _sum_terms(cx, fi, e, sign, depth):
    """(positive terms, negative terms, terms not followed) of a sum; a term is ('clock' | 'expiry', node)."""
    e = _follow(fi, e)
    if depth > 8:
        return [], [], [e]
    if isinstance(e, ast.BinOp) and isinstance(e.op, (ast.Add, ast.Sub)):
        p1, n1, o1 = _sum_terms(cx, fi, e.left, sign, depth + 1)
        p2, n2, o2 = _sum_terms(cx, fi, e.right, sign if isinstance(e.op, ast.Add) else -sign, depth + 1)
        return p1 + p2, n1 + n2, o1 + o2
    if isinstance(e, ast.UnaryOp) and isinstance(e.op, (ast.USub, ast.UAdd)):
        return _sum_terms(cx, fi, e.operand, -sign if isinstance(e.op, ast.USub) else sign, depth + 1)
    if isinstance(e, ast.Call) and isinstance(e.func, ast.Name) and e.func.id in NUMERIC_WRAPPERS and len(e.args) == 1 and not e.keywords:
        return _sum_terms(cx, fi, e.args[0], sign, depth + 1)
    kind = None
    if isinstance(e, ast.Call) and not e.args and not e.keywords and _is_clock(cx, e.func):
        kind = 'clock'
    elif norm(e) == 'self.expiry':
        kind = 'expiry'
    if kind is None:
        return [], [], [e]
    return ([(kind, e)], [], []) if sign > 0 else ([], [(kind, e)], [])


def _stamps(cx, fi, cvar):
    """Statements that write the expiry entry of the cookie: [(stmt, absence implied by the operation itself)]."""
    out = []
    for s in stmts_of(fi.node):
        if isinstance(s, (ast.Assign, ast.AugAssign, ast.AnnAssign)):
            tg = s.targets if isinstance(s, ast.Assign) else [s.target]
            for t in tg:
                if isinstance(t, ast.Subscript) and norm(t.value) == cvar and cx.fold(t.slice) == EXPIRES:
                    out.append((s, False))
        elif isinstance(s, ast.Expr) and isinstance(s.value, ast.Call) and isinstance(s.value.func, ast.Attribute) \
                and norm(s.value.func.value) == cvar:
            c = s.value
            if c.func.attr == 'setdefault' and c.args and cx.fold(c.args[0]) == EXPIRES:
                out.append((s, True))
            elif c.func.attr == 'set_expires':
                out.append((s, False))
            elif c.func.attr == 'update':
                keys = [k.arg for k in c.keywords]
                for a in c.args:
                    v = _follow(fi, a)
                    keys += [cx.fold(k) if k is not None else None for k in v.keys] if isinstance(v, ast.Dict) else [None]
                if EXPIRES in keys or None in keys:
                    out.append((s, False))
    return out


def _absent_cond(cx, fi, fl, t, pol, names):
    """Does the path condition (t, pol) say that the cookie (held in one of the locals ``names``) has no expiry entry?
    -> the statements in which the cookie is consulted for it, None when the condition says nothing of the kind.
      * ``'_expires' not in cookie`` holds / ``'_expires' in cookie`` does not hold (key through module constants);
      * ``cookie.get('_expires', S) is S`` holds / ``... is not S`` does not hold -- in place, or through a local every
        definition of which (reaching the test) is that lookup -- where S is a sentinel no cookie can contain: a module-level
        name bound once, to ``object()``.  (``None`` is not such a value: the application can store it.)"""
    if not (isinstance(t, ast.Compare) and len(t.ops) == 1):
        return None
    op, l, r = t.ops[0], t.left, t.comparators[0]
    if isinstance(op, (ast.In, ast.NotIn)):
        if not (any(norm(r) in (n, n + '.keys()') for n in names) and cx.fold(l) == EXPIRES):
            return None
        return [cx.stmt(t)] if isinstance(op, ast.NotIn) is pol else None
    if not isinstance(op, (ast.Is, ast.IsNot)) or isinstance(op, ast.Is) is not pol:
        return None
    at = cx.stmt(t)
    for probe, sent in ((l, r), (r, l)):
        if not _is_sentinel(cx, fi, fl, sent):
            continue
        if isinstance(probe, ast.Name) and probe.id in fl.defs and probe.id not in fi.params():
            ds = fl.reaching(probe.id, at)
            if ds and all(d.kind == 'assign' and d.idx is None and _expiry_lookup(cx, d.value, sent, names) for d in ds):
                return [d.stmt for d in ds]
        elif _expiry_lookup(cx, probe, sent, names):
            return [at]
    return None


def _expiry_lookup(cx, e, sent, names):
    """``cookie.get('_expires', S)`` with the sentinel named by ``sent`` as the default."""
    if not (isinstance(e, ast.Call) and isinstance(e.func, ast.Attribute) and e.func.attr == 'get' and norm(e.func.value) in names):
        return False
    if any(isinstance(a, ast.Starred) for a in e.args) or any(k.arg is None for k in e.keywords):
        return False
    k, d = argn(e, 'key', 0), argn(e, 'default', 1)
    return k is not None and cx.fold(k) == EXPIRES and isinstance(d, ast.Name) and d.id == sent.id


def _is_sentinel(cx, fi, fl, e):
    """A module-level name bound exactly once, to a new ``object()``, never re-bound by a function (``global``): an object
    that is in no cookie, so that getting it back from ``.get(key, S)`` means the key is absent."""
    if not isinstance(e, ast.Name) or e.id in fl.defs or e.id in _all_params(fi.node):
        return False
    kind, m, vals = cx.repo.resolve(fi.mod, e.id)
    if kind != 'value' or m is None or not isinstance(vals, list) or len(vals) != 1:
        return False
    v = vals[0]
    if not (isinstance(v, ast.Call) and isinstance(v.func, ast.Name) and v.func.id == 'object' and not v.args and not v.keywords):
        return False
    own = [k for k, x in m.assigns.items() if any(y is v for y in x)]
    return not any(isinstance(g, ast.Global) and set(own) & set(g.names) for g in ast.walk(m.tree))


def _pure_accessor(cx, name):
    """A method the cookie class defines in the analysed tree that writes nothing to the cookie (no store / delete / mutating call
    rooted at ``self``) and calls no other method of it."""
    from ..effects import effects_in
    m = cx.repo.find_method(cx.ck.cls('JSONCookie'), name)
    if m is None or m.mod.external or 'self' not in m.params():
        return False
    if any(ef.root == 'self' for ef in effects_in(m.node)):
        return False
    return not any(isinstance(c, ast.Call) and isinstance(c.func, ast.Attribute) and norm(c.func.value) == 'self' and c.func.attr not in READ_ONLY_METHODS
                   for c in walk_body(m.node))


READ_ONLY_METHODS = ('get', 'keys', 'values', 'items', 'copy', '__contains__', '__getitem__', '__len__', '__iter__')


def _changed_since(cx, fi, names, lookup_stmts, stamp, ignore=(), avoid=()):
    """The first thing on a path from one of ``lookup_stmts`` to the statement ``stamp`` (paths through the statements ``avoid``
    do not count) that can change the cookie's entries -- a call of next() (the endpoint), a write of the middleware to the cookie
    (other than the statements ``ignore``), a call the cookie is handed to or a method of it that is not a plain read; None
    when there is nothing of the kind."""
    cfg = cfg_of(fi)
    stamp_nodes = set(cfg.nodes_of(stamp))
    blocked = set(cfg.nodes_of_all(list(avoid))) - stamp_nodes
    srcs = [m for st in lookup_stmts for n in cfg.nodes_of(st) for m in cfg.succ[n]]
    region = (cfg.reach(srcs, avoid=blocked) & cfg.coreach(stamp_nodes, avoid=blocked)) - stamp_nodes
    writes = set(id(st) for _, st in _cookie_writes(fi, names)) - set(id(st) for st in ignore)
    for nid in sorted(region):
        nd = cfg.nodes[nid]
        if nd.kind not in ('stmt', 'head') or nd.stmt is None:
            continue
        st = nd.stmt
        if nd.kind == 'stmt' and any(st is x for x in ignore):
            continue
        if nd.kind == 'stmt' and id(st) in writes:
            return st
        hosts = [st] if nd.kind == 'stmt' else [x for x in ([getattr(st, f, None) for f in ('test', 'iter')] +
                                                             [it.context_expr for it in getattr(st, 'items', [])]) if isinstance(x, ast.AST)]
        for h in hosts:
            for c in ast.walk(h):
                if not isinstance(c, ast.Call):
                    continue
                if isinstance(c.func, ast.Name) and c.func.id == 'next':
                    return c
                if isinstance(c.func, ast.Attribute) and norm(c.func.value) in names:
                    if c.func.attr not in READ_ONLY_METHODS and not _pure_accessor(cx, c.func.attr):
                        return c
                    continue
                if any(isinstance(x, ast.Name) and x.id in names for a in list(c.args) + [k.value for k in c.keywords] for x in ast.walk(a)):
                    return c
    return None


def _markers(cx):
    """The non-numeric expiry settings: the module constants NEVER and SESSION."""
    out = []
    for nm in ('NEVER', 'SESSION'):
        v = cx.fold(ast.Name(id=nm, ctx=ast.Load()))
        if v is _NOFOLD:
            raise AnalysisError('module constant %s not found in %s' % (nm, COOKIE))
        out.append(v)
    return out


def _same_const(a, b):
    return type(a) is type(b) and a == b


def _truth_conds(e, pol):
    """The conditions that hold when ``e`` evaluates truthy (pol) / falsy (not pol): a conjunction that holds / a disjunction that
    fails is taken apart, ``not`` flips; anything else stays one condition."""
    if isinstance(e, ast.BoolOp) and isinstance(e.op, ast.And if pol else ast.Or):
        return [c for v in e.values for c in _truth_conds(v, pol)]
    if isinstance(e, ast.UnaryOp) and isinstance(e.op, ast.Not):
        return _truth_conds(e.operand, not pol)
    return [(e, pol)]


_GETTER_STMTS = (ast.If, ast.Return, ast.Assign, ast.Expr, ast.Pass)


def _readonly_getter(cx, fi, t):
    """``self.<p>`` read in a method of a class of the analysed tree, where the class resolves ``p`` (along its MRO) to a read-only
    ``@property`` whose getter only reads: branches, returns, local assignments; no call, no store other than to a local.  A
    property is a data descriptor, so no instance attribute shadows it.  -> the getter's FuncInfo, or None."""
    if not (isinstance(t, ast.Attribute) and isinstance(t.ctx, ast.Load) and isinstance(t.value, ast.Name) and t.value.id == 'self'):
        return None
    ci = fi.cls
    if ci is None or fi.params()[:1] != ['self'] or 'self' in fi.params()[1:] or \
            any(isinstance(x, ast.Name) and x.id == 'self' and not isinstance(x.ctx, ast.Load) for x in ast.walk(fi.node)):
        return None
    g = None
    for c in cx.repo.mro(ci):
        if not isinstance(c, ClassInfo):
            return None                     # a base we do not see may define the name
        if t.attr in c.class_attrs:
            return None
        if t.attr in c.methods:
            g = c.methods[t.attr]
            break
    if g is None or g.mod.external or g is fi:
        return None
    n = g.node
    if not isinstance(n, ast.FunctionDef) or len(n.decorator_list) != 1 or norm(n.decorator_list[0]) != 'property':
        return None
    if sum(1 for m in g.cls.node.body if isinstance(m, (ast.FunctionDef, ast.AsyncFunctionDef, ast.ClassDef)) and m.name == t.attr) != 1:
        return None
    gm = g.mod
    if 'property' in gm.assigns or 'property' in gm.imports or 'property' in gm.functions or 'property' in gm.classes:
        return None
    a = n.args
    if [x.arg for x in a.args] != ['self'] or a.posonlyargs or a.kwonlyargs or a.vararg or a.kwarg:
        return None
    for x in ast.walk(n):
        if x is n:
            continue
        if isinstance(x, ast.stmt) and not isinstance(x, _GETTER_STMTS):
            return None
        if isinstance(x, (ast.Call, ast.Await, ast.Yield, ast.YieldFrom, ast.NamedExpr, ast.Lambda, ast.ListComp, ast.SetComp, ast.DictComp,
                          ast.GeneratorExp)):
            return None
        if isinstance(x, ast.Expr) and not isinstance(x.value, ast.Constant):
            return None
        if isinstance(x, (ast.Attribute, ast.Subscript, ast.Starred, ast.Tuple, ast.List)) and not isinstance(x.ctx, ast.Load):
            return None
        if isinstance(x, ast.Name) and x.id == 'self' and not isinstance(x.ctx, ast.Load):
            return None
    return g


def _property_excludes(cx, fi, t, pol, depth=0):
    """The path condition ``self.<p>`` holds, ``p`` a read-only property (_readonly_getter): the getter returned a truthy value, so one of
    its returns that can yield one was reached -- under its own path conditions, with its expression true.  What *every* such return
    excludes for self.expiry is excluded here.  (The getter reads the same object at the moment of the test: nothing runs in between.)
    A condition that fails says less (the getter may also run off its end); nothing is concluded from it."""
    if not pol or depth > 2:
        return []
    g = _readonly_getter(cx, fi, t)
    if g is None:
        return []
    common = None
    for r in returns_of(g):
        if r.value is None or (isinstance(r.value, ast.Constant) and not r.value.value):
            continue                        # None / False / 0 / '': this return never makes the condition hold
        ex = _excluded_expiry(cx, g, list(conds(g, r)) + _truth_conds(r.value, True), depth + 1)
        common = ex if common is None else [v for v in common if any(_same_const(v, x) for x in ex)]
    return common or []


def _excluded_expiry(cx, fi, cs, _depth=0):
    """Constant values the path conditions say self.expiry is different from (``!=`` holds, ``==`` fails,
    ``not in (..)`` holds, ``in (..)`` fails; either operand order; a local naming self.expiry is followed; a read-only
    property of the class standing for such a test is read through its getter)."""
    out = []
    for t, pol in cs:
        if isinstance(t, ast.Attribute):
            out.extend(_property_excludes(cx, fi, t, pol, _depth))
            continue
        if not (isinstance(t, ast.Compare) and len(t.ops) == 1):
            continue
        op, l, r = t.ops[0], _follow(fi, t.left), _follow(fi, t.comparators[0])
        if isinstance(op, (ast.Eq, ast.NotEq)):
            if norm(r) == 'self.expiry':
                l, r = r, l
            if norm(l) != 'self.expiry' or (isinstance(op, ast.NotEq)) is not pol:
                continue
            v = cx.fold(r)
            if v is not _NOFOLD:
                out.append(v)
        elif isinstance(op, (ast.In, ast.NotIn)):
            if norm(l) != 'self.expiry' or (isinstance(op, ast.NotIn)) is not pol:
                continue
            v = cx.fold(r)
            if isinstance(v, (tuple, list, set, frozenset)):
                out.extend(v)
    return out


def _is_empty(e):
    if isinstance(e, (ast.Tuple, ast.List, ast.Dict)) and not (e.elts if not isinstance(e, ast.Dict) else e.keys):
        return True
    if isinstance(e, ast.Constant) and e.value is None:
        return True
    if isinstance(e, ast.Call) and isinstance(e.func, ast.Name) and e.func.id in ('dict', 'tuple', 'list') and not e.args and not e.keywords:
        return True
    return False


def _all_handlers(fi):
    return [h for t in stmts_of(fi.node) if isinstance(t, ast.Try) for h in t.handlers]


def _handlers_text(mod, fi, node):
    from ..cfg import enclosing_tries
    out = []
    for tr, part in enclosing_tries(mod, node, fi.node):
        if part == 'body':
            out.append(' / '.join('except ' + (norm(h.type) or '<bare>') for h in tr.handlers))
    return '; '.join(out)


# ---------------------------------------------------------------------------------------------- R16.e
# One middleware object serves every client.  What a request() activation learns from its request (the cookie, its
# expiry, the response) may only be put into objects of that activation; a write into the middleware object, its class,
# a module-level container, or anything reached through them is state the next client's request starts from.
FRESH, ELEMS, SHARED = 0, 1, 2          # the object itself is new / new, but holds shared objects / outlives the call
ELEMENT_OF = ('get', 'setdefault', 'pop', 'popitem', '__getitem__')
VIEW_OF = ('values', 'items', 'keys', 'copy', '__iter__')
IDEMPOTENT_CALLS = ('update', 'setdefault', 'add', 'discard', 'clear')
SHALLOW_COPIES = ('copy.copy', 'dict', 'list', 'set', 'tuple', 'frozenset', 'sorted', 'reversed', 'iter', 'enumerate', 'OrderedDict')


class _Activation(object):
    """One method of the middleware class: which of its expressions denote objects that outlive the call, and which
    values depend on the request being served."""

    def __init__(self, cx, fi, shared_params=(), stack=()):
        from ..effects import Flow
        self.cx, self.fi, self.fl = cx, fi, Flow(fi)
        self.params = set(fi.params())
        a = fi.node.args
        for x in (a.vararg, a.kwarg):
            if x is not None:
                self.params.add(x.arg)
        self.shared_params = set(shared_params) | ({'self', 'cls'} & self.params)
        pos = a.posonlyargs + a.args
        for p_, d_ in list(zip(pos[len(pos) - len(a.defaults):], a.defaults)) + [(p_, d_) for p_, d_ in zip(a.kwonlyargs, a.kw_defaults) if d_ is not None]:
            if isinstance(d_, (ast.Dict, ast.List, ast.Set, ast.Call, ast.ListComp, ast.DictComp, ast.SetComp)):
                self.shared_params.add(p_.arg)      # a mutable default is one object for all calls
        self.stack = stack + (fi.key,)
        self.globals_written = set()
        for st in stmts_of(fi.node):
            if isinstance(st, (ast.Global, ast.Nonlocal)):
                self.globals_written.update(st.names)

    # -- does the expression denote an object other activations see?
    def level(self, e, at, depth=0):
        if depth > 14 or e is None:
            return FRESH
        rec = lambda x, at_=at: self.level(x, at_, depth + 1)
        if isinstance(e, ast.Name):
            if e.id in self.shared_params or e.id in self.globals_written:
                return SHARED
            ds = self.fl.reaching(e.id, at) if e.id in self.fl.defs else []
            if e.id in self.params and not [d for d in ds if d.kind != 'entry']:
                return FRESH            # an argument of this request
            if e.id not in self.fl.defs:
                kind = self.cx.repo.resolve(self.fi.mod, e.id)[0] if e.id not in self.params else 'param'
                return SHARED if kind in ('value', 'class') else FRESH
            lv = FRESH
            for d in ds:
                if d.kind == 'assign':
                    v, vat = self.fl.unpacked(d)
                    if v is not None:
                        lv = max(lv, self.level(v, vat, depth + 1))
                elif d.kind == 'iter':
                    lv = max(lv, SHARED if self.level(d.value, d.stmt, depth + 1) >= ELEMS else FRESH)
                elif d.kind == 'with':
                    lv = max(lv, self.level(d.value, d.stmt, depth + 1))
            return lv
        if isinstance(e, (ast.Attribute, ast.Subscript)):
            return SHARED if rec(e.value) >= ELEMS else FRESH
        if isinstance(e, ast.Starred):
            return rec(e.value)
        if isinstance(e, ast.NamedExpr):
            return rec(e.value)
        if isinstance(e, ast.BoolOp):
            return max(rec(v) for v in e.values)
        if isinstance(e, ast.IfExp):
            return max(rec(e.body), rec(e.orelse))
        if isinstance(e, (ast.List, ast.Tuple, ast.Set)):
            return ELEMS if any(rec(x) == SHARED for x in e.elts) else FRESH
        if isinstance(e, ast.Dict):
            return ELEMS if any((rec(v) == SHARED) if k is not None else (rec(v) >= ELEMS) for k, v in zip(e.keys, e.values)) else FRESH
        if isinstance(e, ast.Call):
            f = e.func
            fn = norm(f)
            if fn == 'copy.deepcopy' or fn == 'deepcopy':
                return FRESH
            if fn == 'type' and len(e.args) == 1:
                return SHARED if rec(e.args[0]) == SHARED else FRESH
            if fn in ('getattr', 'next') and e.args:
                return SHARED if rec(e.args[0]) >= ELEMS else FRESH
            if fn in SHALLOW_COPIES or fn == 'copy':
                held = any(rec(x) >= ELEMS for x in e.args) or any((rec(k.value) == SHARED) if k.arg is not None else (rec(k.value) >= ELEMS)
                                                                   for k in e.keywords)
                return ELEMS if held else FRESH
            if isinstance(f, ast.Attribute) and f.attr in ELEMENT_OF:
                return SHARED if rec(f.value) >= ELEMS else FRESH
            if isinstance(f, ast.Attribute) and f.attr in VIEW_OF:
                return ELEMS if rec(f.value) >= ELEMS else FRESH
            callee = self._callee(e)
            if callee is not None and callee.key not in self.stack and len(self.stack) < 3:
                from ..effects import returns_fresh
                if returns_fresh(self.cx.repo, callee):
                    return FRESH
                sub = _Activation(self.cx, callee, self._shared_args(callee, e, at), self.stack)
                return max([sub.level(r.value, r) for r in returns_of(callee) if r.value is not None] or [FRESH])
            return FRESH
        return FRESH

    def _callee(self, call):
        from ..effects import callee_of
        # (a method the class inherits from a mixin / a helper imported from another module of the package is followed like one
        #  written next to it: where the definition lives does not change what it writes)
        c = callee_of(self.cx.repo, self.fi, call)
        return c if c is not None and not c.mod.external else None

    def _shared_args(self, callee, call, at):
        """Parameters of ``callee`` that receive an object outliving this activation."""
        ps = [p for p in callee.params() if p not in ('self', 'cls')]
        out = set()
        for i, a in enumerate(call.args):
            if not isinstance(a, ast.Starred) and i < len(ps) and self.level(a, at) == SHARED:
                out.add(ps[i])
        for k in call.keywords:
            if k.arg in ps and self.level(k.value, at) == SHARED:
                out.add(k.arg)
        return out

    # -- does the value depend on the request being served?
    def per_request(self, e, at, seen=None):
        seen = set() if seen is None else seen
        if e is None:
            return False
        for n in ast.walk(e):
            if not (isinstance(n, ast.Name) and isinstance(n.ctx, ast.Load)):
                continue
            if n.id in self.params:
                if n.id not in self.shared_params:
                    return True
                continue
            for d in (self.fl.reaching(n.id, at) if n.id in self.fl.defs else []):
                if d.stmt is None or (n.id, id(d.stmt)) in seen:
                    continue
                seen.add((n.id, id(d.stmt)))
                src = d.value if d.value is not None else getattr(d.stmt, 'value', None)
                if self.per_request(src, d.stmt, seen) or any(self.per_request(t, d.stmt, seen) for t, _ in self.fl.conds(d.stmt)):
                    return True
        return False

    # -- the writes of this activation into objects that outlive it: [(node, object written, why it is a leak | None, activation)]
    def shared_writes(self):
        from ..effects import effects_in
        mod, out = self.fi.mod, []
        for ef in effects_in(self.fi.node):
            at = ef.node if isinstance(ef.node, ast.stmt) else stmt_of(mod, ef.node)
            if ef.kind == 'mutcall' or ef.method in ('setattr', 'delattr'):
                obj = ef.target
            else:
                obj = ef.target.value
            if self.level(obj, at) != SHARED:
                continue
            if ef.kind == 'mutcall':
                operands = list(ef.node.args) + [k.value for k in ef.node.keywords]
                idem = ef.method in IDEMPOTENT_CALLS
            elif ef.method in ('setattr', 'delattr'):
                operands, idem = list(ef.node.args[1:]), ef.method == 'setattr'
            else:
                operands = [getattr(ef.node, 'value', None) if not isinstance(ef.node, (ast.For, ast.AsyncFor)) else ef.node.iter]
                if isinstance(ef.target, ast.Subscript):
                    operands.append(ef.target.slice)
                idem = isinstance(ef.node, (ast.Assign, ast.AnnAssign))
            out.append((ef.node, obj, self._leak(operands, at, idem), self))
        for st in stmts_of(self.fi.node):
            tg = st.targets if isinstance(st, ast.Assign) else [st.target] if isinstance(st, (ast.AugAssign, ast.AnnAssign)) else []
            for t in tg:
                if isinstance(t, ast.Name) and t.id in self.globals_written:
                    out.append((st, t, self._leak([st.value], st, isinstance(st, ast.Assign)), self))
        # methods of the class the front-end did not dissolve into this one: their writes are this activation's writes
        for c in walk_body(self.fi.node):
            callee = self._callee(c) if isinstance(c, ast.Call) else None
            if callee is None or callee.key in self.stack or len(self.stack) >= 3:
                continue
            sub = _Activation(self.cx, callee, self._shared_args(callee, c, stmt_of(mod, c)), self.stack)
            out.extend(sub.shared_writes())
        return out

    def _leak(self, operands, at, idempotent):
        if any(self.per_request(o, at) for o in operands if o is not None):
            return 'a value of the request being served is stored'
        if any(self.per_request(t, at) for t, _ in self.fl.conds(at)):
            return 'whether it happens depends on the request being served'
        if not idempotent:
            return 'it accumulates over the requests served'
        return None


def rule_e(rep, cx):
    ck, rq = cx.ck, cx.rq
    rep.rule('R16.e', 'request() keeps what it learns from one request out of the objects that outlive it (middleware, class, module)')
    act = _Activation(cx, rq)
    writes = act.shared_writes()
    seen = set()
    for node, obj, leak, where in writes:
        key = fkey(rq, 'shared write: %s' % norm(node))
        if key in seen:
            continue
        seen.add(key)
        what = _shared_name(where, obj, node)
        if where is not act:
            what += ' in %s()' % where.fi.name
        rep.check('R16.e', key, leak is None,
                  'write to %s does not depend on the request (a cache of configuration)' % what if leak is None else
                  '%s writes to %s, an object every later request of every client shares, and %s: one client\'s cookie state '
                  '(e.g. the expiry set by set_expires()) is applied to the cookies of all clients served afterwards'
                  % (short(node, 70), what, leak), where.fi.mod, node)
    saves = [c for c in walk_body(rq.node) if isinstance(c, ast.Call) and call_tail(c) == 'save_cookie']
    if not any(w[2] is not None for w in writes):
        rep.ok('R16.e', fkey(rq, 'per-request state'),
               'every value derived from the request is stored in objects of this call only (%d write(s) to longer-lived objects, none '
               'request-dependent); the options handed to save_cookie are built per call or only read' % len(writes), ck, saves[0] if saves else rq.node)


def _shared_name(act, obj, node):
    """Text naming the long-lived object a write goes to: the expression itself, and what a local alias stands for."""
    txt = norm(obj)
    if isinstance(obj, ast.Name) and obj.id not in act.shared_params:
        at = node if isinstance(node, ast.stmt) else stmt_of(act.fi.mod, node)
        src = [norm(lf.value) for lf in act.fl.leaves(obj, at) if not lf.opaque and act.level(lf.value, lf.stmt) == SHARED]
        if src:
            return '%s (= %s, not a copy)' % (txt, ' / '.join(sorted(set(src))))
    return txt


# ---------------------------------------------------------------------------------------------- R16.g
# The cookie object the endpoint gets "contains exactly the data the application stored": between the dependency's
# verification and the endpoint, and between the endpoint and save_cookie, clastic handles ONE object and adds nothing of
# its own to it except the expiry stamp -- and what it stamps (and hands to save_cookie as the expiry, which the dependency
# signs into the cookie as _expires) is the server's: configuration and clock, never something read from the request.
def _derives(fl, e, at, sources, boundary, skip_stmts, seen=None):
    """Does the value of ``e`` (evaluated at statement ``at``) derive from one of the parameters ``sources`` other than through
    the locals in ``boundary`` / the definitions in ``skip_stmts`` (the verified cookie)?"""
    seen = set() if seen is None else seen
    if e is None:
        return False
    for n in ast.walk(e):
        if not (isinstance(n, ast.Name) and isinstance(n.ctx, ast.Load)) or n.id in boundary:
            continue
        ds = fl.reaching(n.id, at) if n.id in fl.defs else None
        if n.id in sources and (ds is None or any(d.kind == 'entry' for d in ds)):
            return True
        for d in ds or []:
            if d.stmt is None or any(d.stmt is x for x in skip_stmts) or (n.id, id(d.stmt)) in seen:
                continue
            seen.add((n.id, id(d.stmt)))
            src = d.value if d.value is not None else getattr(d.stmt, 'value', None)
            if _derives(fl, src, d.stmt, sources, boundary, skip_stmts, seen):
                return True
    return False


def _cookie_writes(fi, names):
    """Effects of ``fi`` that change the contents of the mapping held in one of the locals ``names``: [(effect, statement)]."""
    from ..effects import effects_in
    out = []
    for ef in effects_in(fi.node):
        if ef.root not in names:
            continue
        if (ef.kind == 'mutcall' and isinstance(ef.target, ast.Name)) or (ef.kind in ('store', 'delete') and isinstance(ef.target, ast.Subscript)
                                                                        and isinstance(ef.target.value, ast.Name)):
            out.append((ef, ef.node if isinstance(ef.node, ast.stmt) else stmt_of(fi.mod, ef.node)))
        elif isinstance(ef.node, ast.Call) and isinstance(ef.node.func, ast.Attribute) and ef.node.func.attr == 'set_expires':
            out.append((ef, stmt_of(fi.mod, ef.node)))
    for c in walk_body(fi.node):
        if isinstance(c, ast.Call) and isinstance(c.func, ast.Attribute) and c.func.attr == 'set_expires' and norm(c.func.value) in names \
                and not any(c is ef.node for ef, _ in out):
            from ..effects import Effect
            out.append((Effect('mutcall', c.func.value, c, 'set_expires'), stmt_of(fi.mod, c)))
    return out


def rule_g(rep, cx):
    from ..effects import Flow
    ck, ju, rq = cx.ck, cx.ju, cx.rq
    rep.rule('R16.g', 'one cookie object, unchanged: unserialize returns the verified cookie or an empty one and does not write to it; request() '
                      'provides and saves the object load_cookie returned, stores nothing in it but the expiry stamp after the endpoint, and takes '
                      'neither the stamp nor the signed expiry from the request; the expiry it has save_cookie sign is the cookie\'s own entry')
    # -- JSONCookie.unserialize
    fl = Flow(ju)
    sc = cx.sup_calls[0]
    returned = set()
    for r in returns_of(ju):
        vals = fl.leaves(r.value, r) if r.value is not None else []
        for n in ast.walk(r.value) if r.value is not None else []:
            if isinstance(n, ast.Name):
                returned.add(n.id)
        bad = [lf.value for lf in vals if not (lf.value is sc or _empty_cookie(cx, lf.value))]
        ok = bool(vals) and not bad
        rep.check('R16.g', fkey(ju, 'returns: %s' % norm(r.value)), ok,
                  'returns the cookie the dependency verified, or an empty one' if ok else
                  'unserialize can return %s: a cookie whose contents did not pass the dependency\'s MAC / expiry check (or no cookie at all)'
                  % (short(bad[0], 50) if bad else 'None'), ck, r)
    returned -= set(ju.params())
    for ef, st in _cookie_writes(ju, returned):
        rep.fail('R16.g', fkey(ju, 'writes: %s' % norm(ef.node)), '%s changes the cookie after verification: what is presented is no longer exactly '
                 'what was signed' % short(ef.node, 60), ck, ef.node)
    # -- SignedCookieMiddleware.request
    fl = Flow(rq)
    cfg = cfg_of(rq)
    lcall = cx.load_calls[0]
    lst = cx.stmt(lcall)
    cvar = lst.targets[0].id if isinstance(lst, ast.Assign) and lst.value is lcall and len(lst.targets) == 1 and isinstance(lst.targets[0], ast.Name) else None
    ncalls = [c for c in walk_body(rq.node) if isinstance(c, ast.Call) and isinstance(c.func, ast.Name) and c.func.id == 'next']
    saves = [c for c in walk_body(rq.node) if isinstance(c, ast.Call) and call_tail(c) == 'save_cookie']
    if cvar is None or len(ncalls) != 1 or not saves:
        raise AnalysisError('SignedCookieMiddleware.request: load / next / save_cookie not found in the expected roles')
    nst = cx.stmt(ncalls[0])
    names = set(k for k in fl.aliases(cvar) if '.' not in k)
    for what, c in [('provided', ncalls[0])] + [('saved', c) for c in saves]:
        at = cx.stmt(c)
        used = [n.id for n in ast.walk(c) if isinstance(n, ast.Name) and n.id in names] or [cvar]
        ds = [d for nm in used for d in fl.reaching(nm, at)]
        # (or, where the middleware itself guards the load: the empty cookie of the configured type, with the middleware's key)
        ok = bool(ds) and all(d.kind == 'assign' and (d.stmt is lst or (isinstance(d.value, ast.Name) and d.value.id in names) or
                                                      (_empty_cookie(cx, d.value, MW_COOKIE_CTORS) and norm(argn(d.value, 'secret_key', 1)) == 'self.secret_key'))
                              for d in ds)
        rep.check('R16.g', fkey(rq, '%s object' % what), ok, 'the cookie %s is the object load_cookie returned' % what if ok else
                  'the cookie %s can be another object than the one load_cookie returned (re-bound: %s)'
                  % (what, '; '.join(short(d.stmt, 40) if d.stmt is not None else 'unbound' for d in ds if d.stmt is not lst)), ck, c)
    stamps = [s_ for s_, _ in _stamps(cx, rq, cvar)]
    reqs = set(n.id for n in ast.walk(argn(lcall, 'request', 0) or ast.Constant(value=None)) if isinstance(n, ast.Name)) - {'self'}
    before = cfg.coreach(cfg.nodes_of(nst))
    n_ok = 0
    for ef, st in _cookie_writes(rq, names):
        key = fkey(rq, 'cookie write: %s' % norm(ef.node))
        if not any(st is x for x in stamps):
            rep.fail('R16.g', key, 'the middleware itself stores data in the cookie (%s): the endpoint / the client gets contents the application did not store'
                     % short(ef.node, 60), ck, ef.node)
        elif set(cfg.nodes_of(st)) & before:
            rep.fail('R16.g', key, '%s can run before the endpoint: the cookie provided is not exactly what the client sent' % short(ef.node, 60), ck, ef.node)
        else:
            ops = [getattr(ef.node, 'value', None)] if not isinstance(ef.node, ast.Call) else list(ef.node.args) + [k.value for k in ef.node.keywords]
            t = [o for o in ops if o is not None and _derives(fl, o, st, reqs, names, [lst])]
            rep.check('R16.g', key, not t, 'the expiry stamp is computed from configuration and clock' if not t else
                      'the expiry stamped into the signed cookie is taken from the request (%s): the client chooses how long its cookie stays valid'
                      % short(t[0], 50), ck, ef.node)
            n_ok += 1
    for c in saves:
        at = cx.stmt(c)
        srcs = []
        for nm, pos in (('expires', 2), ('session_expires', 3)):
            a = argn(c, nm, pos)
            if a is not None:
                srcs.append((nm, a, at))
        for k in c.keywords:
            if k.arg is not None:
                continue
            layers = layers_of_var(rq.node, k.value.id) if isinstance(k.value, ast.Name) else layers_of_expr(k.value)
            for l in layers:
                lat = l.node if isinstance(l.node, ast.stmt) else cx.stmt(l.node)
                if l.keys is not None:
                    srcs += [(nm, l.values[nm], lat) for nm in ('expires', 'session_expires') if l.values.get(nm) is not None]
                else:
                    srcs.append(('**', l.node.value if isinstance(l.node, ast.Assign) else l.node, lat))
        t = [(nm, e) for nm, e, lat in srcs if isinstance(e, ast.AST) and lat is not None and _derives(fl, e, lat, reqs, names, [lst])]
        rep.check('R16.g', fkey(rq, 'signed expiry'), not t, 'the expiry handed to save_cookie (signed into the cookie as _expires) comes from the cookie / the configuration'
                  if not t else 'save_cookie(%s=%s): the expiry the dependency signs into the cookie is taken from the request'
                  % (t[0][0], short(t[0][1], 40)), ck, c)
        # ... and it is the cookie's own entry: the dependency's serialize(expires) overwrites cookie['_expires'] with whatever it is
        # given, so anything else replaces an expiry the application set (set_expires(NOW) to end a session) by the middleware's own
        foreign, kinds = [], []
        jc = ck.cls('JSONCookie')
        for nm, e, lat in srcs:
            if nm == '**' or not isinstance(e, ast.AST) or lat is None:
                continue
            for own, kind, node, read_at in _expiry_values(cx, jc, rq, fl, e, lat, names, list(conds(rq, lat)), 0):
                kinds.append((nm, kind, node))
                if not own:
                    foreign.append((nm, node, None))
                elif read_at is not None:
                    # the entry as it is when the cookie is saved: read after the endpoint ran (the stamp only fills an entry that is absent)
                    others = [d.stmt for d in fl.defs.get(e.id, []) if d.stmt is not None and d.stmt is not read_at] if isinstance(e, ast.Name) else []
                    ch = _changed_since(cx, rq, names, [read_at], at, ignore=stamps, avoid=others)
                    if ch is not None:
                        foreign.append((nm, node, ch))
        rep.check('R16.g', fkey(rq, 'signed expiry is the cookie\'s own'), not foreign,
                  'what save_cookie is told to sign as the expiry is the _expires entry the cookie holds (stamped or set by the application), or nothing'
                  if not foreign else
                  'save_cookie(%s=%s): the dependency stores this into cookie[\'_expires\'] before signing, whatever the entry holds%s -- an expiry the '
                  'application set in the endpoint (set_expires(NOW) to invalidate the cookie) is replaced and the data stays valid'
                  % (foreign[0][0], short(foreign[0][1], 40), '' if foreign[0][2] is None else
                     ', and the entry was read before %s ran' % short(foreign[0][2], 40)), ck, c)
        # ... in a kind of time value the dependency reads as the instant that was meant: an epoch number is zone-free, an aware
        # datetime says its zone, a naive datetime is read in ONE of two ways by the code that converts it -- which one is a fact of
        # the pinned dependency (_date_to_unix), read from its source
        naive_is = _naive_reading(cx)
        undecided = [(nm, n) for nm, k, n in kinds if k == T_UNKNOWN]
        if undecided and not foreign:
            raise AnalysisError('SignedCookieMiddleware.request: what kind of time value save_cookie gets as %s (%s) is not followed'
                                % (undecided[0][0], short(undecided[0][1], 50)))
        wrong = [(nm, k, n) for nm, k, n in kinds if k in (T_NAIVE_LOCAL, T_NAIVE_UTC, T_MISREAD) and k != naive_is]
        rep.check('R16.g', fkey(rq, 'signed expiry: kind of time value'), not wrong,
                  'the expiry handed to the dependency is %s' % (' / '.join(sorted(set(k for _, k, _ in kinds))) or 'nothing') if not wrong else
                  'save_cookie(%s=..) is given %s, which is %s; %s stores the result into '
                  'cookie[\'_expires\'] before signing: the signed expiry is off by the server\'s UTC offset -- east of UTC the data is still presented '
                  'hours after it expired (and an application\'s set_expires(t) is shifted the same way)'
                  % (wrong[0][0], short(wrong[0][2], 50), wrong[0][1],
                     'the dependency converts it back (_date_to_unix) and' if wrong[0][1] == T_MISREAD else
                     'the dependency reads a naive datetime as %s (_date_to_unix) and' % ('UTC wall-clock time' if naive_is == T_NAIVE_UTC else 'local wall-clock time')),
                  cx.home(wrong[0][2]) if wrong else ck, wrong[0][2] if wrong else c)
    rep.floor('R16.g', 4)


def _expiry_read(cx, x, names):
    """``cookie['_expires']`` / ``cookie.get('_expires', ..)``."""
    if isinstance(x, ast.Subscript):
        return norm(x.value) in names and cx.fold(x.slice) == EXPIRES
    return isinstance(x, ast.Call) and isinstance(x.func, ast.Attribute) and x.func.attr == 'get' and norm(x.func.value) in names and \
        bool(x.args) and cx.fold(x.args[0]) == EXPIRES


# Kinds of time value (a finite domain: which *kind* an expression denotes, never which instant)
T_NONE, T_EPOCH, T_AWARE, T_NAIVE_UTC, T_NAIVE_LOCAL, T_MISREAD, T_UNKNOWN = (
    'nothing', 'seconds since the epoch', 'an aware datetime', 'a naive datetime holding UTC wall-clock time',
    'a naive datetime holding the server\'s local wall-clock time', 'a datetime converted as if it held the other zone\'s wall-clock time', 'unknown')
DT = 'datetime.datetime.'


def _naive_reading(cx):
    """How the pinned dependency reads a naive datetime handed to serialize(): ``utctimetuple()`` -> as UTC, ``timetuple()`` +
    ``mktime`` -> as local time.  Read from the source of the function serialize() converts its argument with."""
    ser = cx.dep.func('SecureCookie.serialize')
    convs = [c for c in walk_body(ser.node) if isinstance(c, ast.Call) and isinstance(c.func, ast.Name) and
             any(isinstance(x, ast.Name) and x.id in ser.params() for a in c.args for x in ast.walk(a))]
    for c in convs:
        kind, m, fn = cx.repo.resolve(cx.dep, c.func.id)
        if kind != 'func':
            continue
        tails = set(call_tail(x) for x in walk_body(fn.node) if isinstance(x, ast.Call))
        if 'utctimetuple' in tails and not tails & {'mktime', 'timetuple'}:
            return T_NAIVE_UTC
        if tails & {'mktime'} and 'utctimetuple' not in tails:
            return T_NAIVE_LOCAL
    raise AnalysisError('secure_cookie serialize(): how a datetime expiry is converted is not recognised (model out of date)')


def _libname(fi, e):
    """Dotted name of the library object an expression denotes (through imports / ``as`` / aliases); None otherwise."""
    from .c14 import _qual, _Ctx as _C14Ctx
    try:
        return _qual(_C14Ctx(fi.mod, fi), e)
    except AnalysisError:
        raise
    except Exception:
        return None


def _is_utc_zone(fi, e):
    from .c14 import _UTC_TZ_NAMES, _UTC_TZ_CALLS
    return _libname(fi, e) in _UTC_TZ_NAMES or (isinstance(e, ast.Call) and not e.args and _libname(fi, e.func) in _UTC_TZ_CALLS)


def _expiry_values(cx, jc, fi, fl, e, at, names, cs, depth):
    """Abstract values of an expression handed to the dependency as the expiry to sign: [(own, kind, node, read_at)] --
    ``own``: it is the cookie's own expiry entry (a lookup of it, a conversion of one, what an accessor method of the cookie class
    returns for it, the value a chained assignment stores into the entry, a false constant) or the path conditions say the cookie
    has no entry; ``kind``: one of the T_* kinds; ``read_at``: the statement of this function in which the entry was read."""
    if depth > 6:
        raise AnalysisError('%s: the expiry value %s is too deep to follow' % (fi.qualname, short(e, 40)))
    out = []
    for lf in fl.leaves(e, at, list(cs)):
        if lf.opaque and not isinstance(lf.value, (ast.Subscript, ast.Call, ast.Constant)):
            raise AnalysisError('%s: the value handed on as the expiry (%s) is not followed' % (fi.qualname, short(lf.value, 40)))
        out += _expiry_value(cx, jc, fi, fl, e, lf.value, lf, names, depth)
    return out


def _expiry_value(cx, jc, fi, fl, use, v, lf, names, depth):
    absent = any(_absent_cond(cx, fi, fl, t, p, names) is not None for t, p in lf.conds)
    sub = lambda x: [r for y in [x] for r in _expiry_value(cx, jc, fi, fl, use, y, lf, names, depth + 1)] if not isinstance(x, ast.Name) else \
        _expiry_values(cx, jc, fi, fl, x, lf.stmt, names, lf.conds, depth + 1)
    if depth > 8:
        raise AnalysisError('%s: the expiry value %s is too deep to follow' % (fi.qualname, short(v, 40)))
    if isinstance(v, ast.BoolOp):
        return [r for x in v.values for r in sub(x)]
    if isinstance(v, ast.Constant):
        if not v.value:
            return [(True, T_NONE, v, None)]
        return [(absent, T_EPOCH if isinstance(v.value, (int, float)) else T_UNKNOWN, v, None)]
    if isinstance(v, ast.Subscript) and norm(v.value) in names and cx.fold(v.slice) == EXPIRES:
        return [(True, T_EPOCH, v, lf.stmt)]
    st = lf.stmt
    if isinstance(st, ast.Assign) and st.value is v and any(isinstance(t, ast.Subscript) and norm(t.value) in names and cx.fold(t.slice) == EXPIRES
                                                            for t in st.targets):
        return [(True, T_EPOCH, v, None)]
    if isinstance(v, ast.Call) and not any(isinstance(a, ast.Starred) for a in v.args) and not any(k.arg is None for k in v.keywords):
        f = v.func
        if isinstance(f, ast.Attribute) and f.attr == 'get' and norm(f.value) in names:
            k, d = argn(v, 'key', 0), argn(v, 'default', 1)
            if k is not None and cx.fold(k) == EXPIRES:
                own = d is None or (isinstance(d, ast.Constant) and not d.value)
                if not own and _is_sentinel(cx, fi, fl, d):
                    for t, p in lf.conds:
                        if isinstance(t, ast.Compare) and len(t.ops) == 1 and isinstance(t.ops[0], (ast.Is, ast.IsNot)) and isinstance(t.ops[0], ast.IsNot) is p:
                            sides = [t.left, t.comparators[0]]
                            if any(isinstance(x, ast.Name) and x.id == d.id for x in sides) and any(norm(x) in (norm(use), norm(v)) for x in sides):
                                own = True
                return [(own or absent, T_EPOCH, v, lf.stmt)]
        q = _libname(fi, f)
        if q in ('int', 'float', 'round') and len(v.args) == 1 and not v.keywords:
            return [(o, k if k in (T_EPOCH, T_NONE) else T_UNKNOWN, v, r) for o, k, _, r in sub(v.args[0])]
        if q == DT + 'utcfromtimestamp' and len(v.args) == 1 and not v.keywords:
            return [(o, T_NAIVE_UTC if k == T_EPOCH else T_UNKNOWN, v, r) for o, k, _, r in sub(v.args[0])]
        if q == DT + 'fromtimestamp' and v.args:
            tz = argn(v, 'tz', 1)
            zoned = tz is not None and not (isinstance(tz, ast.Constant) and tz.value is None)
            return [(o, (T_AWARE if zoned else T_NAIVE_LOCAL) if k == T_EPOCH else T_UNKNOWN, v, r) for o, k, _, r in sub(v.args[0])]
        if q in (DT + 'now', DT + 'today', DT + 'utcnow'):
            tz = argn(v, 'tz', 0) if q == DT + 'now' else None
            zoned = tz is not None and not (isinstance(tz, ast.Constant) and tz.value is None)
            return [(absent, T_AWARE if zoned else T_NAIVE_UTC if q == DT + 'utcnow' else T_NAIVE_LOCAL, v, None)]
        if q in ('time.time',) and not v.args:
            return [(absent, T_EPOCH, v, None)]
        if isinstance(f, ast.Attribute) and f.attr == 'replace' and [k.arg for k in v.keywords] == ['tzinfo'] and not v.args:
            utc = _is_utc_zone(fi, v.keywords[0].value)
            return [(o, T_AWARE if k == T_NAIVE_UTC and utc else T_MISREAD if k in (T_NAIVE_LOCAL, T_NAIVE_UTC) else k if k == T_NONE else T_UNKNOWN, v, r)
                    for o, k, _, r in sub(f.value)]
        if isinstance(f, ast.Attribute) and f.attr == 'astimezone':
            # (a naive datetime is taken to hold local time by astimezone())
            return [(o, T_AWARE if k in (T_NAIVE_LOCAL, T_AWARE) else T_MISREAD if k == T_NAIVE_UTC else T_UNKNOWN, v, r) for o, k, _, r in sub(f.value)]
        if isinstance(f, ast.Attribute) and norm(f.value) in names and not v.args and not v.keywords:
            callee = cx.repo.find_method(jc, f.attr)
            if callee is not None and not callee.mod.external and callee.params() == ['self'] and not callee.node.decorator_list:
                # an accessor of the cookie class: what it returns, with ``self`` the cookie
                from ..effects import Flow
                cfl = Flow(callee)
                ccfg = cfg_of(callee)
                rets = returns_of(callee)
                res = []
                for r in rets:
                    if r.value is None:
                        res.append((True, T_NONE, r, None))
                    else:
                        res += _expiry_values(cx, jc, callee, cfl, r.value, r, {'self'}, list(conds(callee, r)), depth + 1)
                if not rets or ccfg.exit in ccfg.reach([ccfg.entry], avoid=set(ccfg.nodes_of_all(rets)), normal_only=True):
                    res.append((True, T_NONE, callee.node, None))
                # the cookie is consulted where the accessor is called
                return [(o or absent, k, n, lf.stmt if (r is not None or o) and k != T_NONE else None) for o, k, n, r in res]
    if isinstance(v, ast.BinOp) and isinstance(v.op, (ast.Add, ast.Sub)):
        parts = sub(v.left) + sub(v.right)
        ks = set(k for _, k, _, _ in parts)
        return [(absent, T_EPOCH if ks <= {T_EPOCH} else T_UNKNOWN, v, None)]
    if isinstance(v, (ast.Attribute, ast.Name)):
        # configuration (self.expiry) / an argument: a number of seconds as far as its kind goes
        return [(absent, T_EPOCH, v, None)]
    return [(absent, T_UNKNOWN, v, None)]


# ---------------------------------------------------------------------------------------------- R16.h
# What the application stored is what the client gets back: SecureCookie.save_cookie() writes the cookie when
# ``self.should_save`` -- in the dependency: ``self.modified``, which every mutating dict method sets.  A subclass that
# narrows that decision ("modified AND different from what the client already holds") has to compare against something
# the application cannot reach: a snapshot that shares its nested values with the live cookie changes along with them
# (``cart = cookie['cart']; cart.append(x); cookie['cart'] = cart`` leaves cookie == snapshot), the cookie is not re-sent
# and the next request presents the old contents.
JUDGED_ELSEWHERE = ('quote', 'unquote', 'unserialize', 'serialization_method', 'hash_method', 'serialize', 'load_cookie', 'save_cookie')
DICT_PROTOCOL = ('__setitem__', '__delitem__', '__getitem__', '__contains__', '__iter__', '__len__', '__eq__', '__ne__', 'update', 'pop',
                 'popitem', 'clear', 'setdefault', 'get', 'items', 'keys', 'values', 'copy', 'on_update', 'modified', 'new', 'secret_key')
DEEP_SNAPSHOTS = ('deepcopy', 'dumps', 'serialize', 'quote', 'repr', 'str', 'hash')
SHALLOW_COPIERS = ('dict', 'list', 'tuple', 'set', 'frozenset', 'sorted', 'OrderedDict', 'copy', 'items', 'values', 'keys', 'fromkeys', 'ChainMap')


def rule_h(rep, cx):
    ck, repo, dep = cx.ck, cx.repo, cx.dep
    rep.rule('R16.h', 'a cookie the application modified is written back: should_save is the dependency\'s (= modified) or narrows it only by '
                      'comparing with an independent (deep) snapshot; the constructor hands data / key / new on unchanged')
    jc = ck.cls('JSONCookie')
    mro = [c for c in repo.mro(jc) if isinstance(c, ClassInfo)]
    own = [c for c in mro if not c.mod.external]
    ext = [c for c in mro if c.mod.external]
    if not ext:
        raise AnalysisError('JSONCookie: the dependency classes it derives from are not resolved')
    dep_names = set(n for c in ext for n in list(c.methods) + list(c.class_attrs))
    sc = dep.cls('SecureCookie')
    used = set(n.attr for m in sc.methods.values() for n in ast.walk(m.node)
               if isinstance(n, ast.Attribute) and isinstance(n.value, ast.Name) and n.value.id in ('self', 'cls'))
    # -- should_save
    owner, node = repo.class_attr(jc, 'should_save')
    if owner is None:
        raise AnalysisError('JSONCookie.should_save: not found along the MRO')
    key = '%s::JSONCookie.should_save' % COOKIE
    if owner.mod.external:
        rep.ok('R16.h', key, 'JSONCookie inherits should_save from the dependency (true whenever the cookie was modified)', ck, jc.node)
    else:
        fn = owner.methods.get('should_save')
        if fn is None:
            v = cx.fold(node) if isinstance(node, ast.expr) else _NOFOLD
            if v is True:
                rep.ok('R16.h', key, 'should_save is constantly true: the cookie is always written', owner.mod, owner.node)
            else:
                raise AnalysisError('%s.should_save is bound to %s, which is not followed' % (owner.name, short(node, 40) if node is not None else '?'))
        else:
            if [norm(d) for d in fn.node.decorator_list] != ['property']:
                raise AnalysisError('%s.should_save: decorators %s are not followed' % (owner.name, [norm(d) for d in fn.node.decorator_list]))
            rets = returns_of(fn)
            if not rets or cfg_of(fn).exit in cfg_of(fn).reach([cfg_of(fn).entry], avoid=set(cfg_of(fn).nodes_of_all(rets)), normal_only=True):
                rep.fail('R16.h', key, 'should_save can end without a value (None is false): a modified cookie is not written back', owner.mod, fn.node)
            bad = []
            for r in rets:
                if has_cond(conds(fn, r), _is_modified, False):
                    continue        # reached only for a cookie that was not modified
                for why, at in _narrowings(cx, own, fn, r.value if r.value is not None else ast.Constant(value=None), 0):
                    bad.append((why, at))
            for why, at in bad:
                rep.fail('R16.h', key, why, owner.mod, at)
            if not bad:
                rep.ok('R16.h', key, 'should_save is true whenever the cookie was modified and its contents differ from an independent snapshot',
                       owner.mod, fn.node)
    # -- the constructor
    owner, node = repo.class_attr(jc, '__init__')
    key = '%s::JSONCookie.__init__' % COOKIE
    if owner is None:
        raise AnalysisError('JSONCookie.__init__: not found along the MRO')
    if owner.mod.external:
        rep.ok('R16.h', key, 'JSONCookie is constructed by the dependency\'s __init__(data, secret_key, new)', ck, jc.node)
    else:
        _constructor(rep, cx, key, owner, owner.methods['__init__'], dep_names)
    # -- anything else of the dependency's machinery the class (or a mixin of it) replaces
    for c in own:
        for nm in sorted(set(list(c.methods) + list(c.class_attrs))):
            if nm in dep_names and nm not in JUDGED_ELSEWHERE + ('should_save', '__init__') and (nm in used or nm in DICT_PROTOCOL):
                raise AnalysisError('%s overrides %s of the dependency, which its load / save path uses: the override is not followed' % (c.name, nm))


def _narrowings(cx, own, fn, e, depth):
    """[(why the value can be false for a modified cookie, node)] for the value expression of should_save."""
    if depth > 6:
        raise AnalysisError('should_save: expression too deep')
    e = _follow(fn, e)
    if isinstance(e, ast.Constant):
        return [] if e.value is True else [('should_save is constantly %r: a modified cookie is never written back' % (e.value,), e)]
    if _is_modified(e):
        return []
    if isinstance(e, ast.BoolOp) and isinstance(e.op, ast.Or):
        if any(_is_modified(_follow(fn, v)) or (isinstance(v, ast.Constant) and v.value is True) for v in e.values):
            return []
        raise AnalysisError('should_save: %s is not followed' % short(e, 60))
    if isinstance(e, ast.BoolOp) and isinstance(e.op, ast.And):
        out = []
        for v in e.values:
            out += _narrowings(cx, own, fn, v, depth + 1)
        return out
    snap = _snapshot_compare(fn, e)
    if snap is None:
        raise AnalysisError('should_save: the condition %s is not followed' % short(e, 60))
    stores = []
    for c in own:
        for m in c.methods.values():
            for st in stmts_of(m.node):
                if isinstance(st, (ast.Assign, ast.AnnAssign)) and st.value is not None:
                    for t in (st.targets if isinstance(st, ast.Assign) else [st.target]):
                        if isinstance(t, ast.Attribute) and norm(t.value) == 'self' and t.attr == snap:
                            stores.append((m, st))
    if not stores:
        raise AnalysisError('should_save compares with self.%s, which no method of the class binds' % snap)
    out = []
    for m, st in stores:
        kind = _snapshot_kind(cx, m, st.value, 0)
        if kind == 'shallow':
            out.append(('should_save is narrowed to "modified and different from self.%s", but %s binds self.%s = %s -- %s: the nested values '
                        '(lists, dicts) of the snapshot ARE the objects the endpoint gets from the cookie, so the usual '
                        '"v = cookie[k]; v.append(x); cookie[k] = v" changes the snapshot too, cookie == snapshot, no Set-Cookie is sent and the '
                        'next request presents the old contents instead of what the application stored'
                        % (snap, m.qualname, snap, short(st.value, 40), 'a shallow copy' if not _is_self(st.value) else 'the cookie itself'), st))
        elif kind is None:
            raise AnalysisError('should_save compares with self.%s = %s (in %s): whether that snapshot is independent of the live values is not decided'
                                % (snap, short(st.value, 40), m.qualname))
    return out


def _is_self(e):
    return isinstance(e, ast.Name) and e.id == 'self'


def _is_modified(e):
    """``self.modified`` / the dependency's own should_save (``super().should_save``)."""
    if isinstance(e, ast.Attribute) and e.attr == 'modified' and _is_self(e.value):
        return True
    return isinstance(e, ast.Attribute) and e.attr == 'should_save' and isinstance(e.value, ast.Call) and call_name(e.value) == 'super'


def _snapshot_compare(fn, e):
    """Attribute name S when ``e`` says "the contents differ from self.S": ``live != self.S`` / ``not live == self.S`` (either
    order), live being an expression over ``self`` only."""
    neg = False
    e = _follow(fn, e)
    while isinstance(e, ast.UnaryOp) and isinstance(e.op, ast.Not):
        e, neg = _follow(fn, e.operand), not neg
    if not (isinstance(e, ast.Compare) and len(e.ops) == 1):
        return None
    differs = (isinstance(e.ops[0], ast.NotEq) and not neg) or (isinstance(e.ops[0], ast.Eq) and neg)
    if not differs:
        return None
    a, b = _follow(fn, e.left), _follow(fn, e.comparators[0])
    for live, snap in ((a, b), (b, a)):
        if isinstance(snap, ast.Attribute) and _is_self(snap.value) and not (isinstance(live, ast.Attribute) and _is_self(live.value)) \
                and set(n.id for n in ast.walk(live) if isinstance(n, ast.Name)) - set(SHALLOW_COPIERS) - set(DEEP_SNAPSHOTS) <= {'self', 'json', 'copy'}:
            return snap.attr
    return None


def _snapshot_kind(cx, m, v, depth):
    """'deep' (shares no mutable object with the cookie: deepcopy, a serialised form, a constant), 'shallow' (the cookie itself, or a
    new container holding the cookie's own values), None (not decided)."""
    v = _follow(m, v)
    if isinstance(v, ast.Constant):
        return 'deep'
    names = set(n.id for n in ast.walk(v) if isinstance(n, ast.Name))
    live = names & (set(_all_params(m.node)) | {'self'})
    if isinstance(v, ast.Call):
        tail = call_tail(v)
        if tail in DEEP_SNAPSHOTS:
            return 'deep'
        if tail in SHALLOW_COPIERS and live:
            return 'shallow'
        return None
    if isinstance(v, (ast.Dict, ast.List, ast.Tuple, ast.Set, ast.DictComp, ast.ListComp, ast.SetComp)):
        if not live:
            return 'deep' if not names else None
        inner = [x for x in ast.walk(v) if isinstance(x, ast.Call) and call_tail(x) in DEEP_SNAPSHOTS]
        return 'shallow' if not inner else None
    if isinstance(v, ast.Name) and v.id in live:
        return 'shallow'
    if isinstance(v, ast.BoolOp) and depth < 4:
        ks = [_snapshot_kind(cx, m, x, depth + 1) for x in v.values]
        return 'shallow' if 'shallow' in ks else None if None in ks else 'deep'
    return None


def _constructor(rep, cx, key, owner, fi, dep_names):
    """A constructor of the cookie class written in the analysed tree: the dependency builds cookies as cls(items, secret_key, False) /
    cls(secret_key=..): data, key and the new-flag must reach the dependency's __init__ as given, on every path, and the constructor
    itself puts nothing into the cookie."""
    from ..effects import effects_in
    mod = fi.mod
    a = fi.node.args
    sups = [c for c in walk_body(fi.node) if isinstance(c, ast.Call) and call_tail(c) == '__init__' and isinstance(c.func, ast.Attribute)]
    if len(sups) != 1:
        raise AnalysisError('%s.__init__: %d calls of a base __init__' % (owner.name, len(sups)))
    c = sups[0]
    unbound = not (isinstance(c.func.value, ast.Call) and call_name(c.func.value) == 'super')
    through = a.vararg is not None and a.kwarg is not None and len(a.args) == 1 and \
        [norm(x) for x in c.args[1 if unbound else 0:]] == ['*' + a.vararg.arg] and [(k.arg, norm(k.value)) for k in c.keywords] == [(None, a.kwarg.arg)]
    if through:
        fwd_ok, why = True, 'every argument is passed through (*args, **kwargs)'
    else:
        if any(isinstance(x, ast.Starred) for x in c.args) or any(k.arg is None for k in c.keywords) or a.vararg or a.kwarg:
            raise AnalysisError('%s.__init__: the call %s is not followed' % (owner.name, short(c, 60)))
        ps = fi.params()[1:]
        off = 1 if unbound else 0
        got = dict((nm, argn(c, nm, i + off)) for i, nm in enumerate(('data', 'secret_key', 'new')))
        wrong = [nm for nm in ('data', 'secret_key', 'new') if nm not in ps or got[nm] is None or norm(got[nm]) != nm or assigned_value(fi.node, nm)]
        fwd_ok = not wrong and ps[:3] == ['data', 'secret_key', 'new']
        why = 'data, secret_key and new are handed to the dependency\'s constructor as received' if fwd_ok else \
            'the constructor does not hand %s on unchanged (the dependency builds cookies as cls(items, secret_key, False)): %s' % (', '.join(wrong) or 'its arguments', short(c, 60))
    cfg = cfg_of(fi)
    always = cfg.must_pass(cfg.nodes_of(stmt_of(mod, c)), cfg.entry, cfg.exit, normal_only=True)
    rep.check('R16.h', key, fwd_ok and always, why if not fwd_ok or always else 'the base constructor is not called on every path', mod, c)
    for ef in effects_in(fi.node):
        if ef.root != 'self':
            continue
        into = (ef.kind == 'mutcall' and _is_self(ef.target)) or (isinstance(ef.target, ast.Subscript) and _is_self(ef.target.value))
        over = isinstance(ef.target, ast.Attribute) and _is_self(ef.target.value) and ef.target.attr in dep_names and ef.kind != 'mutcall'
        if into or over:
            rep.fail('R16.h', key + '::%s' % norm(ef.node), '%s in the constructor %s' % (short(ef.node, 50),
                     'puts data into every cookie that the application did not store' if into else
                     'replaces %s, which the dependency\'s load / save path uses' % ef.target.attr), mod, ef.node)
