"""Shared rules over the chain builder (sinter.py, middleware/core.py) used by C01..C04, C10.

Each function takes the report and the rule id under which to file its obligations, so the same
analysis can back clauses of several properties.
"""
import ast
import copy
import textwrap

from ..core import AnalysisError, norm, short
from ..setalg import Universe, SetInterp, Opaque, Unmodelled
from .. import codegen
from .. import effects
from ..codegen import TemplateEval, Sym, Elem
from ..cfg import CFG, expand_conds
from ..layers import layers_of_var, layers_of_expr, layers_of_value, index_of
from ..astutil import argn, assigned_value
from .common import (cfg_of, fkey, conds, has_cond, cond_texts, stmts_of, walk_body, call_tail, call_name,
                     returns_of, raises_of, raise_type, stmt_of, kwarg)

SINTER = 'clastic.sinter'
CORE = 'clastic.middleware.core'
ROUTE = 'clastic.route'
APP = 'clastic.application'


# ---------------------------------------------------------------------------------------------
# R01.c (1): chain_argspec -- one symbolic loop iteration against the per-iteration spec
# ---------------------------------------------------------------------------------------------

def _sig_model(uni, fvar_tags=('func',)):
    """Transfer functions for signature accessors (boltons FunctionBuilder model)."""
    def model(it, e):
        if isinstance(e, ast.Call):
            f = e.func
            tail = call_tail(e)
            if isinstance(f, ast.Name) and f.id == 'get_fb':
                return Opaque(e, tag='fb')
            if isinstance(f, ast.Name) and f.id == 'get_arg_names':
                only = kwarg(e, 'only_required') or (e.args[1] if len(e.args) > 1 else None)
                if only is not None and isinstance(only, ast.Constant) and only.value:
                    return uni['NAMES'] & uni.neg(uni['DEFAULTS'])
                return uni['NAMES']
            if isinstance(f, ast.Attribute):
                try:
                    recv = it.eval(f.value)
                except Unmodelled:
                    recv = None
                if isinstance(recv, Opaque) and recv.tag == 'fb':
                    if tail == 'get_arg_names':
                        only = kwarg(e, 'only_required') or (e.args[0] if e.args else None)
                        if only is not None and isinstance(only, ast.Constant) and only.value:
                            return uni['NAMES'] & uni.neg(uni['DEFAULTS'])
                        return uni['NAMES']
                    if tail == 'get_defaults_dict':
                        return uni['DEFAULTS']       # a dict, represented by its key set
                if tail == 'partition' and e.args:
                    src = it.as_set(it.eval(e.args[0]), e.args[0])
                    key = kwarg(e, 'key') or (e.args[1] if len(e.args) > 1 else None)
                    pred = _membership_pred(it, key)
                    if pred is None:
                        raise Unmodelled('partition key %s' % norm(key))
                    return (src & pred, src & uni.neg(pred))
        if isinstance(e, ast.Attribute):
            try:
                recv = it.eval(e.value)
            except Unmodelled:
                recv = None
            if isinstance(recv, Opaque) and recv.tag == 'fb' and e.attr in ('args', 'kwonlyargs'):
                # narrower accessors are R01.e's business; for the set arithmetic they stand for the names
                return uni['NAMES']
        return None
    return model


def _membership_pred(it, key):
    """``D.__contains__`` / ``lambda a: a in D`` (or a local naming one of these) -> mask of D."""
    if isinstance(key, ast.Name):
        v = it.env.get(key.id)
        if isinstance(v, Opaque) and isinstance(v.expr, (ast.Attribute, ast.Lambda)):
            return _membership_pred(it, v.expr)
        return None
    if isinstance(key, ast.Attribute) and key.attr == '__contains__':
        return it.as_set(it.eval(key.value), key.value)
    if isinstance(key, ast.Lambda) and isinstance(key.body, ast.Compare) and len(key.body.ops) == 1 \
            and isinstance(key.body.ops[0], ast.In) and isinstance(key.body.left, ast.Name) \
            and key.body.left.id == key.args.args[0].arg:
        return it.as_set(it.eval(key.body.comparators[0]), key.body.comparators[0])
    return None


def check_chain_argspec(rep, rule):
    repo = rep.repo
    fi = repo.mod(SINTER).func('chain_argspec')
    sinter = fi.mod        # the module the definition lives in now
    ps = fi.params()
    if len(ps) != 3:
        raise AnalysisError('chain_argspec signature changed: %r' % ps)
    body = [s for s in fi.node.body if not (isinstance(s, ast.Expr) and isinstance(s.value, ast.Constant))]
    loops = [s for s in body if isinstance(s, ast.For)]
    rets = returns_of(fi)
    if len(loops) != 1 or len(rets) != 1 or not isinstance(rets[0].value, ast.Tuple) or len(rets[0].value.elts) != 2:
        raise AnalysisError('chain_argspec: expected one loop and one "return (required, optional)"')
    loop = loops[0]
    pre = body[:body.index(loop)]
    post = body[body.index(loop) + 1:]
    uni = Universe(['R', 'P', 'O', 'NAMES', 'DEFAULTS', 'p', 'INNER'])
    it0 = SetInterp(uni, elems={ps[2]: uni['INNER']}, model=_sig_model(uni))
    it0.env[ps[2]] = Opaque(None, 'inner')
    it0.exec_block(pre)
    rv = [norm(x) for x in rets[0].value.elts]
    req_var, opt_var = rv
    tracked = dict((k, v) for k, v in it0.env.items() if isinstance(v, int))
    prov_vars = [k for k, v in tracked.items() if k not in (req_var, opt_var)]
    key0 = fkey(fi, 'initial state')
    ok = tracked.get(req_var) == 0 and tracked.get(opt_var) == 0 and len(prov_vars) == 1 and \
        tracked[prov_vars[0]] == uni['INNER']
    rep.check(rule, key0, ok,
              'required={} optional={} provided={inner_name} before the first function' if ok else
              'initial sets are not required={}, optional={}, provided={%s}: %s' % (
                  ps[2], dict((k, uni.formula(v)) for k, v in tracked.items())), sinter, fi.node)
    if not ok:
        return
    prov_var = prov_vars[0]
    # loop header: every (function, its provides) pair, outermost first -- zip(funcs, provides), or an index loop
    itx = loop.iter
    while isinstance(itx, ast.Call) and call_name(itx) in ('list', 'tuple', 'iter') and len(itx.args) == 1:
        itx = itx.args[0]
    fvar = pvar = None
    loop_body = list(loop.body)
    hdr_known = True
    if isinstance(itx, ast.Call) and call_name(itx) == 'zip' and isinstance(loop.target, ast.Tuple) and len(loop.target.elts) == 2:
        if [norm(a) for a in itx.args] == [ps[0], ps[1]]:
            fvar, pvar = [norm(x) for x in loop.target.elts]
    else:
        def pick(lst, idx):
            """The body statement ``v = <lst>[<idx>]`` -> (v, statement)."""
            for b in loop_body:
                if isinstance(b, ast.Assign) and len(b.targets) == 1 and isinstance(b.targets[0], ast.Name) and \
                        isinstance(b.value, ast.Subscript) and norm(b.value.value) == lst and norm(b.value.slice) == idx:
                    return b.targets[0].id, b
            return None, None
        if isinstance(itx, ast.Call) and call_name(itx) == 'enumerate' and len(itx.args) == 1 and norm(itx.args[0]) == ps[0] and \
                isinstance(loop.target, ast.Tuple) and len(loop.target.elts) == 2 and all(isinstance(x, ast.Name) for x in loop.target.elts):
            idx, fvar = [x.id for x in loop.target.elts]
            pvar, pst = pick(ps[1], idx)
            loop_body = [b for b in loop_body if b is not pst]
        elif isinstance(itx, ast.Call) and call_name(itx) == 'range' and len(itx.args) == 1 and norm(itx.args[0]) == 'len(%s)' % ps[0] and \
                isinstance(loop.target, ast.Name):
            idx = loop.target.id
            fvar, fst = pick(ps[0], idx)
            pvar, pst = pick(ps[1], idx)
            loop_body = [b for b in loop_body if b is not fst and b is not pst]
        else:
            hdr_known = False
        if hdr_known and any(isinstance(n, ast.Name) and n.id == idx for b in loop_body for n in ast.walk(b)):
            fvar = pvar = None       # the index is used for something else as well
    if not hdr_known:
        raise AnalysisError('chain_argspec: loop header %s not recognised as a walk over (function, provides) pairs' % short(loop.iter))
    hdr_ok = fvar is not None and pvar is not None
    rep.check(rule, fkey(fi, 'loop header'), hdr_ok, 'iterates zip(%s, %s) in order' % (ps[0], ps[1]) if hdr_ok else
              'loop does not iterate zip(%s, %s): %s' % (ps[0], ps[1], short(loop.iter)), sinter, loop)
    if not hdr_ok:
        return
    it = SetInterp(uni, env={req_var: uni['R'], opt_var: uni['O'], prov_var: uni['P'], pvar: uni['p'],
                             fvar: Opaque(None, 'func')}, elems={ps[2]: uni['INNER']}, model=_sig_model(uni))
    it.exec_block(loop_body)
    U = uni['NAMES'] & uni.neg(uni['DEFAULTS'])
    D = uni['NAMES'] & uni['DEFAULTS']
    spec = {req_var: (uni['R'] | (U & uni.neg(uni['P'])), "R' = R | (undefaulted - P)  [only providers *before* the function count]"),
            prov_var: (uni['P'] | uni['p'], "P' = P | provides_of_this_level"),
            opt_var: (uni['O'] | D, "O' = O | defaulted")}
    for var, (want, text) in spec.items():
        got = it.env.get(var)
        ok = isinstance(got, int) and got == want
        rep.check(rule, fkey(fi, 'iteration: ' + var), ok,
                  'one symbolic iteration computes %s exactly (truth table over %s)' % (text, uni.atoms) if ok else
                  'per-iteration update of %s differs from the specification %s: %s' % (
                      var, text, uni.diff_witness(got, want) if isinstance(got, int) else 'not a set value'),
                  sinter, loop)
    # after the loop nothing changes the results
    it2 = SetInterp(uni, env={req_var: uni['R'], opt_var: uni['O'], prov_var: uni['P']}, elems={ps[2]: uni['INNER']})
    it2.exec_block([s for s in post if not isinstance(s, ast.Return)])
    ok = it2.env[req_var] == uni['R'] and it2.env[opt_var] == uni['O']
    rep.check(rule, fkey(fi, 'after loop'), ok, 'results are returned as accumulated' if ok else
              'the accumulated sets are modified after the loop', sinter, rets[0])
    return {'req': req_var, 'opt': opt_var}


# ---------------------------------------------------------------------------------------------
# R01.c (2) + R01.f: make_chain
# ---------------------------------------------------------------------------------------------

def check_make_chain(rep, rule, rule_align):
    repo = rep.repo
    sinter = repo.mod(SINTER)
    fi = sinter.func('make_chain')
    ps = fi.params()   # funcs, provides, final_func, preprovided, inner_name
    if len(ps) != 5:
        raise AnalysisError('make_chain signature changed: %r' % ps)
    uni = Universe(['REQ', 'OPT', 'PRE'])
    captured = {}

    it = SetInterp(uni, env={ps[3]: uni['PRE']})
    for p in (ps[0], ps[1], ps[2], ps[4]):
        it.env[p] = Opaque(None, p)
    # list-valued locals as concatenation normal forms: items ('*', param) = all elements of a parameter list in order,
    # ('e', node) = one element, ('?', text) = unknown
    seqenv = {}
    killed = {}      # a list parameter re-bound to something that is not an order-preserving copy of itself -> the statement

    def seq(e):
        if isinstance(e, ast.BinOp) and isinstance(e.op, ast.Add):
            return seq(e.left) + seq(e.right)
        if isinstance(e, (ast.List, ast.Tuple)):
            out = []
            for x in e.elts:
                out.extend(seq(x.value) if isinstance(x, ast.Starred) else [('e', x)])
            return out
        if isinstance(e, ast.Call) and call_name(e) in ('list', 'tuple') and len(e.args) == 1 and not e.keywords:
            return seq(e.args[0])
        if isinstance(e, (ast.ListComp, ast.GeneratorExp)) and len(e.generators) == 1 and not e.generators[0].ifs and \
                isinstance(e.generators[0].target, ast.Name) and not e.generators[0].is_async:
            # [p for p in X] / [tuple(p) for p in X]: every element of X, in order, itself copied in order
            v, x = e.generators[0].target.id, e.elt
            while isinstance(x, ast.Call) and call_name(x) in ('list', 'tuple') and len(x.args) == 1 and not x.keywords:
                x = x.args[0]
            if isinstance(x, ast.Name) and x.id == v:
                return seq(e.generators[0].iter)
        if isinstance(e, ast.Name):
            if e.id in seqenv:
                return list(seqenv[e.id])
            if e.id in (ps[0], ps[1]) and e.id not in killed:
                return [('*', e.id)]
        return [('?', norm(e))]

    def model(it, e):     # captures the list arguments where the call stands
        if isinstance(e, ast.Call) and call_name(e) == 'chain_argspec':
            captured['argspec'] = e
            if len(e.args) >= 3:
                captured['argspec_seqs'] = (seq(e.args[0]), seq(e.args[1]))
            return (uni['REQ'], uni['OPT'])
        if isinstance(e, ast.Call) and call_name(e) == 'compile_chain':
            captured['compile'] = e
            if len(e.args) >= 3:
                p2 = seq(e.args[1])
                captured['compile_seqs'] = (seq(e.args[0]), p2)
                captured['compile_first'] = it.try_eval(p2[0][1]) if p2 and p2[0][0] == 'e' else None
            return Opaque(e, 'chain')
        return None
    it.model = model
    body = fi.node.body
    for st in body:
        if isinstance(st, ast.Return):
            continue
        it.exec_stmt(st)
        if isinstance(st, ast.Assign) and len(st.targets) == 1 and isinstance(st.targets[0], ast.Name):
            sq = seq(st.value)
            if any(k == '?' for k, _ in sq):
                seqenv.pop(st.targets[0].id, None)
                if st.targets[0].id in (ps[0], ps[1]):
                    killed[st.targets[0].id] = st
            else:
                seqenv[st.targets[0].id] = sq
        elif isinstance(st, ast.Expr) and isinstance(st.value, ast.Call) and isinstance(st.value.func, ast.Attribute) and \
                isinstance(st.value.func.value, ast.Name):
            seqenv.pop(st.value.func.value.id, None)      # a method call on the list: no longer the form we recorded
        elif isinstance(st, ast.AugAssign) and isinstance(st.target, ast.Name):
            seqenv.pop(st.target.id, None)
    rets = returns_of(fi)
    if len(rets) != 1 or not isinstance(rets[0].value, ast.Tuple) or len(rets[0].value.elts) != 3:
        raise AnalysisError('make_chain: expected "return chain, args, unresolved"')
    r_chain, r_args, r_unres = rets[0].value.elts
    try:
        got_args = it.eval(r_args)
        got_unres = it.eval(r_unres)
    except Unmodelled as e:
        raise AnalysisError('make_chain return: %s' % e)
    want_args = uni['REQ'] | (uni['PRE'] & uni['OPT'])
    want_unres = uni['REQ'] & uni.neg(uni['PRE'])
    rep.check(rule, fkey(fi, 'args'), got_args == want_args,
              'args = required | (preprovided & optional)  (exact)' if got_args == want_args else
              'chain arguments differ from required | (preprovided & optional): %s' % uni.diff_witness(got_args, want_args),
              sinter, rets[0])
    rep.check(rule, fkey(fi, 'unresolved'), got_unres == want_unres,
              'unresolved = required - preprovided  (exact)' if got_unres == want_unres else
              'unresolved differs from required - preprovided: %s' % uni.diff_witness(got_unres, want_unres), sinter, rets[0])
    ok = isinstance(it.try_eval(r_chain), Opaque) and it.try_eval(r_chain).tag == 'chain'
    rep.check(rule, fkey(fi, 'chain'), ok, 'first result is the compiled chain' if ok else 'first result is not the compile_chain value',
              sinter, rets[0])
    # ---- alignment of the two consumers (R01.f)
    ca, cc = captured.get('argspec'), captured.get('compile')
    if ca is None or cc is None or 'argspec_seqs' not in captured or 'compile_seqs' not in captured:
        raise AnalysisError('make_chain no longer calls chain_argspec / compile_chain (with positional lists)')

    def show(sq):
        return [('*' + v) if k == '*' else (norm(v) if k == 'e' else '?' + v) for k, v in sq]

    def is_funcs(sq):
        return len(sq) == 2 and sq[0] == ('*', ps[0]) and sq[1][0] == 'e' and norm(sq[1][1]) == ps[2]

    def is_empty_tuple(x):
        return (isinstance(x, ast.Tuple) and not x.elts) or (isinstance(x, ast.Call) and call_name(x) == 'tuple' and not x.args)
    (f1, p1), (f2, p2) = captured['argspec_seqs'], captured['compile_seqs']
    ok = not killed
    rep.check(rule_align, fkey(fi, 'lists handed on as declared'), ok,
              'the function list and every provides tuple reach the code generator as declared (order-preserving copies only): the '
              'parameter order of a generated level is the order in which its middleware declares provides -- the positional '
              'interface of next()' if ok else
              '%s is re-bound to %s, which is not an order-preserving copy: the generated next(...) of a level no longer takes its '
              'parameters in the order the middleware declares (and hands them over positionally) -- values are cross-wired'
              % (sorted(killed)[0], short(killed[sorted(killed)[0]].value, 70)), sinter, killed[sorted(killed)[0]] if killed else fi.node)
    ok = is_funcs(f1) and is_funcs(f2)
    rep.check(rule_align, fkey(fi, 'function sequence'), ok,
              'chain_argspec and compile_chain both get funcs ++ [final_func]' if ok else
              'function sequences differ or are not funcs ++ [final_func]: %r vs %r' % (show(f1), show(f2)), sinter, cc)
    ok = len(p1) == 2 and p1[0] == ('*', ps[1]) and p1[1][0] == 'e' and is_empty_tuple(p1[1][1])
    rep.check(rule_align, fkey(fi, 'provides for argspec'), ok, 'chain_argspec gets provides ++ [()]' if ok else
              'chain_argspec provides list is %r, expected provides ++ [()]' % show(p1), sinter, ca)
    ok = len(p2) == 2 and p2[1] == ('*', ps[1]) and p2[0][0] == 'e' and captured.get('compile_first') == want_args
    rep.check(rule_align, fkey(fi, 'params for codegen'), ok,
              'generated level L re-binds exactly what chain_argspec counted as provided before L ([args] ++ provides)' if ok else
              'compile_chain parameter lists are %r, expected [args] ++ provides' % show(p2), sinter, cc)
    ok = norm(ca.args[2]) == ps[4] and norm(cc.args[2]) == ps[4]
    rep.check(rule_align, fkey(fi, 'inner name'), ok, 'both consumers use the same inner name' if ok else
              'inner name differs between chain_argspec and compile_chain', sinter, cc)
    # compile_chain passes through unchanged
    cfi = sinter.func('compile_chain')
    cps = cfi.params()
    try:
        te = TemplateEval(repo, cfi).run()
        sinks = [k for k in te.sinks if k['name'] == 'compile_code']
    except AnalysisError:
        te, sinks = None, []
    ok = len(sinks) == 1
    if ok:
        k = sinks[0]

        def arg(name, pos):
            return k['kw'].get(name, k['args'][pos] if len(k['args']) > pos else None)
        code, nm, env = arg('code_str', 0), arg('name', 1), arg('env', 2)
        ok = isinstance(code, codegen.Ex) and isinstance(code.node, ast.Call) and call_name(code.node) == 'build_chain_str' and \
            [norm(a) for a in code.node.args[:3]] == cps[:3] and len(code.node.args) == 3 and not code.node.keywords
        ok = ok and isinstance(nm, codegen.Ex) and nm.text == cps[2]
        ok = ok and isinstance(env, codegen.SDict) and env.comp is None and list(env.items) == ['funcs'] and \
            isinstance(env.items['funcs'], codegen.Ex) and env.items['funcs'].text == cps[0]
        mr = te.main_return()
        ok = ok and mr is not None and isinstance(mr[1], codegen.Ex) and isinstance(mr[1].node, ast.Call) and call_name(mr[1].node) == 'compile_code' \
            and not te.guards
    rep.check(rule_align, fkey(cfi, 'pass-through'), ok,
              "compile_chain builds the text from (funcs, params, inner_name) and executes it with {'funcs': funcs}, returning env[inner_name]" if ok else
              'compile_chain does not pass funcs/params/inner_name through unchanged', sinter, cfi.node)


# ---------------------------------------------------------------------------------------------
# R01.d / R03.c(env) / R03.d(list order): make_middleware_chain
# ---------------------------------------------------------------------------------------------

PHASES = {'request': 'provides', 'endpoint': 'endpoint_provides', 'render': 'render_provides'}


PROVS_PHASE = dict((v, k) for k, v in PHASES.items())


def _attr_read(x, var, resolve=None):
    """The attribute of the loop variable ``var`` that expression ``x`` reads -- ``var.a``, ``getattr(var, 'a')`` /
    ``getattr(var, K)`` with K a local / constant holding the string where the expression stands, ``G(var)`` with G a local
    bound there to ``operator.attrgetter('a')`` -- or None.  ``resolve(name)`` gives the expression a name stands for at
    that point (flow-sensitive: the interpreter's current binding)."""
    if isinstance(x, ast.Attribute) and isinstance(x.value, ast.Name) and x.value.id == var:
        return x.attr
    if not (isinstance(x, ast.Call) and not x.keywords):
        return None

    def const_str(k, depth=0):
        if isinstance(k, ast.Constant) and isinstance(k.value, str):
            return k.value
        if isinstance(k, ast.Name) and resolve is not None and depth < 3:
            v = resolve(k.id)
            return const_str(v, depth + 1) if v is not None else None
        return None
    if isinstance(x.func, ast.Name) and x.func.id == 'getattr' and len(x.args) == 2 and isinstance(x.args[0], ast.Name) and x.args[0].id == var:
        return const_str(x.args[1])
    if isinstance(x.func, ast.Name) and resolve is not None and len(x.args) == 1 and isinstance(x.args[0], ast.Name) and x.args[0].id == var:
        g = resolve(x.func.id)
        if isinstance(g, ast.Call) and norm(g.func) in ('attrgetter', 'operator.attrgetter') and len(g.args) == 1 and not g.keywords:
            a = const_str(g.args[0])
            if a is not None and a.isidentifier():
                return a
    return None


def _phase_comp(e, resolve=None):
    """``[(mw.F, mw.P) for mw in X if ...]`` / ``[mw.A for mw in X if ...]`` -> description of the comprehension, else None.
    The attribute reads may be spelled in any of the ways _attr_read follows; ``ifs_text`` holds the filters with such reads
    written as ``mw.a``."""
    if not isinstance(e, (ast.ListComp, ast.GeneratorExp)) or len(e.generators) != 1 or not isinstance(e.generators[0].target, ast.Name):
        return None
    g = e.generators[0]
    var = g.target.id

    def attr_of(x):
        return _attr_read(x, var, resolve)

    def canon_text(c):
        c2, pol = _strip_not(c)
        a = attr_of(c2)
        t = '%s.%s' % (var, a) if a is not None else norm(c2)
        return t if pol else 'not %s' % t
    d = {'var': var, 'iter': g.iter, 'ifs': list(g.ifs), 'node': e, 'ifs_text': [canon_text(c) for c in g.ifs]}
    if isinstance(e.elt, ast.Tuple) and len(e.elt.elts) == 2 and attr_of(e.elt.elts[0]) and attr_of(e.elt.elts[1]):
        d.update(kind='sigs', func=attr_of(e.elt.elts[0]), prov=attr_of(e.elt.elts[1]))
        return d
    a = attr_of(e.elt)
    if a in PHASES:
        d.update(kind='funcs', func=a, prov=None)
        return d
    if a in PROVS_PHASE:
        d.update(kind='provs', func=None, prov=a)
        return d
    return None


def _strip_not(t, pol=True):
    while isinstance(t, ast.UnaryOp) and isinstance(t.op, ast.Not):
        t, pol = t.operand, not pol
    return t, pol


def check_phase_sets(rep, rule, rule_pair=None, rule_order=None, rule_core_env=None):
    """Abstract interpretation of make_middleware_chain.  The three (function list, provides list) pairs are found
    by evaluation: a comprehension over the middleware list that selects ``(mw.<slot>, mw.<slot provides>)`` pairs (or
    one of the two) is a phase value; ``zip(*sigs)``, ``list(..)``, ``.. or ((), ())``, tuple unpacking, aliases and
    an ``if not sigs: <empty lists> else: <unzip>`` split carry it to the make_chain call that consumes it.  A phase is
    identified by the role of what the make_chain call is given (which slot its function list was read from), never by the
    names of the locals: temporaries re-used from phase to phase are followed flow-sensitively, and so are the locals a
    comprehension reads its attribute names from (``getattr(mw, provides_attr)``, ``attrgetter(..)``)."""
    repo = rep.repo
    core = repo.mod(CORE)
    fi = core.func('make_middleware_chain')
    ps = fi.params()   # middlewares, endpoint, render, preprovided
    if len(ps) != 4:
        raise AnalysisError('make_middleware_chain signature changed: %r' % ps)
    rule_pair = rule_pair or rule
    uni = Universe(['PRE', 'NEXT', 'CTX', 'REQP', 'EPP', 'RNP', 'EPA', 'RNA'])
    provs_atom = {'request': 'REQP', 'endpoint': 'EPP', 'render': 'RNP'}
    args_atom = {'endpoint': 'EPA', 'render': 'RNA'}
    calls = {}
    inner = {}
    comps = {}       # id(comprehension node) -> description (+ 'reordered' flag)
    comp_of_phase = {}

    def phase_val(v):
        """(kind, phase, comprehension description) of an interpreter value that stands for a phase list."""
        if isinstance(v, Opaque) and isinstance(v.tag, tuple) and len(v.tag) == 3 and v.tag[0] in ('sigs', 'funcs', 'provs'):
            return v.tag[0], v.tag[1], comps.get(v.tag[2])
        if isinstance(v, Opaque) and v.tag is None and v.expr is not None:
            d = _phase_comp(v.expr)
            if d is not None:
                d = comps.setdefault(id(d['node']), d)
                phase = d['func'] if d['func'] is not None else PROVS_PHASE.get(d['prov'])
                return d['kind'], phase, d
        return None

    def note(d, kind, phase):
        comp_of_phase.setdefault((kind if kind != 'sigs' else 'funcs', phase), d)
        if kind == 'sigs':
            comp_of_phase.setdefault(('provs', PROVS_PHASE.get(d['prov'])), d)

    def resolver(it):
        """name -> the expression the local stands for where the interpreter is now (a value it carries unevaluated)."""
        def resolve(name):
            raw = it.env.raw(name)
            return raw.expr if isinstance(raw, Opaque) and raw.tag is None and isinstance(raw.expr, ast.expr) else None
        return resolve

    def model(it, e):
        if isinstance(e, (ast.SetComp, ast.ListComp, ast.GeneratorExp)):
            r = flatten_comp(it, e)
            if r is None and not isinstance(e, ast.SetComp):
                # a phase list, described where it is built (the names it reads are bound flow-sensitively)
                d = _phase_comp(e, resolver(it))
                if d is not None:
                    d = comps.setdefault(id(e), d)
                    return Opaque(e, (d['kind'], d['func'] if d['func'] is not None else PROVS_PHASE.get(d['prov']), id(e)))
            return r
        if isinstance(e, ast.Subscript) and isinstance(e.value, ast.Name) and isinstance(e.slice, ast.Constant) and \
                type(e.slice.value) is int:
            raw = it.env.raw(e.value.id)      # a pair (function list, provides list) built by a loop: see for_model
            if isinstance(raw, tuple) and 0 <= e.slice.value < len(raw):
                return it.env.get(e.value.id)[e.slice.value]
            return None
        if isinstance(e, ast.Call):
            cn = call_name(e)
            if cn == 'zip' and len(e.args) == 1 and isinstance(e.args[0], ast.Starred) and not e.keywords:
                pv = phase_val(it.try_eval(e.args[0].value))
                if pv is not None and pv[0] == 'sigs':
                    d = pv[2]
                    return (Opaque(e, ('funcs', d['func'], d.get('key', id(d['node'])))), Opaque(e, ('provs', PROVS_PHASE.get(d['prov']), d.get('key', id(d['node'])))))
                raise Unmodelled('zip(*%s): not a list of (function, provides) pairs of the middlewares' % norm(e.args[0].value))
            if cn in ('sorted', 'reversed', 'set', 'frozenset') and e.args:
                pv = phase_val(it.try_eval(e.args[0]))
                if pv is not None:
                    pv[2]['reordered'] = cn
                    return Opaque(e, (pv[0], pv[1], pv[2].get('key', id(pv[2]['node']))))
            if cn == 'make_chain':
                a = [argn(e, n, i) for i, n in enumerate(('funcs', 'provides', 'final_func', 'preprovided', 'inner_name'))]
                if None in a:
                    raise Unmodelled('make_chain call with missing arguments: %s' % norm(e))
                fv, pv = phase_val(it.try_eval(a[0])), phase_val(it.try_eval(a[1]))
                if fv is None or fv[0] != 'funcs' or fv[1] not in PHASES:
                    raise Unmodelled('make_chain call with unknown function list %s' % norm(a[0]))
                ph = fv[1]
                note(fv[2], 'funcs', ph)
                if pv is not None and pv[0] == 'provs':
                    note(pv[2], 'provs', pv[1])
                avail = it.as_set(it.eval(a[3]), a[3])
                calls[ph] = {'call': e, 'avail': avail, 'provs_phase': pv[1] if pv is not None and pv[0] == 'provs' else None,
                             'final': norm(a[2]), 'final_node': a[2], 'inner': a[4], 'funcs': fv, 'provs': pv}
                aa = uni[args_atom[ph]] if ph in args_atom else 0
                return (Opaque(e, 'chain:' + ph), aa, Opaque(e, 'unres:' + ph))
            if cn == '_create_request_inner':
                a = [argn(e, n, i) for i, n in enumerate(('endpoint', 'render', 'all_args', 'endpoint_args', 'render_args'))]
                inner['call'] = e
                inner['args'] = [it.try_eval(x) for x in a if x is not None]
                return Opaque(e, 'req_inner')
            if cn == 'get_arg_names':
                return Opaque(e, 'names')
            # flatten of a provides list:  set(chain.from_iterable(X)) / set(itertools.chain(*X))
            if cn in ('set', 'frozenset') and e.args and isinstance(e.args[0], (ast.ListComp, ast.GeneratorExp, ast.SetComp)):
                r = flatten_comp(it, e.args[0])
                if r is not None:
                    return r
            # flatten of a provides list through the union method:  <set>.union(*X)  (the receiver's names plus every name of
            # every provides tuple of X; further plain arguments are sets joined in)
            if isinstance(e.func, ast.Attribute) and e.func.attr == 'union' and not e.keywords and \
                    any(isinstance(a_, ast.Starred) for a_ in e.args):
                stars = [phase_val(it.try_eval(a_.value)) for a_ in e.args if isinstance(a_, ast.Starred)]
                if all(pv is not None and pv[0] == 'provs' and pv[1] in provs_atom for pv in stars):
                    m = it.as_set(it.eval(e.func.value), e.func.value)
                    for a_ in e.args:
                        if not isinstance(a_, ast.Starred):
                            m |= it.as_set(it.eval(a_), a_)
                    for pv in stars:
                        note(pv[2], 'provs', pv[1])
                        m |= uni[provs_atom[pv[1]]]
                    return m
            if cn in ('set', 'frozenset') and e.args:
                for n in ast.walk(e.args[0]):
                    if isinstance(n, ast.Name) or (isinstance(n, ast.Subscript) and isinstance(n.value, ast.Name)):
                        pv = phase_val(it.try_eval(n))
                        if pv is not None and pv[0] == 'provs' and pv[1] in provs_atom:
                            note(pv[2], 'provs', pv[1])
                            return uni[provs_atom[pv[1]]]
        return None

    def flatten_comp(it, e):
        """``{name for provides in X for name in provides}`` over a provides list X -> its atom."""
        if len(e.generators) == 2 and all(isinstance(g.target, ast.Name) and not g.ifs for g in e.generators) and \
                isinstance(e.generators[1].iter, ast.Name) and e.generators[1].iter.id == e.generators[0].target.id and \
                isinstance(e.elt, ast.Name) and e.elt.id == e.generators[1].target.id:
            pv = phase_val(it.try_eval(e.generators[0].iter))
            if pv is not None and pv[0] == 'provs' and pv[1] in provs_atom:
                note(pv[2], 'provs', pv[1])
                return uni[provs_atom[pv[1]]]
        return None

    def model_comp(it, e):
        if isinstance(e, (ast.SetComp, ast.ListComp, ast.GeneratorExp)):
            return flatten_comp(it, e)
        return None

    def _is_empty_list(v):
        return (isinstance(v, ast.List) and not v.elts) or (isinstance(v, ast.Call) and call_name(v) == 'list' and not v.args and not v.keywords)

    def _bound_part(target, value, name):
        """The part of ``value`` that the assignment ``target = value`` binds to the local ``name`` (displays are taken apart
        position by position)."""
        if isinstance(target, ast.Name):
            return value if target.id == name else None
        if isinstance(target, (ast.Tuple, ast.List)) and isinstance(value, (ast.Tuple, ast.List)) and len(target.elts) == len(value.elts) and \
                not any(isinstance(x, ast.Starred) for x in list(target.elts) + list(value.elts)):
            for t_, v_ in zip(target.elts, value.elts):
                r = _bound_part(t_, v_, name)
                if r is not None:
                    return r
        return None

    def reaching_value(name, before):
        """The expression the local ``name`` holds when the top-level statement ``before`` of the function starts: bound by the
        closest preceding top-level statement that mentions the name at all (so nothing re-binds, mutates or aliases it in
        between)."""
        body = fi.node.body
        idx = [i for i, s_ in enumerate(body) if s_ is before]
        if not idx:
            return None
        for s_ in reversed(body[:idx[0]]):
            if not any(isinstance(n, ast.Name) and n.id == name for n in ast.walk(s_)):
                continue
            if isinstance(s_, ast.Assign) and len(s_.targets) == 1:
                return _bound_part(s_.targets[0], s_.value, name)
            return None
        return None

    def empty_list_local(name):
        """``name`` is bound exactly once in the function, to an empty list (possibly in ``a, b = [], []``)."""
        b = assigned_value(fi.node, name)
        if len(b) != 1:
            return False
        st_, v, idx = b[0]
        if idx is not None and isinstance(v, (ast.Tuple, ast.List)) and isinstance(idx, int) and idx < len(v.elts):
            v = v.elts[idx]
        elif idx is not None:
            return False
        return _is_empty_list(v)

    def empty_list_at(target, loop):
        """The list the loop appends to -- a local, or one side ``pair[k]`` of a local tuple of lists -- is a fresh empty list when
        the loop starts.  -> (base name, index or None, arity of the tuple or None), or None."""
        if isinstance(target, ast.Name):
            v = reaching_value(target.id, loop)
            if (v is not None and _is_empty_list(v)) or (v is None and empty_list_local(target.id)):
                return target.id, None, None
            return None
        if isinstance(target, ast.Subscript) and isinstance(target.value, ast.Name) and isinstance(target.slice, ast.Constant) and \
                type(target.slice.value) is int:
            v = reaching_value(target.value.id, loop)
            k = target.slice.value
            if isinstance(v, ast.Tuple) and 0 <= k < len(v.elts) and all(_is_empty_list(x) for x in v.elts):
                return target.value.id, k, len(v.elts)
        return None

    def for_model(it, st):
        """Loop forms: (1) ``for mw in middlewares: if mw.request: funcs.append(mw.request); provs.append(mw.provides)``
        builds phase lists -- the slot may be read into a loop-local first (``func = mw.request``), a middleware without the
        slot may be skipped by ``if not func: continue``, the lists may be the two sides of a local pair (``sig[0].append``);
        (2) ``for p in req_provides: names.update(p)`` flattens a provides list."""
        if not isinstance(st.target, ast.Name) or st.orelse:
            return False
        var = st.target.id
        pv = phase_val(it.try_eval(st.iter))
        if pv is not None and pv[0] == 'provs' and pv[1] in provs_atom:
            if len(st.body) == 1:
                b = st.body[0]
                tgt = arg = None
                if isinstance(b, ast.Expr) and isinstance(b.value, ast.Call) and isinstance(b.value.func, ast.Attribute) and \
                        b.value.func.attr == 'update' and isinstance(b.value.func.value, ast.Name) and len(b.value.args) == 1:
                    tgt, arg = b.value.func.value.id, b.value.args[0]
                elif isinstance(b, ast.AugAssign) and isinstance(b.op, ast.BitOr) and isinstance(b.target, ast.Name):
                    tgt, arg = b.target.id, b.value
                while isinstance(arg, ast.Call) and call_name(arg) in ('set', 'frozenset', 'list', 'tuple') and len(arg.args) == 1:
                    arg = arg.args[0]
                cur = it.env.raw(tgt) if tgt is not None else None
                if isinstance(arg, ast.Name) and arg.id == var and hasattr(cur, 'm'):
                    note(pv[2], 'provs', pv[1])
                    cur.m |= uni[provs_atom[pv[1]]]        # in place: every alias of the set sees it
                    return True
            raise Unmodelled('loop over the %s provides list does more than collect its names' % pv[1])
        if norm(st.iter) != ps[0] and not (isinstance(st.iter, ast.Call) and call_name(st.iter) in ('list', 'tuple', 'iter') and
                                           len(st.iter.args) == 1 and norm(st.iter.args[0]) == ps[0]):
            return False
        found = []
        alias = {}        # loop-local name -> the attribute read of the middleware it stands for in this iteration
        res = resolver(it)
        stores_in_loop = [n.id for b_ in st.body for n in ast.walk(b_) if isinstance(n, ast.Name) and isinstance(n.ctx, (ast.Store, ast.Del))]

        class _Sub(ast.NodeTransformer):
            def visit_Name(self, node):
                if isinstance(node.ctx, ast.Load) and node.id in alias:
                    return ast.copy_location(copy.deepcopy(alias[node.id]), node)
                return node

        def subst(x):
            return _Sub().visit(copy.deepcopy(x)) if alias else x

        def walk(body, cs, top):
            body = list(body)
            for i, b in enumerate(body):
                if isinstance(b, ast.If):
                    t, pol = _strip_not(subst(b.test))
                    if len(b.body) == 1 and isinstance(b.body[0], ast.Continue) and not b.orelse:
                        # ``if <no such slot>: continue``: what follows in this block runs for the others
                        walk(body[i + 1:], cs + [(t, not pol)], False)
                        return
                    walk(b.body, cs + [(t, pol)], False)
                    walk(b.orelse, cs + [(t, not pol)], False)
                elif isinstance(b, ast.Expr) and isinstance(b.value, ast.Call) and isinstance(b.value.func, ast.Attribute) and \
                        b.value.func.attr == 'append' and isinstance(b.value.func.value, (ast.Name, ast.Subscript)) and len(b.value.args) == 1 \
                        and not b.value.keywords:
                    found.append((norm(b.value.func.value), b.value.func.value, subst(b.value.args[0]), cs, b))
                elif isinstance(b, ast.Assign) and top and not cs and len(b.targets) == 1 and isinstance(b.targets[0], ast.Name) and \
                        b.targets[0].id != var and b.targets[0].id not in alias and stores_in_loop.count(b.targets[0].id) == 1 and \
                        _attr_read(b.value, var, res) is not None:
                    alias[b.targets[0].id] = b.value
                elif isinstance(b, ast.Pass):
                    continue
                else:
                    raise Unmodelled('statement %s in the loop over the middlewares' % norm(b)[:60])
        walk(st.body, [], True)
        if not found:
            return False
        pairs = {}
        for lname, target, val, cs, b in found:
            fake = ast.copy_location(ast.ListComp(elt=val, generators=[ast.comprehension(
                target=ast.Name(id=var, ctx=ast.Store()), iter=st.iter, ifs=[t if pol else ast.UnaryOp(op=ast.Not(), operand=t) for t, pol in cs],
                is_async=0)]), b)
            d = _phase_comp(fake, res)
            where = empty_list_at(target, st) if d is not None else None
            if d is None or where is None or sum(1 for f in found if f[0] == lname) != 1:
                raise Unmodelled('list %s built in the loop over the middlewares is not a phase list' % lname)
            d['node'] = st
            d['fake'] = fake
            d['key'] = id(fake)      # (a list built by a loop is registered under its stand-in comprehension)
            comps[id(fake)] = d
            phase = d['func'] if d['func'] is not None else PROVS_PHASE.get(d['prov'])
            val_ = Opaque(fake, (d['kind'], phase, id(fake)))
            base, k, arity = where
            if k is None:
                it.env[base] = val_
            else:
                pairs.setdefault(base, [Opaque(None, 'list not filled by the loop')] * arity)[k] = val_
        for base, vals in pairs.items():
            it.env[base] = tuple(vals)
        return True

    def if_model(it, st):
        """``if not sigs: funcs = (); provs = () / else: funcs, provs = zip(*sigs)``: the empty branch is the non-empty
        one specialised to the empty list."""
        t, pol = _strip_not(st.test)
        name = None
        for n in ast.walk(t):
            if isinstance(n, ast.Name) and phase_val(it.try_eval(n)) is not None:
                name = n.id
        if name is None:
            return False
        if _implies_empty(t, pol, name):
            empty, full = st.body, st.orelse
        elif _implies_empty(t, not pol, name):
            empty, full = st.orelse, st.body
        else:
            return False
        bound = []
        for s_ in empty:
            if isinstance(s_, ast.Pass):
                continue
            v = s_.value if isinstance(s_, ast.Assign) and len(s_.targets) == 1 and isinstance(s_.targets[0], ast.Name) else None
            if v is None or not ((isinstance(v, (ast.Tuple, ast.List)) and not v.elts) or
                                 (isinstance(v, ast.Call) and call_name(v) in ('tuple', 'list') and not v.args)):
                raise Unmodelled('the branch for an empty %s does more than bind empty sequences' % name)
            bound.append(s_.targets[0].id)
        it.exec_block(full)
        for b in bound:
            if phase_val(it.env.get(b)) is None:
                raise Unmodelled('%s is () when %s is empty but not a phase list otherwise' % (b, name))
        return True
    it = SetInterp(uni, env={ps[3]: uni['PRE']}, elems={"'next'": uni['NEXT'], "'context'": uni['CTX']}, model=model)
    it.if_model = if_model
    it.for_model = for_model
    it.fold = lambda e: repo.try_fold(e, fi.mod)
    for p in ps[:3]:
        it.env[p] = Opaque(None, p)
    try:
        it.exec_block([s for s in fi.node.body if not isinstance(s, ast.Return)])
    except Unmodelled as e:
        raise AnalysisError('make_middleware_chain outside the modelled subset: %s' % e)
    for ph in ('endpoint', 'render', 'request'):
        if ph not in calls:
            raise AnalysisError('make_middleware_chain: no make_chain call for the %s phase' % ph)
    # ---- pairing table (floor 3) and list order
    for ph in sorted(PHASES):
        fd, pd = comp_of_phase.get(('funcs', ph)), calls[ph]['provs'][2] if calls[ph]['provs'] else None
        if fd is None:
            raise AnalysisError('make_middleware_chain: function list of the %s phase not identified' % ph)
        got_prov = pd['prov'] if pd is not None else None
        want = PHASES[ph]
        ok = got_prov == want
        rep.check(rule_pair, fkey(fi, 'pairing mw.%s' % ph), ok,
                  'mw.%s is paired with mw.%s' % (ph, want) if ok else
                  'mw.%s functions are paired with mw.%s (expected mw.%s): provides of another phase are counted'
                  % (ph, got_prov, want), fi.mod, fd['node'])
        if rule_order:
            def in_order(d):
                itx = d['iter']
                while isinstance(itx, ast.Call) and call_name(itx) in ('list', 'tuple', 'iter') and len(itx.args) == 1:
                    itx = itx.args[0]
                flt = d.get('ifs_text') or [norm(c) for c in d['ifs']]
                return norm(itx) == ps[0] and flt == ['%s.%s' % (d['var'], ph)] and not d.get('reordered')
            ok = in_order(fd) and pd is not None and in_order(pd)
            rep.check(rule_order, fkey(fi, 'order of mw.%s' % ph), ok,
                      'the %s functions are taken from the middleware list in list order, filtered by presence only' % ph if ok else
                      'the %s function list is not the middleware list in order filtered by presence (iter %s, filters %s%s)'
                      % (ph, norm(fd['iter']), (fd if not in_order(fd) or pd is None else pd).get('ifs_text') or [norm(c) for c in fd['ifs']],
                         ', then %s()' % fd['reordered'] if fd.get('reordered') else ''),
                      fi.mod, fd['node'])
    # ---- availability sets by abstract interpretation
    base = uni['PRE'] & uni.neg(uni['NEXT']) & uni.neg(uni['CTX'])
    want = {'request': (base, '(preprovided - {next, context})'),
            'endpoint': (base | uni['REQP'], '(preprovided - {next, context}) | request-provides'),
            'render': (base | uni['REQP'] | uni['CTX'], '(preprovided - {next, context}) | request-provides | {context}')}
    for ph in ('endpoint', 'render', 'request'):
        c = calls[ph]
        w, text = want[ph]
        ok = c['avail'] == w
        rep.check(rule, fkey(fi, '%s availability' % ph), ok,
                  '%s phase may draw on exactly %s' % (ph, text) if ok else
                  '%s-phase availability differs from %s: %s' % (ph, text, uni.diff_witness(c['avail'], w)), fi.mod, c['call'])
        ok = c['provs_phase'] == ph
        rep.check(rule_pair, fkey(fi, '%s make_chain lists' % ph), ok, 'function and provides lists of the same phase' if ok else
                  'make_chain for %s functions gets the provides list of phase %s' % (ph, c['provs_phase']), fi.mod, c['call'])
        inn = repo.try_fold(c['inner'], fi.mod)
        ok = inn == 'next'
        rep.check(rule_pair, fkey(fi, '%s inner name' % ph), ok, "inner name is 'next'" if ok else 'inner name is %r' % inn, fi.mod, c['call'])
    ok = calls['endpoint']['final'] == ps[1] and calls['render']['final'] == ps[2]
    rep.check(rule_pair, fkey(fi, 'final functions'), ok, 'endpoint chain ends in endpoint, render chain in render' if ok else
              'final functions are %s / %s' % (calls['endpoint']['final'], calls['render']['final']), fi.mod, calls['endpoint']['call'])
    # ---- request core arguments
    if 'call' not in inner:
        raise AnalysisError('make_middleware_chain no longer calls _create_request_inner')
    ia = inner['args']
    rule_core_env = rule_core_env or rule
    ok = len(ia) == 5 and isinstance(ia[0], Opaque) and ia[0].tag == 'chain:endpoint' and isinstance(ia[1], Opaque) and ia[1].tag == 'chain:render'
    rep.check(rule_core_env, fkey(fi, 'request core chains'), ok,
              'process_request is built from (endpoint chain, render chain) in that order' if ok else
              '_create_request_inner does not receive (endpoint chain, render chain)', fi.mod, inner['call'])
    if len(ia) == 5:
        w_all = (uni['EPA'] | uni['RNA']) & uni.neg(uni['CTX'])
        ok = ia[2] == w_all
        rep.check(rule, fkey(fi, 'process_request args'), ok,
                  'process_request takes (endpoint args | render args) - {context}: context is produced inside, never demanded' if ok else
                  'process_request argument set differs from (ep_args | rn_args) - {context}: %s' %
                  (uni.diff_witness(ia[2], w_all) if isinstance(ia[2], int) else 'not a set'), fi.mod, inner['call'])
        ok = ia[3] == uni['EPA'] and ia[4] == uni['RNA']
        rep.check(rule, fkey(fi, 'core call args'), ok, 'endpoint is called with its chain args, render with its own' if ok else
                  'endpoint/render argument sets passed to the request core are swapped or altered', fi.mod, inner['call'])
    # request-phase final func is the request core
    rq = calls['request']
    v = it.try_eval(rq['final_node'])
    ok = isinstance(v, Opaque) and v.tag == 'req_inner'
    rep.check(rule_core_env, fkey(fi, 'request chain wraps core'), ok, 'request middlewares wrap process_request' if ok else
              'the request chain does not end in the process_request function', fi.mod, rq['call'])
    # return value
    rets = returns_of(fi)
    ok = len(rets) == 1 and isinstance(it.try_eval(rets[0].value), Opaque) and it.try_eval(rets[0].value).tag == 'chain:request'
    rep.check(rule_core_env, fkey(fi, 'returns request chain'), ok, 'the request chain is what is returned' if ok else
              'make_middleware_chain does not return the request-phase chain', fi.mod, rets[0] if rets else fi.node)
    # which sources' names reach which other phase (read off the availability sets just computed): the pairs of name spaces
    # that meet in one generated scope -- see check_conflict_namespaces
    plain = uni.neg(uni['NEXT']) & uni.neg(uni['CTX'])
    fw = []
    for src, atom in sorted(list(provs_atom.items()) + [('preprovided', 'PRE')]):
        for dst in sorted(calls):
            av = calls[dst]['avail']
            if src != dst and isinstance(av, int) and (uni[atom] & plain & uni.neg(av)) == 0:
                fw.append([src, dst])
    rep.extra['forwarded_phases'] = fw
    return calls


# ---------------------------------------------------------------------------------------------
# R01.b: unresolved => NameError
# ---------------------------------------------------------------------------------------------

def _single_value(fi, name):
    vals = [v for st, v, idx in assigned_value(fi.node, name) if idx is None and isinstance(st, ast.Assign)]
    alls = assigned_value(fi.node, name)
    return vals[0] if len(vals) == 1 and len(alls) == 1 else None


def _deref(fi, e, depth=3):
    """Follow single-assignment locals: the expression a name stands for."""
    for _ in range(depth):
        if isinstance(e, ast.Name):
            v = _single_value(fi, e.id)
            if v is None or e.id in fi.params():
                break
            e = v
        else:
            break
    return e


def _branches_resolved(fi, cfg):
    """Branch nodes as (node id, test, polarity) with leading nots stripped and a test that is a single-assignment local
    naming a condition replaced by that condition."""
    out = []
    for nid, t, p in cfg.branches():
        for _ in range(3):
            if isinstance(t, ast.Name):
                v = _single_value(fi, t.id)
                if v is not None and isinstance(v, (ast.Compare, ast.UnaryOp, ast.Call, ast.BoolOp)):
                    t, p = _strip_not(v, p)
                    continue
            break
        out.append((nid, t, p))
    return out


def _always_raises(cfg, srcs, exc):
    """From the nodes ``srcs`` every normal path ends in ``raise <exc>`` (the function's exit is not reachable)."""
    r = cfg.reach(srcs, normal_only=True)
    if cfg.exit in r:
        return False, 'escapes'
    rz = [cfg.nodes[n].stmt for n in r if n in cfg.raise_nodes]
    types = set(raise_type(x) for x in rz)
    if types != {exc}:
        return False, 'type %s' % sorted(str(t) for t in types)
    return True, ''


# ---------------------------------------------------------------------------------------------
# "the raise of the documented exception cannot itself fail": shapes of formatting operands
# ---------------------------------------------------------------------------------------------

_SHAPE_CALLS = {'list': 'list', 'sorted': 'list', 'set': 'set', 'frozenset': 'set', 'dict': 'dict', 'str': 'str', 'repr': 'str',
                'format': 'str', 'len': 'num', 'int': 'num', 'float': 'num', 'bool': 'bool', 'id': 'num', 'sum': 'num'}
_STR_METHODS = {'join', 'format', 'strip', 'lstrip', 'rstrip', 'lower', 'upper', 'title', 'replace', 'capitalize', 'format_map'}
_CONST_SHAPES = ((bool, 'bool'), (str, 'str'), (bytes, 'bytes'), (int, 'num'), (float, 'num'), (type(None), 'none'))


def shape_of(repo, fi, e, depth=0):
    """Abstract run-time shape of the value of expression ``e`` in function ``fi``: (kind, length) with kind one of
    tuple / list / set / dict / str / bytes / num / bool / none / gen / nontuple (some value that supports a set operator,
    hence no tuple), or None when the source does not determine it.  ``length`` is known for tuple displays only.
    Single-assignment locals are followed, and so is a local bound by unpacking the tuple a resolvable function of the
    package returns (every return of the callee must agree).  Nothing is evaluated: a finite abstract domain over the tree."""
    if depth > 6 or e is None:
        return None
    if isinstance(e, ast.Constant):
        for ty, k in _CONST_SHAPES:
            if isinstance(e.value, ty):
                return (k, None)
        return None
    if isinstance(e, ast.Tuple):
        return ('tuple', None if any(isinstance(x, ast.Starred) for x in e.elts) else len(e.elts))
    if isinstance(e, (ast.List, ast.ListComp)):
        return ('list', None)
    if isinstance(e, (ast.Set, ast.SetComp)):
        return ('set', None)
    if isinstance(e, (ast.Dict, ast.DictComp)):
        return ('dict', None)
    if isinstance(e, ast.GeneratorExp):
        return ('gen', None)
    if isinstance(e, ast.JoinedStr):
        return ('str', None)
    if isinstance(e, ast.IfExp):
        a, b = shape_of(repo, fi, e.body, depth + 1), shape_of(repo, fi, e.orelse, depth + 1)
        if a is None or b is None or a[0] != b[0]:
            return None
        return a if a == b else (a[0], None)
    if isinstance(e, ast.Call):
        if isinstance(e.func, ast.Name):
            cn = e.func.id
            if cn == 'tuple' and not e.keywords:
                if not e.args:
                    return ('tuple', 0)
                inner = shape_of(repo, fi, e.args[0], depth + 1) if len(e.args) == 1 else None
                return ('tuple', inner[1] if inner and inner[0] == 'tuple' else None)
            if cn in _SHAPE_CALLS:
                return (_SHAPE_CALLS[cn], None)
        if isinstance(e.func, ast.Attribute) and e.func.attr in _STR_METHODS:
            recv = shape_of(repo, fi, e.func.value, depth + 1)
            if recv and recv[0] == 'str':
                return ('str', None)
        return None
    if isinstance(e, ast.BinOp):
        l, r = shape_of(repo, fi, e.left, depth + 1), shape_of(repo, fi, e.right, depth + 1)
        if isinstance(e.op, ast.Mod) and l and l[0] == 'str':
            return ('str', None)
        if isinstance(e.op, ast.Add) and l and r and l[0] == r[0]:
            return (l[0], l[1] + r[1] if l[0] == 'tuple' and l[1] is not None and r[1] is not None else None)
        if isinstance(e.op, (ast.Sub, ast.BitOr, ast.BitAnd, ast.BitXor)):
            for s in (l, r):
                if s and s[0] == 'set':
                    return ('set', None)
            return ('nontuple', None)      # tuples support none of these operators
        return None
    if isinstance(e, ast.Name):
        if fi is None:
            return None
        vals = assigned_value(fi.node, e.id)
        if not vals:
            if e.id in fi.params():
                return None
            try:
                v = repo.try_fold(e, fi.mod)
            except Exception:
                v = None
            for ty, k in _CONST_SHAPES + ((tuple, 'tuple'), (list, 'list'), (set, 'set'), (frozenset, 'set'), (dict, 'dict')):
                if v is not None and isinstance(v, ty):
                    return (k, len(v) if k == 'tuple' else None)
            return None
        if e.id in fi.params():
            return None
        shapes = []
        for st, v, idx in vals:
            if idx is None and isinstance(st, (ast.Assign, ast.AnnAssign)):
                shapes.append(shape_of(repo, fi, v, depth + 1))
            elif isinstance(idx, int) and isinstance(st, ast.Assign):
                shapes.append(_unpacked_shape(repo, fi, v, idx, depth + 1))
            else:
                shapes.append(None)
        if all(s is not None for s in shapes) and len(set(s[0] for s in shapes)) == 1:
            return shapes[0] if len(set(shapes)) == 1 else (shapes[0][0], None)
        return None
    return None


def _unpacked_shape(repo, fi, v, idx, depth):
    """Shape of position ``idx`` of the value ``v`` a tuple target is unpacked from."""
    if isinstance(v, (ast.Tuple, ast.List)) and not any(isinstance(x, ast.Starred) for x in v.elts) and idx < len(v.elts):
        return shape_of(repo, fi, v.elts[idx], depth)
    if isinstance(v, ast.Call) and isinstance(v.func, ast.Name):
        try:
            kind, cmod, callee = repo.resolve(fi.mod, v.func.id)
        except Exception:
            return None
        if kind != 'func':
            return None
        rets = returns_of(callee)
        shapes = []
        for r in rets:
            rv = _deref(callee, r.value) if r.value is not None else None
            if not (isinstance(rv, ast.Tuple) and not any(isinstance(x, ast.Starred) for x in rv.elts) and idx < len(rv.elts)):
                return None
            shapes.append(shape_of(repo, callee, rv.elts[idx], depth))
        if shapes and all(s is not None for s in shapes) and len(set(s[0] for s in shapes)) == 1:
            return shapes[0] if len(set(shapes)) == 1 else (shapes[0][0], None)
    return None


_PCT_SPEC = None


def percent_arity(fmt):
    """(number of values a ``%`` format string consumes, uses mapping keys?) -- None when the text is malformed."""
    global _PCT_SPEC
    import re
    if _PCT_SPEC is None:
        _PCT_SPEC = re.compile(r'%(?:\((?P<key>[^)]*)\))?[#0\- +]*(?P<w>\*|\d+)?(?:\.(?P<p>\*|\d+))?[hlL]?(?P<c>.)?', re.S)
    n, keyed = 0, False
    for m in _PCT_SPEC.finditer(fmt):
        c = m.group('c')
        if c is None or c not in 'diouxXeEfFgGcrsa%':
            return None
        if c == '%':
            continue
        if m.group('key') is not None:
            keyed = True
            continue
        n += 1 + (m.group('w') == '*') + (m.group('p') == '*')
    return n, keyed


def message_faults(repo, fi, expr):
    """Ways in which evaluating the message expression ``expr`` can itself raise, as far as the tree decides it:
    ``fmt % operand`` whose operand is a tuple of the wrong or of run-time length (or a non-tuple when the format takes
    another number of values than one), ``fmt.format(...)`` that lacks a positional / named field, ``str + <non-str>``.
    -> (faults as texts, number of formatting operations that were judged)."""
    faults, judged = [], 0
    for n in ast.walk(expr):
        if isinstance(n, ast.BinOp) and isinstance(n.op, ast.Mod):
            try:
                fmt = repo.try_fold(n.left, fi.mod)
            except Exception:
                fmt = None
            if not isinstance(fmt, str):
                continue
            ar = percent_arity(fmt)
            if ar is None:
                continue
            k, keyed = ar
            sh = shape_of(repo, fi, n.right)
            if sh is None:
                continue
            judged += 1
            if keyed:
                if sh[0] != 'dict':
                    faults.append('%s: a format with mapping keys needs a mapping, the operand is a %s' % (short(n, 70), sh[0]))
                continue
            if sh[0] == 'tuple':
                if sh[1] is None:
                    faults.append('the right operand of %% in %s is a tuple whose length is only known at run time: %% spreads it over '
                                  'the %d conversion(s) of the format and raises TypeError unless it has exactly %d element(s) '
                                  '(wrap it: (x,) or list(x))' % (short(n, 70), k, k))
                elif sh[1] != k:
                    faults.append('%s: the format takes %d value(s), the tuple has %d' % (short(n, 70), k, sh[1]))
            elif k != 1 and not (sh[0] == 'dict' and k == 0):
                faults.append('%s: the format takes %d value(s), the operand is a single %s' % (short(n, 70), k, sh[0]))
        elif isinstance(n, ast.BinOp) and isinstance(n.op, ast.Add):
            l, r = shape_of(repo, fi, n.left), shape_of(repo, fi, n.right)
            if l and r and (l[0] == 'str') != (r[0] == 'str') and 'nontuple' not in (l[0], r[0]):
                judged += 1
                faults.append('%s concatenates a str with a %s (TypeError)' % (short(n, 70), r[0] if l[0] == 'str' else l[0]))
        elif isinstance(n, ast.Call) and isinstance(n.func, ast.Attribute) and n.func.attr == 'format' and \
                not any(isinstance(a, ast.Starred) for a in n.args) and not any(k.arg is None for k in n.keywords):
            try:
                fmt = repo.try_fold(n.func.value, fi.mod)
            except Exception:
                fmt = None
            if not isinstance(fmt, str):
                continue
            import string
            try:
                fields = [f for _, f, _, _ in string.Formatter().parse(fmt) if f is not None]
            except ValueError:
                continue
            judged += 1
            auto = 0
            for f in fields:
                head = f.replace('[', '.').split('.')[0]
                if head == '':
                    idx, auto = auto, auto + 1
                elif head.isdigit():
                    idx = int(head)
                else:
                    if head not in [k.arg for k in n.keywords]:
                        faults.append('%s: field {%s} has no keyword argument (KeyError)' % (short(n, 70), head))
                    continue
                if idx >= len(n.args):
                    faults.append('%s: field {%s} has no positional argument (IndexError)' % (short(n, 70), f or idx))
    return faults, judged


def check_raise_total(rep, rule, fi, raises, what):
    """The documented rejection must surface as the documented exception: building its message may not raise another one."""
    repo = rep.repo
    faults, judged = [], 0
    first = None
    for r in raises:
        if r.exc is None:
            continue
        f, j = message_faults(repo, fi, r.exc)
        if f and first is None:
            first = r
        faults.extend(f)
        judged += j
    if not judged:
        return
    ok = not faults
    rep.check(rule, fkey(fi, 'message of ' + what), ok,
              'building the message of %s cannot fail: every format gets the number of values it takes (%d formatting operation(s))'
              % (what, judged) if ok else
              '%s is not what the caller gets -- building its message raises first: %s' % (what, '; '.join(faults)),
              fi.mod, first if first is not None else (raises[0] if raises else fi.node))


def check_unresolved_raises(rep, rule):
    repo = rep.repo
    core = repo.mod(CORE)
    fi = core.func('make_middleware_chain')
    cfg = cfg_of(fi)
    branches = _branches_resolved(fi, cfg)
    check_raise_total(rep, rule, fi, [r for r in raises_of(fi) if raise_type(r) == 'NameError'], 'the NameError for unresolved / misplaced arguments')
    n = 0
    for st in stmts_of(fi.node):
        if isinstance(st, ast.Assign) and isinstance(st.value, ast.Call) and call_name(st.value) == 'make_chain':
            n += 1
            t = st.targets[0]
            if not (isinstance(t, ast.Tuple) and len(t.elts) == 3 and isinstance(t.elts[2], ast.Name)):
                rep.fail(rule, fkey(fi, st.value), 'the unresolved set returned by make_chain is not bound to a name (dropped)', core, st)
                continue
            u = t.elts[2].id
            forms = [u] + ['%s(%s)' % (w, u) for w in ('list', 'tuple', 'sorted', 'set', 'frozenset')]   # same emptiness

            def about_u(tt, pol, _):
                return any(_implies_empty(tt, pol, f) for f in forms)
            # (the name may be re-used for the next phase: only tests that see *this* binding count)
            def binds_u(s2):
                tg = s2.targets if isinstance(s2, ast.Assign) else ([s2.target] if isinstance(s2, (ast.AugAssign, ast.AnnAssign, ast.For)) else [])
                if isinstance(s2, ast.Assign) and len(tg) == 1 and isinstance(tg[0], ast.Name) and tg[0].id == u and norm(s2.value) in forms:
                    return False        # u = sorted(u): the same names under the same local
                return any(isinstance(n_, ast.Name) and n_.id == u for t_ in tg for n_ in ast.walk(t_))
            rebinds = [s2 for s2 in stmts_of(fi.node) if s2 is not st and binds_u(s2)]
            live = cfg.reach(cfg.nodes_of(st), avoid=cfg.nodes_of_all(rebinds))
            tb = [nid for nid, tt, p in branches if nid in live and about_u(tt, not p, True)]      # the set is non-empty on this branch
            eb = [nid for nid, tt, p in branches if nid in live and about_u(tt, p, True)]          # the set is empty on this branch
            ok = False
            why = 'the unresolved set %s is never tested' % u
            if tb:
                raises, how = _always_raises(cfg, tb, 'NameError')
                dom = cfg.must_pass(eb, cfg.nodes_of(st), cfg.exit, normal_only=True)
                if raises and dom:
                    ok = True
                elif how == 'escapes':
                    why = 'a non-empty %s does not always raise' % u
                elif not raises:
                    why = 'unresolved arguments raise %s instead of NameError' % how[5:]
                else:
                    why = 'the test of %s can be bypassed' % u
            a0 = argn(st.value, 'funcs', 0)
            rep.check(rule, fkey(fi, 'unresolved of ' + norm(a0)), ok,
                      'non-empty %s => raise NameError on every path to the return' % u if ok else why, core, st)
    if n < 3:
        raise AnalysisError('make_middleware_chain: %d make_chain calls (floor 3)' % n)
    # the set that is tested is computed on every path: a phase that is given its chain some other way than through make_chain
    # (a fast path for "no middleware in this phase") and binds the *constant* empty set reports nothing, whatever the final
    # function requires
    tested = set()
    for st in stmts_of(fi.node):
        if isinstance(st, ast.Assign) and isinstance(st.value, ast.Call) and call_name(st.value) == 'make_chain' and \
                isinstance(st.targets[0], ast.Tuple) and len(st.targets[0].elts) == 3 and isinstance(st.targets[0].elts[2], ast.Name):
            tested.add(st.targets[0].elts[2].id)
    for u in sorted(tested):
        for st_, v, idx in assigned_value(fi.node, u):
            if isinstance(idx, int) and isinstance(v, (ast.Tuple, ast.List)) and idx < len(v.elts):
                v = v.elts[idx]
            elif idx is not None:
                continue
            if not isinstance(v, ast.expr):
                continue
            const_empty = (isinstance(v, (ast.Tuple, ast.List, ast.Set, ast.Dict)) and not getattr(v, 'elts', getattr(v, 'keys', None))) or \
                (isinstance(v, ast.Call) and call_name(v) in ('set', 'frozenset', 'tuple', 'list') and not v.args and not v.keywords) or \
                (isinstance(v, ast.Constant) and not v.value)
            if const_empty:
                rep.fail(rule, fkey(fi, 'unresolved set %s is computed' % u),
                         'on a path that does not go through make_chain the unresolved set %s is the constant %s: whatever the final function '
                         'of that phase requires -- e.g. "context" outside the render phase, which the request phase never sees -- is not '
                         'reported at construction' % (u, short(v, 30)), core, st_)
    # 'next' must not be taken by endpoint / render
    ps = fi.params()
    for who in (ps[1], ps[2]):
        def names_of_who(x):
            """x evaluates to all the parameter names of ``who``."""
            if isinstance(x, ast.Name):
                v = _single_value(fi, x.id)
                return v is not None and names_of_who(v)
            if isinstance(x, ast.Call) and call_name(x) in ('set', 'list', 'tuple', 'frozenset', 'sorted') and len(x.args) == 1:
                return names_of_who(x.args[0])
            if not (isinstance(x, ast.Call) and call_name(x) == 'get_arg_names' and x.args and norm(x.args[0]) == who):
                return False
            only = argn(x, 'only_required', 1)
            return only is None or (isinstance(only, ast.Constant) and not only.value)
        tb, fb = [], []
        for nid, tt, p in branches:
            if isinstance(tt, ast.Compare) and len(tt.ops) == 1 and isinstance(tt.ops[0], (ast.In, ast.NotIn)) and \
                    repo.try_fold(tt.left, fi.mod) == 'next' and names_of_who(tt.comparators[0]):
                takes = p if isinstance(tt.ops[0], ast.In) else not p
                (tb if takes else fb).append(nid)
        ok = bool(tb) and _always_raises(cfg, tb, 'NameError')[0] and cfg.must_pass(fb, cfg.entry, cfg.exit, normal_only=True)
        rep.check(rule, fkey(fi, "'next' in %s" % who), ok, "%s taking 'next' raises NameError at bind time" % who if ok else
                  "%s may declare 'next' without a NameError at bind time" % who, core, fi.node)


# ---------------------------------------------------------------------------------------------
# R02.a/b, R03.a/b, R01.f(recursion): the generated level (build_chain_str)
# ---------------------------------------------------------------------------------------------

def _implies_empty(t, pol, name):
    """Does the path condition (t, pol) say that the sequence ``name`` is empty?"""
    n = norm(t)
    if n == name or n in ('len(%s)' % name, 'bool(%s)' % name):
        return pol is False
    if isinstance(t, ast.Compare) and len(t.ops) == 1:
        l, r, op = norm(t.left), norm(t.comparators[0]), t.ops[0]
        if l == 'len(%s)' % name and r == '0':
            return (isinstance(op, ast.Eq) and pol is True) or (isinstance(op, (ast.NotEq, ast.Gt)) and pol is False)
        if l == 'len(%s)' % name and r == '1':
            return (isinstance(op, ast.Lt) and pol is True) or (isinstance(op, ast.GtE) and pol is False)
        if l == name and r in ('[]', '()'):
            return (isinstance(op, ast.Eq) and pol is True) or (isinstance(op, ast.NotEq) and pol is False)
    return False


def analyse_level_template(repo):
    """Symbolic run of build_chain_str: (fi, evaluator, parts of the template return, stopping return, main return)."""
    sinter = repo.mod(SINTER)
    fi = sinter.func('build_chain_str')
    te = TemplateEval(repo, fi).run()
    mr = te.main_return()
    stops = [r for st, t, rets in te.guards for r in rets]
    empty = [r for r in stops if isinstance(r[1], codegen.Tmpl) and ''.join(p for p in r[1].parts if isinstance(p, str)) == ''
             and all(isinstance(p, str) for p in r[1].parts)]
    if mr is None or not isinstance(mr[1], codegen.Tmpl) or len(stops) != 1 or len(empty) != 1:
        raise AnalysisError('build_chain_str: expected one stopping return (the empty string) and one template return')
    return fi, te, mr[1].parts, empty[0][0], mr[0]


def _render_level(repo, fi, parts, level):
    indent = fi.mod.const('_INDENT')       # (in the module the generator lives in now)
    level_param = 'level' if 'level' in fi.params() else None
    r = codegen.render(parts, level_param=level_param, level_value=level)
    rec_text = indent * (level + 1) + 'def __REC__():\n' + indent * (level + 2) + 'pass\n'
    text = r.text.replace(codegen.REC_MARK, rec_text)
    return r, text


def check_generated_level(rep, r_kw, r_decl, r_tail, r_index, r_rec):
    """r_kw: keyword identity (R02.a); r_decl: declared-only / in-scope filter (R02.b);
    r_tail: pure tail call shape (R03.a); r_index: level/index agreement (R03.b); r_rec: recursion (R01.f)."""
    repo = rep.repo
    fi, te, parts, stop, main = analyse_level_template(repo)
    sinter = fi.mod        # the module the generator lives in now
    ps = fi.params()
    key = lambda w: fkey(fi, w)
    # stopping case
    cs = conds(fi, stop)
    ok = any(_implies_empty(t, p, ps[0]) for t, p in cs)
    rep.check(r_rec, key('stopping case'), ok, "returns '' exactly when no functions are left" if ok else
              'the empty-string return is not guarded by "not %s"' % ps[0], sinter, stop)
    opaque = [p_ for p_ in codegen.flatten_syms(parts) if p_.kind == 'expr']
    if opaque:
        raise AnalysisError('build_chain_str: the level template has parts the evaluator cannot follow: %s'
                            % [norm(p_.expr)[:60] for p_ in opaque[:3]])
    trees = {}
    for level in (0, 2):
        try:
            r, text = _render_level(repo, fi, parts, level)
            tree = ast.parse(textwrap.dedent(text))
            trees[level] = (r, text, tree)
        except SyntaxError as e:
            rep.fail(r_index, key('generated text parses at level %d' % level),
                     'the text generated for level %d is not valid Python (indentation/level mismatch?): %s' % (level, e), sinter, main)
        except AnalysisError as e:
            raise AnalysisError('build_chain_str template: %s' % e)
    if 0 not in trees:
        return
    r, text, tree = trees[0]
    rep.extra['generated_level_sample'] = text
    # ---- shape (R03.a)
    body = tree.body
    shape_ok = len(body) == 1 and isinstance(body[0], ast.FunctionDef)
    fdef = body[0] if shape_ok else None
    detail = ''
    if shape_ok:
        inner = fdef.body
        kinds = [type(s).__name__ for s in inner]
        rec_defs = [s for s in inner if isinstance(s, ast.FunctionDef) and s.name == '__REC__']
        rets = [s for s in inner if isinstance(s, ast.Return)]
        others = [s for s in inner if s not in rec_defs and s not in rets and not
                  (isinstance(s, ast.Assign) and norm(s.targets[0]) == '__traceback_hide__')]
        shape_ok = len(rec_defs) == 1 and len(rets) == 1 and not others and inner[-1] is rets[0] and \
            inner.index(rec_defs[0]) < inner.index(rets[0])
        detail = 'statement kinds %s' % kinds
        if shape_ok:
            call = rets[0].value
            shape_ok = isinstance(call, ast.Call) and isinstance(call.func, ast.Subscript) and norm(call.func.value) == 'funcs'
            detail = 'return value %s' % short(rets[0].value)
    rep.check(r_tail, key('level shape'), shape_ok,
              'each level is: def <inner>(...): <inner levels>; __traceback_hide__; return funcs[L](...) -- the inner def precedes '
              'the call, nothing follows it, the result is returned unmodified (no try, no post-processing)' if shape_ok else
              'generated level is not a pure tail call around the nested definition (%s)' % detail, sinter, main)
    if not shape_ok:
        return
    call = rets[0].value
    # def name is the inner name; so "next" handed to funcs[L] is the level L+1 function
    nm = r.holes.get(fdef.name)
    ok = isinstance(nm, Sym) and nm.kind == 'param' and nm.name == ps[2]
    rep.check(r_tail, key('def name'), ok, 'every level defines the function under the inner name (%s)' % ps[2] if ok else
              'generated def is not named by %s' % ps[2], sinter, main)
    # def parameters = join over params[0]
    a = fdef.args
    argn = [x.arg for x in a.args]
    js = [r.holes.get(x) for x in argn]
    ok = len(argn) == 2 and not a.defaults and not a.kwonlyargs and a.vararg is None and a.kwarg is None and \
        all(isinstance(j, Sym) and j.kind == 'join' and norm(j.iter) == '%s[0]' % ps[1] and j.elt is None and not j.filters
            and not getattr(j, 'order_ops', None) for j in js)
    rep.check(r_rec, key('def parameters'), ok, 'level parameters are exactly %s[0], in that order' % ps[1] if ok else
              'generated def parameters are not the join of %s[0] in its own order (the enclosing middleware passes them to next() '
              'positionally)' % ps[1], sinter, main)
    # ---- keyword identity (R02.a)
    kw_ok = not call.args and all(k.arg is not None and isinstance(k.value, ast.Name) and k.arg == k.value.id for k in call.keywords) \
        and len(call.keywords) >= 1
    rep.check(r_kw, key('keyword identity'), kw_ok,
              'every emitted argument is NAME=NAME from the same element; no positional argument (so set ordering / hash seed cannot cross-wire)' if kw_ok else
              'generated call passes positional or cross-wired arguments: %s' % short(call), sinter, main)
    # ---- source of emitted names and filter (R02.b)
    joins = [s for s in codegen.flatten_syms(parts) if s.kind == 'join' and s.elt is not None]
    callj = [j for j in joins if any(isinstance(p, Elem) for p in j.elt)]
    if len(callj) != 1:
        raise AnalysisError('build_chain_str: could not identify the emitted-argument join')
    j = callj[0]
    base_text = j.base[0]
    ok = base_text.startswith('get_fb(%s[0])' % ps[0])
    rep.check(r_decl, key('argument source'), ok,
              'emitted names iterate the callee\'s own signature: %s' % base_text if ok else
              'emitted argument names do not come from the signature of %s[0] (the function being called): %s' % (ps[0], base_text),
              sinter, main)
    flt = [f for f in j.filters if f[0] == 'in' and f[2] == 'params_sofar' and isinstance(f[1], Elem)
           and f[1].base_text == base_text]
    ok = len(flt) == 1 and len(j.filters) == 1
    rep.check(r_decl, key('in-scope filter'), ok,
              'a declared name is passed only if it is in params_sofar (in scope at this level)' if ok else
              'emitted arguments are not filtered by membership in params_sofar: %r' % [f[2] for f in j.filters], sinter, main)
    # params_sofar discipline: decided on the execution trace of the symbolic run (scope-set updates, evaluations of the
    # membership filter, recursive call -- in the order in which the builder performs them)
    evs = te.events
    scope = 'params_sofar'
    flt_nodes = set(id(f[3]) for f in flt)
    i_upd = [i for i, e in enumerate(evs) if e['kind'] == 'update' and e['target'] == scope and e['arg'] == '%s[0]' % ps[1]]
    i_other = [i for i, e in enumerate(evs) if e['kind'] in ('update', 'add', 'discard', 'remove', 'clear', 'difference_update',
                                                               'intersection_update') and e['target'] == scope and i not in i_upd]
    i_use = [i for i, e in enumerate(evs) if e['kind'] == 'filter' and id(e['node']) in flt_nodes]
    i_rec = [i for i, e in enumerate(evs) if e['kind'] == 'rec']
    ok = bool(i_upd) and bool(i_use) and min(i_upd) < min(i_use) and not i_other
    rep.check(r_rec, key('params_sofar updated before use'), ok,
              'params_sofar gains %s[0] before the call arguments are filtered' % ps[1] if ok else
              'params_sofar is not updated with %s[0] (and nothing else) before filtering the call arguments' % ps[1], sinter,
              evs[i_upd[0]]['node'] if i_upd else fi.node)
    init = te.inits.get(scope)
    upd_stmts = [e.get('stmt') for e in evs if e['kind'] == 'update' and e['target'] == scope]
    rebound = [s_ for s_ in stmts_of(fi.node) if isinstance(s_, (ast.Assign, ast.AugAssign)) and
               any(norm(t) == scope for t in (s_.targets if isinstance(s_, ast.Assign) else [s_.target]))
               and not (init is not None and any(s_ is x for x in ast.walk(init[0]))) and not any(s_ is u for u in upd_stmts)]
    ok = init is not None and norm(init[1]) in ('set([%s])' % ps[2], '{%s}' % ps[2], 'set((%s,))' % ps[2], 'set({%s})' % ps[2]) and not rebound
    rep.check(r_rec, key('params_sofar initial'), ok, 'params_sofar starts as {inner_name}' if ok else
              'params_sofar does not start as {%s}' % ps[2], sinter, init[0] if init else fi.node)
    # ---- index / level (R03.b)
    if 2 in trees:
        r2, text2, tree2 = trees[2]
        try:
            f2 = tree2.body[0]
            ret2 = [s for s in f2.body if isinstance(s, ast.Return)][0]
            idx0 = call.func.slice
            idx2 = ret2.value.func.slice
            ok = isinstance(idx0, ast.Constant) and idx0.value == 0 and isinstance(idx2, ast.Constant) and idx2.value == 2
        except Exception:
            ok = False
        rep.check(r_index, key('funcs[level]'), ok, 'level L calls funcs[L]; indentation follows L (checked by rendering L=0 and L=2)' if ok else
                  'the generated subscript does not follow the level (L=0 -> %s, L=2 -> %s)' % (norm(idx0), norm(idx2) if 'idx2' in dir() else '?'),
                  sinter, main)
    # ---- recursion (R01.f)
    recs = [s for s in codegen.flatten_syms(parts) if s.kind == 'rec']
    if len(recs) != 1 or len(i_rec) != 1:
        raise AnalysisError('build_chain_str: expected exactly one recursive call in the template')
    rc = recs[0].call
    argmap = recs[0].argmap
    want = {ps[0]: '%s[1:]' % ps[0], ps[1]: '%s[1:]' % ps[1], ps[2]: ps[2], 'params_sofar': 'params_sofar', 'level': 'level + 1'}
    bad = dict((k, argmap.get(k)) for k, v in want.items() if argmap.get(k) != v)
    rep.check(r_rec, key('recursion'), not bad,
              'recurses on (funcs[1:], params[1:], same inner name, same accumulating params_sofar, level + 1)' if not bad else
              'recursive call arguments deviate: %r' % bad, sinter, rc)
    # the accumulating scope set is shared with the deeper levels (same object): the arguments of *this* level must be
    # filtered before the recursion adds the provides of the levels below it
    ok = bool(i_use) and max(i_use) < i_rec[0]
    rep.check(r_rec, key('filter before recursion'), ok,
              'the call arguments of a level are filtered by params_sofar before the recursive call extends that set' if ok else
              'the recursive call (which adds deeper levels\' provides to the shared params_sofar) runs before this level\'s arguments are '
              'filtered: a function is handed names that are only defined further inside (NameError in the generated code at request time)',
              sinter, rc)
    # the rec text sits between def line and the return (checked through shape); and it is emitted inside the def
    return j


# ---------------------------------------------------------------------------------------------
# R03.c: the request core template
# ---------------------------------------------------------------------------------------------

def check_request_core(rep, rule, rule_kw=None):
    repo = rep.repo
    core = repo.mod(CORE)
    fi = core.func('_create_request_inner')
    ps = fi.params()
    te = TemplateEval(repo, fi).run()
    sinks = [k for k in te.sinks if k['name'] == 'compile_code']
    if len(sinks) != 1:
        raise AnalysisError('_create_request_inner: expected one compile_code call')
    sink = sinks[0]
    cc = sink['node']

    def sink_arg(name, pos):
        if name in sink['kw']:
            return sink['kw'][name]
        return sink['args'][pos] if len(sink['args']) > pos else None
    code = sink_arg('code_str', 0)
    if not isinstance(code, codegen.Tmpl):
        raise AnalysisError('request-core template is not a string the evaluator can follow: %r' % (code,))
    parts = code.parts
    if any(isinstance(p, Sym) and p.kind == 'expr' for p in parts):
        raise AnalysisError('request-core template has an opaque part: %r' % [p for p in parts if isinstance(p, Sym) and p.kind == 'expr'])
    r = codegen.render(parts)
    text = r.text
    rep.extra['request_core_sample'] = text
    try:
        tree = ast.parse(textwrap.dedent(text))
    except SyntaxError as e:
        rep.fail(rule, fkey(fi, 'template parses'), 'the request-core template does not produce valid Python: %s' % e, core, cc)
        return
    fdefs = [s for s in tree.body if isinstance(s, ast.FunctionDef)]
    name = sink_arg('name', 1)
    name = ''.join(name.parts) if isinstance(name, codegen.Tmpl) and all(isinstance(p, str) for p in name.parts) else None
    ok = len(fdefs) == 1 and len(tree.body) == 1 and fdefs[0].name == name
    rep.check(rule, fkey(fi, 'template def'), ok, 'template defines exactly the function compile_code returns (%s)' % name if ok else
              'template does not define exactly one function named %r' % name, core, cc)
    if not ok:
        return
    f = fdefs[0]
    cfg = CFG(f)
    # the global names of the generated function, by role: what the environment binds to the endpoint chain, the render
    # chain and werkzeug's BaseResponse
    env = sink_arg('env', 2)
    envmap = {}
    if isinstance(env, codegen.SDict) and env.comp is None:
        envmap = dict((k, v.text if isinstance(v, codegen.Ex) else None) for k, v in env.items.items())
    ep_name = ([k for k, v in envmap.items() if v == ps[0]] + ['endpoint'])[0]
    rn_name = ([k for k, v in envmap.items() if v == ps[1]] + ['render'])[0]
    br_name = 'BaseResponse'
    for k, v in envmap.items():
        if v is not None and v.isidentifier() and v not in te.env:
            kind_, mm_, obj_ = repo.resolve(fi.mod, v)
            if kind_ == 'class' and obj_.name == 'BaseResponse':
                br_name = k
    calls = [n for n in ast.walk(f) if isinstance(n, ast.Call)]
    ep_calls = [c for c in calls if norm(c.func) == ep_name]
    rn_calls = [c for c in calls if norm(c.func) == rn_name]
    parents = {}
    for p in ast.walk(f):
        for ch in ast.iter_child_nodes(p):
            parents[ch] = p

    def stmt_of_(n):
        while not isinstance(n, ast.stmt):
            n = parents[n]
        return n
    ok = len(ep_calls) == 1 and isinstance(stmt_of_(ep_calls[0]), ast.Assign)
    ctxvar = norm(stmt_of_(ep_calls[0]).targets[0]) if ok else None
    ok = ok and ctxvar == 'context'
    rep.check(rule, fkey(fi, 'endpoint once'), ok,
              "endpoint(...) is called exactly once and its result is bound to the local 'context' (the name render functions receive)" if ok else
              'endpoint is not called exactly once with its result bound to "context"', core, cc)
    if not ok:
        return
    ep_st = stmt_of_(ep_calls[0])
    ok = all(cfg.must_pass(cfg.nodes_of(ep_st), cfg.entry, cfg.nodes_of(stmt_of_(c))) for c in rn_calls) and \
        cfg.must_pass(cfg.nodes_of(ep_st), cfg.entry, cfg.exit)
    rep.check(rule, fkey(fi, 'endpoint first'), ok, 'the endpoint call dominates render and the return' if ok else
              'render or the return can be reached without calling endpoint', core, cc)
    is_resp = lambda t: isinstance(t, ast.Call) and norm(t.func) == 'isinstance' and len(t.args) == 2 and \
        norm(t.args[0]) == 'context' and norm(t.args[1]) == br_name
    ok = len(rn_calls) == 1
    if ok:
        cs = cfg.conds_at_stmt(stmt_of_(rn_calls[0]))
        ok = any(is_resp(t) and p is False for t, p in cs)
    rep.check(rule, fkey(fi, 'render only for non-Responses'), ok,
              'render(...) runs only when isinstance(context, BaseResponse) is false' if ok else
              'render is not guarded by "not isinstance(context, BaseResponse)" (Responses from the endpoint side would be re-rendered, '
              'or contexts never rendered)', core, cc)
    # returns
    rets = [s for s in ast.walk(f) if isinstance(s, ast.Return)]
    good = bool(rets)
    for rt in rets:
        v = norm(rt.value)
        cs = cfg.conds_at_stmt(rt)
        srcs = _value_sources(f, cfg, rt, v)
        for src, scs in srcs:
            t_true = any(is_resp(t) and p is True for t, p in scs)
            t_false = any(is_resp(t) and p is False for t, p in scs)
            if src == 'context' and not t_true:
                good = False
            elif src.startswith(rn_name + '(') and not t_false:
                good = False
            elif src not in ('context',) and not src.startswith(rn_name + '('):
                good = False
    rep.check(rule, fkey(fi, 'returns'), good,
              'returns the endpoint result when it is a Response, else the render result, unmodified' if good else
              'the returned value is not (endpoint result if Response else render result)', core, cc)
    ok = not any(isinstance(n, (ast.Try, ast.While, ast.For, ast.With)) for n in ast.walk(f))
    rep.check(rule, fkey(fi, 'no handlers'), ok, 'no try/loop in the request core: exceptions propagate untouched' if ok else
              'the request core contains try/loop statements', core, cc)
    # keyword identity of the two calls
    rule_kw = rule_kw or rule
    for nm, cl in (('endpoint', ep_calls[0]), ('render', rn_calls[0] if rn_calls else None)):
        ok = cl is not None and not cl.args and cl.keywords and all(k.arg and isinstance(k.value, ast.Name) and k.arg == k.value.id for k in cl.keywords)
        rep.check(rule_kw, fkey(fi, '%s call keywords' % nm), ok, '%s is called with NAME=NAME keywords only' % nm if ok else
                  '%s call in the request core is positional or cross-wired' % nm, core, cc)
    # which argument list feeds which call
    def join_of(cl):
        out = set()
        for k in cl.keywords:
            h = r.holes.get(k.arg)
            if isinstance(h, Elem):
                out.add(h.base_text)
        return out
    ok = join_of(ep_calls[0]) == {ps[3]} and rn_calls and join_of(rn_calls[0]) == {ps[4]}
    rep.check(rule_kw, fkey(fi, 'argument lists'), ok, 'endpoint gets %s, render gets %s' % (ps[3], ps[4]) if ok else
              'endpoint/render calls draw their arguments from %s / %s' % (join_of(ep_calls[0]), join_of(rn_calls[0]) if rn_calls else None),
              core, cc)
    defargs = [r.holes.get(a.arg) for a in f.args.args]
    ok = defargs and all(isinstance(h, Sym) and h.kind == 'join' and norm(h.iter) == ps[2] for h in defargs) and not f.args.defaults
    rep.check(rule_kw, fkey(fi, 'def parameters'), ok, 'process_request takes exactly %s' % ps[2] if ok else
              'process_request parameters are not %s' % ps[2], core, cc)
    # environment: exactly the three names the generated function reads as globals
    ok = isinstance(env, codegen.SDict) and env.comp is None
    if ok:
        m = envmap
        free = set(n.id for n in ast.walk(f) if isinstance(n, ast.Name) and isinstance(n.ctx, ast.Load)) - \
            set(a.arg for a in f.args.args) - set(n.id for n in ast.walk(f) if isinstance(n, ast.Name) and isinstance(n.ctx, ast.Store))
        free = set(x for x in free if not x.startswith('__H') and x not in ('isinstance', 'True', 'False', 'None'))
        ok = m.get(ep_name) == ps[0] and m.get(rn_name) == ps[1] and ep_name != rn_name and br_name in m and free <= set(m)
        if ok:
            k, mm, obj = repo.resolve(fi.mod, m[br_name]) if m[br_name] and m[br_name] not in te.env else (None, None, None)
            ok = k == 'class' and obj.name == 'BaseResponse' and obj.mod.name.startswith('werkzeug')
    rep.check(rule, fkey(fi, 'environment'), ok, "names endpoint/render/BaseResponse in the generated code are bound to the endpoint chain, the "
              "render chain and werkzeug's BaseResponse" if ok else 'the environment handed to compile_code mis-binds endpoint/render/BaseResponse',
              core, cc)


def _value_sources(f, cfg, ret, v):
    """For ``return x``: the expressions assigned to x that reach the return, with the conditions at the assignment."""
    if not v.isidentifier() or v == 'context':
        return [(v, cfg.conds_at_stmt(ret))]
    out = []
    for s in ast.walk(f):
        if isinstance(s, ast.Assign) and norm(s.targets[0]) == v:
            # reaches the return without being overwritten?
            others = [o for o in ast.walk(f) if isinstance(o, ast.Assign) and norm(o.targets[0]) == v and o is not s]
            avoid = set(cfg.nodes_of_all(others))
            if set(cfg.nodes_of(ret)) & cfg.reach(cfg.nodes_of(s), avoid=avoid):
                out.append((norm(s.value), cfg.conds_at_stmt(s)))
    return out or [(v, cfg.conds_at_stmt(ret))]


# ---------------------------------------------------------------------------------------------
# R02.e: the conflict check and the chain builder agree on which name spaces meet
# ---------------------------------------------------------------------------------------------

def conflict_namespaces(repo):
    """The name spaces of check_middlewares: for every provider map instance (a map of name -> list of providers created in
    the function; created inside a loop over a constant table, one instance per row) the set of sources recorded in it:
    ``provides`` attributes of the middlewares and 'ARGS' (the items of the source-map parameter).
    -> (function, [(label, set of sources or None when the instance is the only one)])"""
    core = repo.mod(CORE)
    cm = core.func('check_middlewares')
    cps = cm.params()
    if not cps:
        raise AnalysisError('check_middlewares: no parameters')
    par = {}
    for p in ast.walk(cm.node):
        for ch in ast.iter_child_nodes(p):
            par[ch] = p

    def unwrap(e):
        while isinstance(e, ast.Call) and call_name(e) in ('list', 'tuple', 'iter', 'sorted', 'set', 'frozenset') and len(e.args) == 1:
            e = e.args[0]
        return e

    def enclosing_loops(n):
        out = []
        cur = par.get(n)
        while cur is not None and cur is not cm.node:
            if isinstance(cur, (ast.For, ast.While)):
                out.append(cur)
            elif isinstance(cur, (ast.FunctionDef, ast.Lambda, ast.ListComp, ast.SetComp, ast.DictComp, ast.GeneratorExp)):
                raise AnalysisError('check_middlewares: provider map handled inside a nested scope')
            cur = par.get(cur)
        return out

    def add_calls(name):
        out = []
        for c in walk_body(cm.node):
            if isinstance(c, ast.Call) and isinstance(c.func, ast.Attribute) and c.func.attr in ('append', 'add') and len(c.args) == 1:
                recv = c.func.value
                if isinstance(recv, ast.Subscript) and norm(recv.value) == name:
                    out.append((c, norm(recv.slice)))
                elif isinstance(recv, ast.Call) and call_tail(recv) == 'setdefault' and isinstance(recv.func, ast.Attribute) and \
                        norm(recv.func.value) == name and recv.args:
                    out.append((c, norm(recv.args[0])))
        return out
    creations = [s for s in stmts_of(cm.node) if isinstance(s, ast.Assign) and len(s.targets) == 1 and isinstance(s.targets[0], ast.Name) and
                 s.targets[0].id not in cps and
                 ((isinstance(s.value, ast.Call) and call_name(s.value) in ('defaultdict', 'dict', 'collections.defaultdict', 'OrderedDict') and
                   not any(isinstance(a, ast.Name) and a.id in cps for a in s.value.args)) or
                  (isinstance(s.value, ast.Dict) and not s.value.keys)) and add_calls(s.targets[0].id)]
    if not creations:
        raise AnalysisError('check_middlewares: provider map not identified')
    names = [s.targets[0].id for s in creations]
    if len(set(names)) != len(names):
        raise AnalysisError('check_middlewares: a provider map is created in more than one place')
    if len(creations) == 1 and not enclosing_loops(creations[0]):
        return cm, [(names[0], None)]
    # several instances: attribute every recording to its source

    def const_rows(loop):
        vals = repo.try_fold(loop.iter, cm.mod) if isinstance(loop, ast.For) else None
        return list(vals) if isinstance(vals, (tuple, list)) and vals and isinstance(loop.target, ast.Name) and \
            all(isinstance(v, str) for v in vals) else None

    def mw_loop(loop):
        return isinstance(loop, ast.For) and isinstance(loop.target, ast.Name) and norm(unwrap(loop.iter)) == cps[0]

    def is_args_items(e):
        e = unwrap(e)
        if not (isinstance(e, ast.Call) and isinstance(e.func, ast.Attribute) and e.func.attr == 'items' and not e.args):
            return False
        b = e.func.value
        if isinstance(b, ast.BoolOp) and isinstance(b.op, ast.Or):
            b = b.values[0]
        return len(cps) > 1 and isinstance(b, ast.Name) and b.id == cps[1]

    def sources(call, keyvar, fixed):
        """Sources whose names the recording ``P[keyvar].append(..)`` enters, with the constant-table variables of ``fixed``
        (name -> value) held at one row; the other constant loops around it range over their whole table."""
        loops = enclosing_loops(call)
        own = [l for l in loops if isinstance(l, ast.For) and isinstance(l.target, ast.Name) and l.target.id == keyvar]
        if len(own) != 1:
            raise AnalysisError('check_middlewares: cannot tell what names a recording into the provider map ranges over')
        it_ = unwrap(own[0].iter)
        outer = loops[loops.index(own[0]) + 1:]
        env = {}
        for l in outer:
            rows = const_rows(l)
            if rows is not None:
                env[l.target.id] = [fixed[l.target.id]] if l.target.id in fixed else rows
        mws = [l.target.id for l in outer if mw_loop(l)]
        if isinstance(it_, ast.Attribute) and isinstance(it_.value, ast.Name) and it_.value.id in mws:
            return {it_.attr}
        if isinstance(it_, ast.Call) and call_name(it_) == 'getattr' and len(it_.args) == 2 and isinstance(it_.args[0], ast.Name) and \
                it_.args[0].id in mws:
            k = it_.args[1]
            if isinstance(k, ast.Name) and k.id in env:
                return set(env[k.id])
            v = repo.try_fold(k, cm.mod)
            if isinstance(v, str):
                return {v}
        if isinstance(it_, ast.Name):
            pairs = [l for l in outer if isinstance(l, ast.For) and isinstance(l.target, ast.Tuple) and len(l.target.elts) == 2 and
                     norm(l.target.elts[1]) == it_.id and is_args_items(l.iter)]
            if pairs:
                return {'ARGS'}
        raise AnalysisError('check_middlewares: cannot tell what names a recording into the provider map ranges over (%s)' % norm(it_)[:60])
    out = []
    for s in creations:
        name = s.targets[0].id
        cl = enclosing_loops(s)
        if any(const_rows(l) is None for l in cl):
            raise AnalysisError('check_middlewares: provider map %s is created inside a loop that does not walk a constant table' % name)
        adds = add_calls(name)
        for c, kv in adds:
            el = enclosing_loops(c)
            if any(not any(l is x for x in el) for l in cl):
                raise AnalysisError('check_middlewares: provider map %s is filled outside the loop that creates it' % name)
        if not cl:
            srcs = set()
            for c, kv in adds:
                srcs |= sources(c, kv, {})
            out.append((name, srcs))
            continue
        if len(cl) != 1:
            raise AnalysisError('check_middlewares: provider map %s is created inside nested table loops' % name)
        for row in const_rows(cl[0]):
            srcs = set()
            for c, kv in adds:
                srcs |= sources(c, kv, {cl[0].target.id: row})
            out.append(('%s[%s=%r]' % (name, cl[0].target.id, row), srcs))
    return cm, out


def check_conflict_namespaces(rep, rule):
    """A name has one source only if no two sources that can meet in one generated scope offer it.  Which sources meet is
    decided by the chain builder (a phase's availability set contains the provides of another phase / the preprovided names:
    read off make_middleware_chain by check_phase_sets); which sources are compared with each other is decided by the conflict
    check (the provider map instances of check_middlewares).  Every pair of the first kind must share an instance."""
    fw = rep.extra.get('forwarded_phases')
    if fw is None:
        raise AnalysisError('availability sets of make_middleware_chain not available (check_phase_sets did not complete)')
    cm, spaces = conflict_namespaces(rep.repo)
    label = {'preprovided': 'ARGS'}
    label.update(PHASES)
    for src, dst in fw:
        a, b = label.get(src), label.get(dst)
        if a is None or b is None:
            continue
        ok = any(srcs is None or (a in srcs and b in srcs) for nm, srcs in spaces)
        what = 'the url / built-in / resource names' if a == 'ARGS' else 'mw.%s' % a
        rep.check(rule, fkey(cm, 'one name space for %s and %s' % (a if a != 'ARGS' else 'preprovided', b)), ok,
                  '%s are in scope in the %s phase (make_middleware_chain) and are compared with mw.%s by the conflict check'
                  % (what, dst, b) if ok else
                  'make_middleware_chain makes %s available in the %s phase, but check_middlewares never compares them with mw.%s '
                  '(separate provider maps: %s): a name offered through both is accepted, and the inner definition shadows the '
                  'forwarded value -- two different objects under one name within one request'
                  % (what, dst, b, '; '.join('%s <- %s' % (nm, sorted(srcs)) for nm, srcs in spaces)), cm.mod, cm.node)


# ---------------------------------------------------------------------------------------------
# R01.d: the generated caller and the generated callees agree on the names handed over
# ---------------------------------------------------------------------------------------------

def check_core_call_names(rep, rule):
    """The request core (caller) and the two chains it calls (callees) are generated separately; what make_chain returns as
    a chain's argument set *is* the signature of that chain's outermost level.  So: the keyword names of the generated
    ``endpoint(...)`` / ``render(...)`` calls are one join over exactly the argument set handed in for that chain -- every
    element, no filter, nothing added beside it (no literal keyword, no second collection) --, each element ``N=N``; and the
    generated ``def`` takes exactly the elements of the set handed in for it.  (That the sets handed in are make_chain's
    results for the endpoint / render chain is the call-site half: check_phase_sets, 'core call args'.)"""
    repo = rep.repo
    core = repo.mod(CORE)
    fi = core.func('_create_request_inner')
    ps = fi.params()
    if len(ps) < 5:
        raise AnalysisError('_create_request_inner: expected (endpoint chain, render chain, all args, endpoint args, render args)')
    te = TemplateEval(repo, fi).run()
    sinks = [k for k in te.sinks if k['name'] == 'compile_code']
    if len(sinks) != 1:
        raise AnalysisError('_create_request_inner: expected one compile_code call')
    sink = sinks[0]
    cc = sink['node']

    def sink_arg(name, pos):
        if name in sink['kw']:
            return sink['kw'][name]
        return sink['args'][pos] if len(sink['args']) > pos else None
    code = sink_arg('code_str', 0)
    if not isinstance(code, codegen.Tmpl):
        raise AnalysisError('request-core template is not a string the evaluator can follow: %r' % (code,))
    parts = code.parts
    if any(isinstance(p, Sym) and p.kind == 'expr' for p in parts):
        raise AnalysisError('request-core template has an opaque part: %r' % [p for p in parts if isinstance(p, Sym) and p.kind == 'expr'])
    r = codegen.render(parts)
    try:
        tree = ast.parse(textwrap.dedent(r.text))
    except SyntaxError as e:
        raise AnalysisError('the request-core template does not produce valid Python: %s' % e)
    fdefs = [s for s in tree.body if isinstance(s, ast.FunctionDef)]
    if len(fdefs) != 1:
        raise AnalysisError('the request-core template does not define exactly one function')
    f = fdefs[0]
    env = sink_arg('env', 2)
    envmap = {}
    if isinstance(env, codegen.SDict) and env.comp is None:
        envmap = dict((k, v.text if isinstance(v, codegen.Ex) else None) for k, v in env.items.items())
    names = {'endpoint': ([k for k, v in envmap.items() if v == ps[0]] + ['endpoint'])[0],
             'render': ([k for k, v in envmap.items() if v == ps[1]] + ['render'])[0]}
    joins = [s for s in codegen.flatten_syms(parts) if s.kind == 'join']

    def join_of_hole(h):
        """The join an element placeholder / a whole-join placeholder of the rendered text stands for."""
        if isinstance(h, Sym) and h.kind == 'join':
            return h
        if isinstance(h, Elem):
            own = [j for j in joins if isinstance(j.base[2], Elem) and j.base[2].key() == h.key() and j.elt is not None and
                   any(p is h or (isinstance(p, Elem) and p.key() == h.key()) for p in j.elt)]
            # (several joins over one collection are not told apart by the placeholder: the filtered one counts)
            own.sort(key=lambda j: not j.filters)
            return own[0] if own else None
        return None

    def whole(j, param):
        """``j`` enumerates every element of the parameter ``param`` and nothing else."""
        return j is not None and isinstance(j.iter, ast.Name) and j.iter.id == param and not j.filters

    calls = [n for n in ast.walk(f) if isinstance(n, ast.Call)]
    for nm, pi in (('endpoint', 3), ('render', 4)):
        cls = [c for c in calls if norm(c.func) == names[nm]]
        if len(cls) != 1:
            raise AnalysisError('request core: expected exactly one %s(...) call in the generated function' % nm)
        cl = cls[0]
        bad = []
        if cl.args:
            bad.append('positional arguments')
        srcs = set()
        for k in cl.keywords:
            h = r.holes.get(k.arg) if k.arg else None
            j = join_of_hole(h)
            if k.arg is None:
                bad.append('a ** argument')
            elif h is None:
                bad.append('the keyword %s written into the template (passed whatever the chain takes)' % k.arg)
            elif not (isinstance(k.value, ast.Name) and k.value.id == k.arg):
                bad.append('a keyword whose value is not the local of the same name')
            elif j is None:
                bad.append('a keyword the evaluator cannot attribute to a collection')
            else:
                srcs.add(id(j))
                if not whole(j, ps[pi]):
                    bad.append('names drawn from %s%s' % (norm(j.iter), ' filtered by %s' % ', '.join(fl[2] if fl[0] == 'other' else
                                                                                                     '%s %s' % (fl[0], fl[2]) for fl in j.filters)
                                                          if j.filters else ''))
        if not cl.keywords:
            bad.append('no keywords')
        if len(srcs) > 1:
            bad.append('more than one collection')
        ok = not bad
        rep.check(rule, fkey(fi, '%s call passes exactly its chain args' % nm), ok,
                  'the generated %s(...) call passes NAME=NAME for every element of %s and nothing else: the names the caller hands over '
                  'are the signature make_chain derived for that chain' % (nm, ps[pi]) if ok else
                  'the generated %s(...) call does not pass exactly the argument set of its chain (%s): %s -- the chain\'s outermost level '
                  'is defined with exactly the names make_chain returned, so a name passed beside them is an unexpected keyword at request '
                  'time and a name left out a missing argument, after binding succeeded' % (nm, ps[pi], '; '.join(sorted(set(bad)))),
                  core, cc)
    # the def line
    a = f.args
    bad = []
    if a.vararg or a.kwarg or a.defaults or a.kwonlyargs or a.posonlyargs:
        bad.append('defaults / * / ** parameters')
    for x in a.args:
        j = join_of_hole(r.holes.get(x.arg))
        if j is None:
            bad.append('the parameter %s written into the template' % x.arg if x.arg not in r.holes else 'a parameter of unknown origin')
        elif not whole(j, ps[2]):
            bad.append('names drawn from %s%s' % (norm(j.iter), ' (filtered)' if j.filters else ''))
    if not a.args:
        bad.append('no parameters')
    ok = not bad
    rep.check(rule, fkey(fi, 'def takes exactly the core args'), ok,
              'the generated def takes exactly the elements of %s' % ps[2] if ok else
              'the generated def does not take exactly the elements of %s: %s' % (ps[2], '; '.join(sorted(set(bad)))), core, cc)


# ---------------------------------------------------------------------------------------------
# R01.e: signature accessors agree; parameter kinds
# ---------------------------------------------------------------------------------------------

def check_accessors(rep, rule, kinds=True):
    repo = rep.repo
    sinter = repo.mod(SINTER)
    core = repo.mod(CORE)
    bolt = repo.mod('boltons.funcutils')
    # model facts from the pinned boltons source
    gan = bolt.func('FunctionBuilder.get_arg_names')
    txt = norm(gan.node)
    fact = 'self.args' in txt and 'kwonlyargs' in txt
    gdd = bolt.func('FunctionBuilder.get_defaults_dict')
    fact2 = 'kwonlydefaults' in norm(gdd.node)
    rep.check(rule, 'boltons.funcutils::FunctionBuilder.get_arg_names', fact and fact2,
              'model: get_arg_names() = args + kwonlyargs; get_defaults_dict() includes kwonlydefaults (pinned boltons source)' if fact and fact2 else
              'boltons accessor model out of date', bolt, gan.node)
    consumers = []

    def classify(fi, node):
        """'all' | 'positional' | 'required' for an accessor expression."""
        if isinstance(node, ast.Call):
            tail = call_tail(node)
            if tail == 'get_arg_names':
                only = kwarg(node, 'only_required')
                args = node.args
                if isinstance(node.func, ast.Name) and len(args) > 1:
                    only = only or args[1]
                if isinstance(node.func, ast.Attribute) and args:
                    only = only or args[0]
                if isinstance(only, ast.Name) and only.id in fi.params():
                    # pass-through of the helper's own flag: classified by its default
                    a = fi.node.args
                    names = [x.arg for x in a.args]
                    i = names.index(only.id) - (len(names) - len(a.defaults))
                    d = a.defaults[i] if i >= 0 else None
                    if isinstance(d, ast.Constant) and not d.value:
                        return 'all'
                    return 'required'
                if only is not None and not (isinstance(only, ast.Constant) and not only.value):
                    return 'required'
                return 'all'
        if isinstance(node, ast.Attribute) and node.attr == 'args':
            return 'positional'
        if isinstance(node, ast.Attribute) and node.attr == 'kwonlyargs':
            return 'kwonly'
        return None
    targets = [(sinter, 'chain_argspec', 'requirement universe'), (sinter, 'build_chain_str', 'emitted call arguments'),
               (sinter, 'inject', 'outermost call filter'), (core, 'check_middleware', 'first-parameter test'),
               (core, 'make_middleware_chain', "'next' tests"), (sinter, 'get_arg_names', 'helper')]
    for mod, q, role in targets:
        fi = mod.func(q)
        found = []
        for n in walk_body(fi.node):
            c = classify(fi, n)
            if c is None:
                continue
            # fb.args inside get_fb-style plumbing (ret.args = ret.args[1:]) is not a consumer
            recv = n.func.value if isinstance(n, ast.Call) and isinstance(n.func, ast.Attribute) else (n.value if isinstance(n, ast.Attribute) else None)
            if isinstance(n, ast.Attribute) and not (isinstance(recv, (ast.Name, ast.Call))):
                continue
            if isinstance(n, ast.Attribute) and isinstance(recv, ast.Name) and recv.id in ('self', 'node', 'a'):
                continue
            found.append((n, c))
        if not found:
            rep.fail(rule, fkey(fi, 'accessor'), '%s no longer enumerates the callee\'s parameters (role: %s)' % (fi.qualname, role), fi.mod, fi.node)
        for n, c in found:
            ok = c == 'all'
            rep.check(rule, fkey(fi, n), ok,
                      '%s enumerates all named parameters (positional-or-keyword and keyword-only)' % role if ok else
                      '%s reads the %s parameters only (%s) while the bind-time check counts all of them: a keyword-only parameter is '
                      'checked at bind time but never passed (TypeError per request), or silently keeps its default'
                      % (role, c, short(n)), fi.mod, n)
    # defaults accessor agreement
    for mod, q in ((sinter, 'chain_argspec'), (sinter, 'inject')):
        fi = mod.func(q)
        ok = any(isinstance(n, ast.Call) and call_tail(n) == 'get_defaults_dict' for n in walk_body(fi.node))
        rep.check(rule, fkey(fi, 'defaults accessor'), ok, 'defaults come from get_defaults_dict() (positional and keyword-only defaults)' if ok else
                  '%s does not use get_defaults_dict()' % q, fi.mod, fi.node)
    check_fb_stateless(rep, rule, sinter.func('get_fb'))
    if not kinds:
        return
    # parameter kinds
    gf = sinter.func('get_fb')
    src = norm(gf.node)
    from_func = bolt.func('FunctionBuilder.from_func')
    kinds = {
        'positional-or-keyword': (True, 'delivered in .args, passed by keyword'),
        'keyword-only': (fact, 'delivered by get_arg_names(), passed by keyword'),
        '*args': ("'varargs'" in norm(bolt.cls('FunctionBuilder').node),
                  'kept apart in .varargs, never passed (documented as unsupported)'),
        '**kwargs': ('varkw' in norm(sinter.func('inject').node), 'inject() passes everything when fb.varkw is set'),
    }
    for k, (ok, why) in kinds.items():
        rep.check(rule, fkey(gf, 'kind ' + k), bool(ok), why if ok else 'parameter kind %s is not handled' % k, sinter, gf.node)
    handles_posonly = any(w in src for w in ('posonly', 'POSITIONAL_ONLY')) or \
        any(w in norm(from_func.node) + norm(bolt.func('FunctionBuilder._argspec_to_dict').node) for w in ('posonly', 'POSITIONAL_ONLY'))
    rep.check(rule, fkey(gf, 'kind positional-only'), handles_posonly,
              'positional-only parameters are rejected or passed positionally' if handles_posonly else
              'positional-only parameters are neither rejected nor passed positionally: getfullargspec folds them into .args, the '
              'generated code passes every argument by keyword => "def ep(a, /)" binds fine and fails every request with TypeError',
              sinter, gf.node)
    check_self_drop(rep, rule, gf)
    # anonymous / non-string args are rejected
    ok = any(raise_type(r) == 'TypeError' for r in raises_of(gf))
    rep.check(rule, fkey(gf, 'strange args rejected'), ok, 'non-string argument names raise TypeError' if ok else
              'get_fb no longer rejects non-string argument names', sinter, gf.node)


def check_fb_stateless(rep, rule, gf):
    """What get_fb reports for a callable is computed from *that* callable, every time: (i) inspecting a callable leaves
    nothing behind on it -- no attribute store, ``setattr``, ``__dict__`` entry: the one attribute get_fb trusts as a signature
    supplied by the user (``_sinter_fb``) travels with the function's ``__dict__`` (``functools.wraps`` copies it onto a
    wrapper whose own signature differs); (ii) a module-level memo, if there is one, is keyed by the callable object itself
    (and plain parameters), never by something read *off* it (``f.__code__``, ``f.__name__``, ``id(f)``): a bound method and
    its function, a wrapper and the wrapped, share such a projection but not their signature."""
    sinter = gf.mod
    ps = gf.params()
    F = ps[0]

    def about_f(e, depth=0):
        """The expression reads something off the inspected callable (a projection), directly or through locals."""
        if depth > 3:
            return False
        for n in ast.walk(e):
            if isinstance(n, ast.Name) and n.id == F:
                return True
            if isinstance(n, ast.Name) and n.id not in ps:
                for st_, v, idx in assigned_value(gf.node, n.id):
                    if isinstance(v, ast.expr) and v is not e and about_f(v, depth + 1):
                        return True
        return False

    def is_f(e, depth=0):
        """The callable itself (under a local name)."""
        if isinstance(e, ast.Name) and e.id == F:
            return True
        if isinstance(e, ast.Name) and e.id not in ps and depth < 3:
            v = _single_value(gf, e.id)
            return v is not None and is_f(v, depth + 1)
        return False
    stores = []
    for e in effects.effects_in(gf.node):
        if e.kind in ('store', 'delete', 'mutcall') and e.chain and e.root is not None and is_f(ast.Name(id=e.root, ctx=ast.Load())):
            stores.append(e)
        elif e.kind in ('store', 'delete', 'mutcall') and e.chain and e.chain[0] == 'vars' and isinstance(e.target, (ast.Subscript, ast.Call)):
            stores.append(e)
    ok = not stores
    rep.check(rule, fkey(gf, 'leaves nothing on the callable'), ok,
              'inspecting a callable stores nothing on it (a signature found on a function is one its author put there)' if ok else
              'get_fb stores on the callable it inspects (%s): the function\'s __dict__ travels to every functools.wraps wrapper made '
              'afterwards, and get_fb then trusts the copied attribute -- the wrapper is described by the signature of the function it '
              'wraps, not by its own' % short(stores[0].node, 70), sinter, stores[0].node if stores else gf.node)
    # module-level memo tables read or written here
    tables = set(n for n, vals in sinter.assigns.items()
                 if any(isinstance(v, ast.Dict) or (isinstance(v, ast.Call) and call_name(v) in ('dict', 'OrderedDict', 'defaultdict', 'WeakKeyDictionary',
                                                                                               'weakref.WeakKeyDictionary')) for v in vals if isinstance(v, ast.expr)))
    tables -= set(ps) | set(n.id for n in walk_body(gf.node) if isinstance(n, ast.Name) and isinstance(n.ctx, ast.Store))
    keys = []
    for n in walk_body(gf.node):
        if isinstance(n, ast.Subscript) and isinstance(n.value, ast.Name) and n.value.id in tables:
            keys.append((n.slice, n))
        elif isinstance(n, ast.Call) and isinstance(n.func, ast.Attribute) and isinstance(n.func.value, ast.Name) and n.func.value.id in tables and \
                n.func.attr in ('get', 'setdefault', 'pop', '__getitem__', '__setitem__', '__contains__') and n.args:
            keys.append((n.args[0], n))
        elif isinstance(n, ast.Compare) and len(n.ops) == 1 and isinstance(n.ops[0], (ast.In, ast.NotIn)) and \
                isinstance(n.comparators[0], ast.Name) and n.comparators[0].id in tables:
            keys.append((n.left, n))
    bad = []
    for k, node in keys:
        kk = _deref(gf, k)
        parts = list(kk.elts) if isinstance(kk, ast.Tuple) else [kk]
        for part in parts:
            part = _deref(gf, part)
            if isinstance(part, ast.Constant) or (isinstance(part, ast.Name) and part.id in ps) or is_f(part):
                continue
            if about_f(part):
                bad.append((part, node))
    if keys:
        ok = not bad
        rep.check(rule, fkey(gf, 'memo keyed by the callable'), ok,
                  'remembered signatures are looked up by the callable object itself' if ok else
                  'get_fb remembers signatures under a key read off the callable (%s in %s), not under the callable: two callables that share '
                  'it -- a bound method and its function, a wrapper and the function it wraps -- get one signature, whichever was seen first'
                  % (short(bad[0][0], 50), short(bad[0][1], 60)), sinter, bad[0][1] if bad else keys[0][1])


def check_self_drop(rep, rule, gf):
    """The signature get_fb reports for a bound method lacks the first (``self``) parameter, for every other callable it
    is complete -- whatever the *state* of the object: the statement that discards the parameter is guarded by a test of
    what ``f`` *is* (``isinstance(f, types.MethodType)`` / ``inspect.ismethod(f)``, or ``x is not None`` for a local that is
    ``f.__self__`` exactly on that branch and None otherwise), never by the truth value of the instance the method is
    bound to (an object may define ``__bool__`` / ``__len__``: an empty container is falsy)."""
    sinter = gf.mod
    ps = gf.params()
    F = ps[0]
    flag = ps[1] if len(ps) > 1 else None

    def drops_first(st):
        """``X.args = X.args[1:]`` / ``del X.args[0]`` / ``X.args.pop(0)``"""
        if isinstance(st, ast.Assign) and len(st.targets) == 1 and isinstance(st.targets[0], ast.Attribute) and st.targets[0].attr == 'args' and \
                isinstance(st.value, ast.Subscript) and norm(st.value.value) == norm(st.targets[0]) and isinstance(st.value.slice, ast.Slice) and \
                norm(st.value.slice.lower) == '1' and st.value.slice.upper is None and st.value.slice.step is None:
            return True
        if isinstance(st, ast.Delete) and len(st.targets) == 1 and isinstance(st.targets[0], ast.Subscript) and \
                isinstance(st.targets[0].value, ast.Attribute) and st.targets[0].value.attr == 'args' and norm(st.targets[0].slice) == '0':
            return True
        return isinstance(st, ast.Expr) and isinstance(st.value, ast.Call) and isinstance(st.value.func, ast.Attribute) and \
            st.value.func.attr == 'pop' and isinstance(st.value.func.value, ast.Attribute) and st.value.func.value.attr == 'args' and \
            len(st.value.args) == 1 and norm(st.value.args[0]) == '0'
    drops = [st for st in stmts_of(gf.node) if drops_first(st)]
    if not drops:
        rep.fail(rule, fkey(gf, 'self dropped for bound methods'), 'get_fb no longer discards the first parameter of a bound method: "self" is '
                 'counted as a requirement nobody can supply', sinter, gf.node)
        return

    def method_test(t):
        """``t`` is true exactly when f is a bound method."""
        if isinstance(t, ast.Call) and not t.keywords:
            if call_name(t) == 'isinstance' and len(t.args) == 2 and norm(t.args[0]) == F and norm(t.args[1]) in ('types.MethodType', 'MethodType'):
                return True
            if norm(t.func) in ('inspect.ismethod', 'ismethod') and len(t.args) == 1 and norm(t.args[0]) == F:
                return True
        return False

    def instance_of(e, depth=0):
        """``e`` evaluates to the object the method is bound to (or to a placeholder where there is none)."""
        if depth > 3:
            return False
        while (isinstance(e, ast.Call) and call_name(e) in ('bool', 'len') and len(e.args) == 1 and not e.keywords) or \
                (isinstance(e, ast.UnaryOp) and isinstance(e.op, ast.Not)):
            e = e.args[0] if isinstance(e, ast.Call) else e.operand
        if isinstance(e, ast.Attribute) and e.attr in ('__self__', 'im_self') and norm(e.value) == F:
            return True
        if isinstance(e, ast.Call) and call_name(e) == 'getattr' and len(e.args) >= 2 and norm(e.args[0]) == F and \
                isinstance(e.args[1], ast.Constant) and e.args[1].value in ('__self__', 'im_self'):
            return True
        if isinstance(e, ast.BoolOp):
            return any(instance_of(v, depth + 1) for v in e.values)
        if isinstance(e, ast.Name) and e.id not in ps:
            for st_, v, idx in assigned_value(gf.node, e.id):
                if isinstance(idx, int) and isinstance(v, (ast.Tuple, ast.List)) and idx < len(v.elts):
                    v = v.elts[idx]
                elif idx is not None:
                    continue
                if isinstance(v, ast.expr) and instance_of(v, depth + 1):
                    return True
        return False

    def none_exactly_when_not_method(name):
        """Every binding of the local is ``f.__self__`` under the method test, or None under its negation."""
        vals = assigned_value(gf.node, name)
        if not vals:
            return False
        for st_, v, idx in vals:
            if idx is not None or not isinstance(st_, ast.Assign):
                return False
            cs = conds(gf, st_)
            if isinstance(v, ast.Constant) and v.value is None:
                if not has_cond(cs, method_test, False):
                    return False
            elif isinstance(v, ast.Attribute) and v.attr in ('__self__', 'im_self') and norm(v.value) == F:
                if not has_cond(cs, method_test, True):
                    return False
            else:
                return False
        return True
    par = {}
    for p_ in ast.walk(gf.node):
        for ch in ast.iter_child_nodes(p_):
            par[ch] = p_
    cfg = cfg_of(gf)
    for st in drops:
        established, by_state, unknown = False, [], []
        # the tests of the ``if`` statements around the statement decide whether *this* callable loses its first parameter;
        # conditions established by earlier guard clauses only matter when they ask about the instance
        encl, cur = [], st
        while cur is not gf.node and cur in par:
            up = par[cur]
            if isinstance(up, ast.If):
                encl.append((up.test, any(cur is x for x in up.body)))
            elif not isinstance(up, (ast.FunctionDef, ast.With, ast.Try)):
                raise AnalysisError('get_fb: the statement that discards "self" sits in a %s' % type(up).__name__)
            cur = up
        rel = expand_conds(encl)
        nids = cfg.nodes_of(st)
        if nids:
            rel = cfg._expand_named(rel, nids[0])
        seen_txt = set((norm(t), p) for t, p in rel)
        rel = rel + [(t, p) for t, p in conds(gf, st) if (norm(t), p) not in seen_txt and instance_of(_strip_not(t, p)[0])]
        for t, p in rel:
            t, p = _strip_not(t, p)
            if isinstance(t, ast.BoolOp) and ((isinstance(t.op, ast.And) and p is True) or (isinstance(t.op, ast.Or) and p is False)):
                continue        # taken apart: its operands are in the list
            if method_test(t):
                if p is True:
                    established = True
                else:
                    unknown.append((t, p))
                continue
            if flag is not None and isinstance(t, ast.Name) and t.id == flag:
                continue
            k = None
            if isinstance(t, ast.Compare) and len(t.ops) == 1 and isinstance(t.comparators[0], ast.Constant) and t.comparators[0].value is None \
                    and isinstance(t.ops[0], (ast.Is, ast.IsNot)):
                k = isinstance(t.ops[0], ast.IsNot) == (p is True)         # True: "is not None" holds
            if k is not None and isinstance(t.left, ast.Name) and none_exactly_when_not_method(t.left.id):
                if k:
                    established = True
                else:
                    unknown.append((t, p))
                continue
            if k is None and instance_of(t):
                by_state.append((t, p))
                continue
            if isinstance(t, ast.Name) and t.id not in ps and nids and len(cfg._expand_named([(t, p)], nids[0])) > 1:
                continue        # a local naming a condition: what it stands for is in the list
            unknown.append((t, p))
        if unknown and not by_state:
            raise AnalysisError('get_fb: the guard of the statement that discards "self" is not recognised: %s' % cond_texts(unknown))
        ok = established and not by_state
        rep.check(rule, fkey(gf, 'self dropped for bound methods'), ok,
                  'the first parameter is discarded exactly when f is a bound method (a test of what f is, not of the state of the '
                  'object it is bound to)' if ok else
                  ('whether "self" is discarded depends on the truth value of the object the method is bound to (%s): a method of an '
                   'instance that is falsy at bind time (empty container, __bool__/__len__) keeps its self parameter -- a satisfiable '
                   'configuration is rejected with "unresolved ... [\'self\']" / "must take argument \'next\' as the first parameter"'
                   % ', '.join(cond_texts(by_state)) if by_state else
                   'the first parameter is discarded without establishing that f is a bound method (%s): plain functions lose a real parameter'
                   % (cond_texts(encl) or 'unconditionally')), sinter, st)


def check_middleware_identity(rep, rule):
    """'mw in merged' / 'mw not in all_mw' decide duplicates through Middleware.__eq__: a duplicate is a middleware of
    exactly the same *type* (not a subclass, not an instance comparison)."""
    repo = rep.repo
    core = repo.mod(CORE)
    mw = core.cls('Middleware')
    for name, want_eq in (('__eq__', True), ('__ne__', False)):
        m = mw.methods.get(name)
        ok = False
        if m is not None:
            rets = returns_of(m)
            other = m.params()[1] if len(m.params()) > 1 else 'other'
            if len(rets) == 1 and isinstance(rets[0].value, ast.Compare) and len(rets[0].value.ops) == 1:
                c = rets[0].value
                sides = {norm(c.left), norm(c.comparators[0])}
                op = c.ops[0]
                ok = sides == {'type(self)', 'type(%s)' % other} and \
                    (isinstance(op, (ast.Eq, ast.Is)) if want_eq else isinstance(op, (ast.NotEq, ast.IsNot)))
            elif len(rets) == 1 and isinstance(rets[0].value, ast.UnaryOp) and isinstance(rets[0].value.op, ast.Not) and not want_eq:
                ok = norm(rets[0].value.operand) in ('self == %s' % other, 'self.__eq__(%s)' % other)
        rep.check(rule, fkey(m, 'type identity') if m else '%s::Middleware.%s' % (CORE, name), ok,
                  'Middleware.%s compares exact types' % name if ok else
                  'Middleware.%s no longer compares type(self) with type(other) exactly: "unique type" de-duplication in merge_middlewares / '
                  '_get_all_middlewares changes (e.g. a subclass counts as a duplicate of its base and a whole layer is dropped)' % name,
                  core, m.node if m else mw.node)
    ok = '__hash__' not in mw.methods or True
    a = mw.class_attrs
    ok = isinstance(a.get('unique'), ast.Constant) and a['unique'].value is True and isinstance(a.get('reorderable'), ast.Constant) and a['reorderable'].value is True
    rep.check(rule, '%s::Middleware defaults' % CORE, ok, 'middlewares are unique and reorderable by default' if ok else
              'Middleware.unique / reorderable defaults changed', core, mw.node)


# ---------------------------------------------------------------------------------------------
# R03.d: merge_middlewares and its call in BoundRoute.__init__
# ---------------------------------------------------------------------------------------------

class _F(object):
    """Tiny propositional formulas over named atoms: ('atom', name) / ('not', f) / ('and', [f..]) / ('or', [f..]) /
    ('const', bool).  Equivalence is decided by the truth table (the atoms of merge_middlewares are a handful)."""

    @staticmethod
    def atoms(f, out=None):
        out = set() if out is None else out
        if f[0] == 'atom':
            out.add(f[1])
        elif f[0] == 'not':
            _F.atoms(f[1], out)
        elif f[0] in ('and', 'or'):
            for g in f[1]:
                _F.atoms(g, out)
        return out

    @staticmethod
    def ev(f, env):
        k = f[0]
        if k == 'atom':
            return env[f[1]]
        if k == 'const':
            return f[1]
        if k == 'not':
            return not _F.ev(f[1], env)
        if k == 'and':
            return all(_F.ev(g, env) for g in f[1])
        return any(_F.ev(g, env) for g in f[1])

    @staticmethod
    def witness(f, g, require=None):
        """An assignment on which f and g differ (restricted to assignments satisfying ``require``), or None."""
        import itertools
        names = sorted(_F.atoms(f) | _F.atoms(g) | (_F.atoms(require) if require else set()))
        if len(names) > 10:
            raise AnalysisError('merge_middlewares: condition over %d atoms' % len(names))
        for vals in itertools.product((False, True), repeat=len(names)):
            env = dict(zip(names, vals))
            if require is not None and not _F.ev(require, env):
                continue
            if _F.ev(f, env) != _F.ev(g, env):
                return env
        return None

    @staticmethod
    def implies(f, g):
        return _F.witness(('or', [('not', f), g]), ('const', True)) is None


_MERGE_PURE = {'len', 'list', 'tuple', 'iter', 'set', 'frozenset', 'enumerate', 'reversed', 'sorted', 'any', 'all', 'isinstance',
               'repr', 'str', 'bool', 'id', 'type', 'zip'}


def _merge_records(repo):
    """Analysis of merge_middlewares(old, new) against its specification

        result = new ++ [m for m in old, in order, unless m.unique and type(m) already in the result built so far]
        ValueError when such a duplicate is not reorderable

    in either of two shapes: (A) an accumulator seeded with a copy of ``new`` that a loop over ``old`` appends to, testing
    membership in the accumulator as it grows; (B) a closed form ``<copy of new> + [m for m in old if ...]``, where "the
    result built so far" has to be spelled out (``m in outer or m in old[:i]``).
    -> (fi, records); a record is a dict key / order=(ok, detail) / complete=(ok, detail) / node: ``order`` is the
    obligation of the ordering specification (C03), ``complete`` the weaker one that nothing but a unique duplicate is
    left out of the result (what the conflict check downstream depends on); either may be None."""
    core = repo.mod(CORE)
    fi = core.func('merge_middlewares')
    ps = fi.params()   # old, new
    if len(ps) != 2:
        raise AnalysisError('merge_middlewares signature changed: %r' % ps)
    P_OLD, P_NEW = ps
    rets = returns_of(fi)
    if len(rets) != 1 or rets[0].value is None:
        raise AnalysisError('merge_middlewares: expected a single "return <list>"')
    recs = []

    def rec(key, node, order=None, complete=None):
        recs.append({'key': fkey(fi, key), 'order': order, 'complete': complete, 'node': node})

    def values_of(name, augmented=True):
        """Value expressions bound to a local (positions of a tuple display unpacked); None where not followable."""
        out = []
        for st_, v, idx in assigned_value(fi.node, name):
            if isinstance(st_, ast.AugAssign) and not augmented:
                continue
            if idx is None and isinstance(st_, ast.Assign):
                out.append(v)
            elif isinstance(idx, int) and isinstance(st_, ast.Assign) and isinstance(v, (ast.Tuple, ast.List)) and idx < len(v.elts) \
                    and not any(isinstance(x, ast.Starred) for x in v.elts):
                out.append(v.elts[idx])
            else:
                out.append(None)
        return out

    def copy_of(e, param, depth=0):
        """``e`` is the parameter itself or an order-preserving copy of it (possibly under a local name; the parameter may
        be re-bound to a copy of itself)."""
        if depth > 4:
            return False
        if isinstance(e, ast.Call) and call_name(e) in ('list', 'tuple', 'iter') and len(e.args) == 1 and not e.keywords:
            return copy_of(e.args[0], param, depth)
        if isinstance(e, (ast.List, ast.Tuple)) and len(e.elts) == 1 and isinstance(e.elts[0], ast.Starred):
            return copy_of(e.elts[0].value, param, depth)
        if isinstance(e, ast.Subscript) and isinstance(e.slice, ast.Slice) and e.slice.lower is None and e.slice.upper is None and e.slice.step is None:
            return copy_of(e.value, param, depth)
        if isinstance(e, ast.Name):
            vals = values_of(e.id)
            if e.id == param:
                return all(v is not None and _rebinds_self(v, param) for v in vals)
            if e.id in ps:
                return False
            return len(vals) == 1 and vals[0] is not None and copy_of(vals[0], param, depth + 1)
        return False

    def _rebinds_self(v, param):
        return isinstance(v, ast.Call) and call_name(v) in ('list', 'tuple') and len(v.args) == 1 and not v.keywords and norm(v.args[0]) == param

    rv = rets[0].value
    loops = [s for s in stmts_of(fi.node) if isinstance(s, ast.For)]

    def mutation_sites(names):
        """Everything that changes (or may change) a list held under one of ``names``: [(node, what)]."""
        out = []
        for e in effects.effects_in(fi.node):
            if e.root in names and e.chain is not None:
                if e.kind == 'mutcall' and len(e.chain) == 1:
                    out.append((e.node, e.method))
                elif e.kind in ('store', 'delete') and len(e.chain) >= 2 and e.chain[1] == '[]':
                    out.append((e.node, 'item ' + e.kind))
        for c in walk_body(fi.node):
            if isinstance(c, ast.Call) and call_name(c) not in _MERGE_PURE and \
                    any(isinstance(a, ast.Name) and a.id in names for a in list(c.args) + [k.value for k in c.keywords]):
                out.append((c, 'passed to ' + (call_name(c) or norm(c.func))))
        for s in stmts_of(fi.node):
            if isinstance(s, ast.AugAssign) and isinstance(s.target, ast.Name) and s.target.id in names:
                out.append((s, 'augmented assignment'))
        return out

    def aliases_of(name):
        out = {name}
        for _ in range(3):
            for s in stmts_of(fi.node):
                if isinstance(s, ast.Assign) and isinstance(s.value, ast.Name) and s.value.id in out:
                    for t in s.targets:
                        if isinstance(t, ast.Name):
                            out.add(t.id)
        return out

    # ------------------------------------------------------------------ shape A: accumulator + loop
    if isinstance(rv, ast.Name) and loops and mutation_sites(aliases_of(rv.id)):
        M = rv.id
        cfg = cfg_of(fi)
        names = aliases_of(M)
        init_vals = values_of(M, augmented=False)      # (augmented assignments are judged as mutations below)
        init_st = [st_ for st_, v, idx in assigned_value(fi.node, M) if not isinstance(st_, ast.AugAssign)]
        ok = len(init_vals) == 1 and init_vals[0] is not None and copy_of(init_vals[0], P_NEW) and not isinstance(init_vals[0], ast.Name) and \
            not (isinstance(init_vals[0], ast.Call) and call_name(init_vals[0]) in ('tuple', 'iter'))      # a fresh *list*
        aliased = len(init_vals) == 1 and isinstance(init_vals[0], ast.Name) and copy_of(init_vals[0], P_NEW)
        d = ('the merged list starts as a copy of the new (outer) list, in order' if ok else
             ('the merged list *is* the list the caller passed as %s (no copy): appending the old (route-level) middlewares changes the '
              'binding application\'s own list, and every route bound afterwards is merged against -- and runs -- the middlewares of the '
              'routes bound before it' % P_NEW if aliased else
              'the merged list does not start as list(%s): the outer list no longer comes first (or is not all there)' % P_NEW))
        rec('starts with new', init_st[0] if init_st else fi.node, (ok, d), (ok, d))
        ok = len(loops) == 1 and copy_of(loops[0].iter, P_OLD) and isinstance(loops[0].target, ast.Name)
        d = 'the old (inner) list is walked in order' if ok else 'merge does not iterate the old list in order'
        rec('iterates old in order', loops[0] if loops else fi.node, (ok, d), (ok, d))
        if not ok:
            return fi, recs
        mw = loops[0].target.id
        muts = mutation_sites(names)

        def appends_mw(node, what):
            """The mutation is ``M.append(mw)`` in one of its spellings."""
            if isinstance(node, ast.Call) and what == 'append':
                return len(node.args) == 1 and not node.keywords and norm(node.args[0]) == mw
            one = None
            if isinstance(node, ast.Call) and what == 'extend' and len(node.args) == 1:
                one = node.args[0]
            elif isinstance(node, ast.AugAssign) and isinstance(node.op, ast.Add):
                one = node.value
            return isinstance(one, (ast.List, ast.Tuple)) and len(one.elts) == 1 and norm(one.elts[0]) == mw
        app_sites = [n for n, w in muts if appends_mw(n, w)]
        other = [(n, w) for n, w in muts if not appends_mw(n, w)]
        ok = len(app_sites) == 1 and not other
        d = ('the merged list is only ever appended to, with the old middleware at hand: what came from the new (outer) list keeps '
             'its instances and positions' if ok else
             'the merged list is changed by something else than one "append(%s)": %s -- an element taken from the new (outer) list may be '
             'replaced, moved or removed' % (mw, ', '.join('%s [%s]' % (short(n, 60), w) for n, w in (other or muts)) or 'no append at all'))
        rec('only appends', other[0][0] if other else (app_sites[0] if app_sites else fi.node), (ok, d), (ok, d))

        def ncs(cs):
            out = []
            for t, p in cs:
                if isinstance(t, ast.Compare) and len(t.ops) == 1 and isinstance(t.ops[0], ast.NotIn):
                    t2 = ast.Compare(left=t.left, ops=[ast.In()], comparators=t.comparators)
                    out.append((t2, not p))
                out.append((t, p))
            return out
        is_unique = lambda t: norm(t) == '%s.unique' % mw
        is_member = lambda t: isinstance(t, ast.Compare) and len(t.ops) == 1 and isinstance(t.ops[0], ast.In) and norm(t.left) == mw \
            and isinstance(t.comparators[0], ast.Name) and t.comparators[0].id in names
        is_dup_text = lambda t: isinstance(t, ast.BoolOp) and isinstance(t.op, ast.And) and any(is_unique(v) for v in t.values) and \
            any(is_member(v) for v in t.values) and len(t.values) == 2
        is_reord = lambda t: norm(t) == '%s.reorderable' % mw

        def dup_holds(cs):
            cs = ncs(cs)
            return has_cond(cs, is_dup_text, True) or (has_cond(cs, is_unique, True) and has_cond(cs, is_member, True))

        def neg_part(t):
            """``t`` says "not unique" or "not in the merged list"."""
            if isinstance(t, ast.UnaryOp) and isinstance(t.op, ast.Not):
                return is_unique(t.operand) or is_member(t.operand)
            return isinstance(t, ast.Compare) and len(t.ops) == 1 and isinstance(t.ops[0], ast.NotIn) and \
                is_member(ast.Compare(left=t.left, ops=[ast.In()], comparators=t.comparators))
        is_not_dup_text = lambda t: isinstance(t, ast.BoolOp) and isinstance(t.op, ast.Or) and all(neg_part(v) for v in t.values)

        def dup_refuted(cs):
            cs = ncs(cs)
            return has_cond(cs, is_dup_text, False) or has_cond(cs, is_unique, False) or has_cond(cs, is_member, False) or \
                has_cond(cs, is_not_dup_text, True)
        ok = len(app_sites) == 1
        if ok:
            ok = dup_refuted(conds(fi, app_sites[0]))
        d = ('an old middleware is appended (after all new ones) only when it is not a unique type already present in the list as it grows' if ok else
             'the append is not guarded by "not (%s.unique and %s in %s)" -- membership has to be tested against the merged list as it grows: %s'
             % (mw, mw, M, [short(n, 60) for n in app_sites] or 'no append'))
        rec('append', app_sites[0] if app_sites else fi.node, (ok, d), None)
        # an iteration that ends without appending (and without raising) is a dropped middleware: that may happen exactly
        # for a reorderable unique duplicate.  The ends of an iteration are the predecessors of the loop head inside the body.
        head = [n for n in cfg.nodes_of(loops[0]) if cfg.nodes[n].kind == 'head']
        iter_nodes = [n.id for n in cfg.nodes if n.kind == 'iter' and n.stmt is loops[0]]
        app_nodes = cfg.nodes_of_all([s if isinstance(s, ast.stmt) else stmt_of(fi.mod, s) for s in app_sites]) if app_sites else []
        in_body = cfg.reach(iter_nodes, avoid=head)
        ends = [p_ for h in head for p_ in cfg.pred[h] if p_ in in_body]
        drops = [p_ for p_ in ends if p_ not in app_nodes and not cfg.must_pass(app_nodes, iter_nodes, [p_])]
        ok_o = ok_c = bool(drops)
        for p_ in drops:
            cs = cfg.conds_at(p_)
            nd = cfg.nodes[p_]
            if nd.kind == 'branch':
                cs = cs + cfg._expand_named(expand_conds([(nd.test, nd.pol)]), p_)
            ok_c = ok_c and dup_holds(cs)
            ok_o = ok_o and dup_holds(cs) and has_cond(cs, is_reord, True)
        rec('unique duplicate dropped', loops[0],
            (ok_o, 'a reorderable unique duplicate is dropped, keeping the outer occurrence' if ok_o else
             'duplicates are skipped under the wrong condition (an old middleware may be left out only when it is unique, of a type '
             'already in the merged list, and reorderable)'),
            (ok_c, 'an old middleware is left out of the merged list only when it is a unique type that is already in it' if ok_c else
             'a middleware that is not a unique-type duplicate can be left out of the merged list: a second instance of a non-unique class '
             'never reaches the conflict check and its provides are silently shadowed'))
        rz = raises_of(fi)
        ok = bool(rz) and all(raise_type(r) == 'ValueError' and dup_holds(conds(fi, r)) and has_cond(conds(fi, r), is_reord, False) for r in rz)
        rec('non-reorderable duplicate', rz[0] if rz else fi.node,
            (ok, 'a unique non-reorderable duplicate raises ValueError' if ok else 'a unique non-reorderable duplicate is not rejected with ValueError'), None)
        return fi, recs

    # ------------------------------------------------------------------ shape B: closed form
    def seq(e, depth=0):
        """Concatenation normal form: ('new', e) / ('old', e) whole parameter copies, ('comp', e), ('prefix', e, index name),
        ('?', e)."""
        if depth > 5:
            return [('?', e)]
        if copy_of(e, P_NEW):
            return [('new', e)]
        if copy_of(e, P_OLD):
            return [('old', e)]
        if isinstance(e, ast.BinOp) and isinstance(e.op, ast.Add):
            return seq(e.left, depth) + seq(e.right, depth)
        if isinstance(e, ast.Call) and call_name(e) in ('list', 'tuple') and len(e.args) == 1 and not e.keywords:
            return seq(e.args[0], depth)
        if isinstance(e, (ast.List, ast.Tuple)) and e.elts and all(isinstance(x, ast.Starred) for x in e.elts):
            out = []
            for x in e.elts:
                out.extend(seq(x.value, depth))
            return out
        if isinstance(e, (ast.ListComp, ast.GeneratorExp)):
            return [('comp', e)]
        if isinstance(e, ast.Subscript) and isinstance(e.slice, ast.Slice) and e.slice.lower is None and e.slice.step is None and \
                isinstance(e.slice.upper, ast.Name) and copy_of(e.value, P_OLD):
            return [('prefix', e, e.slice.upper.id)]
        if isinstance(e, ast.Name) and e.id not in ps:
            vals = values_of(e.id)
            if len(vals) == 1 and vals[0] is not None:
                return seq(vals[0], depth + 1)
        return [('?', e)]

    def comp_header(c):
        """(element variable, index variable or None, iterable) of a one-generator comprehension."""
        if len(c.generators) != 1 or c.generators[0].is_async:
            return None
        g = c.generators[0]
        if isinstance(g.target, ast.Name):
            return g.target.id, None, g.iter
        if isinstance(g.target, ast.Tuple) and len(g.target.elts) == 2 and all(isinstance(x, ast.Name) for x in g.target.elts) and \
                isinstance(g.iter, ast.Call) and call_name(g.iter) == 'enumerate' and len(g.iter.args) == 1 and not g.iter.keywords:
            return g.target.elts[1].id, g.target.elts[0].id, g.iter.args[0]
        return None

    def formula(t, var, idx):
        """Condition on the old middleware ``var`` as a formula over the atoms U (var.unique), R (var.reorderable), Inew (its type
        is in the new list), Iold (its type occurs earlier in the old list); anything else is an atom of its own."""
        if isinstance(t, ast.Constant) and isinstance(t.value, bool):
            return ('const', t.value)
        if isinstance(t, ast.UnaryOp) and isinstance(t.op, ast.Not):
            return ('not', formula(t.operand, var, idx))
        if isinstance(t, ast.BoolOp):
            return ('and' if isinstance(t.op, ast.And) else 'or', [formula(v, var, idx) for v in t.values])
        text = norm(t)
        if text == '%s.unique' % var:
            return ('atom', 'U')
        if text == '%s.reorderable' % var:
            return ('atom', 'R')
        if isinstance(t, ast.Compare) and len(t.ops) == 1 and isinstance(t.ops[0], (ast.In, ast.NotIn)) and norm(t.left) == var:
            parts = []
            for it in seq(t.comparators[0]):
                if it[0] == 'new':
                    parts.append(('atom', 'Inew'))
                elif it[0] == 'prefix' and idx is not None and it[2] == idx:
                    parts.append(('atom', 'Iold'))
                else:
                    parts.append(('atom', '%s in %s' % (var, norm(it[1]))))
            f = parts[0] if len(parts) == 1 else ('or', parts)
            return ('not', f) if isinstance(t.ops[0], ast.NotIn) else f
        return ('atom', text)

    DUP = ('and', [('atom', 'U'), ('or', [('atom', 'Inew'), ('atom', 'Iold')])])

    def show(env):
        words = {'U': 'unique', 'R': 'reorderable', 'Inew': 'type present in the new list', 'Iold': 'type occurs earlier in the old list'}
        return ', '.join('%s%s' % ('' if v else 'not ', words.get(k, k)) for k, v in sorted(env.items()))

    items = seq(rv)
    if not items or any(k == '?' for k, *_ in items):
        raise AnalysisError('merge_middlewares: the returned value %s is neither an accumulator filled by a loop nor a concatenation of '
                            'recognisable parts' % short(rv, 80))
    part_names = set(n.id for n in ast.walk(rv) if isinstance(n, ast.Name)) - set(ps)
    ok = items[0][0] == 'new'
    d = ('the result starts with a copy of the new (outer) list, in order' if ok else
         'the result does not start with the new (outer) list: %s' % [k for k, *_ in items])
    rec('starts with new', rets[0], (ok, d), (ok, d))
    comps = [it for it in items[1:] if it[0] == 'comp']
    hdr = comp_header(comps[0][1]) if len(comps) == 1 else None
    ok = len(items) == 2 and hdr is not None and copy_of(hdr[2], P_OLD) and isinstance(comps[0][1].elt, ast.Name) and comps[0][1].elt.id == hdr[0]
    d = ('after it come the old (inner) middlewares that pass the filter, in order' if ok else
         'the rest of the result is not one in-order selection from the old list: %s' % [k for k, *_ in items[1:]])
    rec('iterates old in order', comps[0][1] if comps else rets[0], (ok, d), (ok, d))
    if not ok:
        return fi, recs
    comp = comps[0][1]
    var, idx, _ = hdr
    muts = mutation_sites(part_names)
    ok = not muts
    d = ('the parts of the result are not modified after they are built' if ok else
         'a part of the result is changed after it was built: %s' % ', '.join('%s [%s]' % (short(n, 60), w) for n, w in muts))
    rec('only appends', muts[0][0] if muts else rets[0], (ok, d), (ok, d))
    K = ('and', [formula(t, var, idx) for t in comp.generators[0].ifs]) if comp.generators[0].ifs else ('const', True)
    scope_note = ''
    if 'Iold' not in _F.atoms(K):
        scope_note = (' -- the duplicate test only looks at a fixed list, not at the result as it grows: two instances of one unique type '
                      'inside the old list are both kept (and a non-reorderable one listed twice is accepted)')
    w = _F.witness(('or', [('not', K), ('not', DUP)]), ('const', True))
    ok = w is None
    d = ('an old middleware is kept only when it is not a unique type already present in new ++ the earlier old ones' if ok else
         'an old middleware is kept although it duplicates a unique type already in the result (%s)%s' % (show(w), scope_note))
    rec('append', comp, (ok, d), None)
    w = _F.witness(('or', [K, DUP]), ('const', True))
    ok_c = w is None
    rz = raises_of(fi)
    rec('unique duplicate dropped', comp,
        (ok_c, 'only unique duplicates are filtered out (the non-reorderable ones are rejected separately)' if ok_c else
         'a middleware that is no unique duplicate is filtered out (%s)' % show(w)),
        (ok_c, 'an old middleware is left out of the result only when it is a unique type that is already in it' if ok_c else
         'a middleware that is not a unique-type duplicate is left out of the result (%s): it never reaches the conflict check' % show(w)))
    # the rejection: some old middleware is a non-reorderable unique duplicate => ValueError, before the result is returned
    WANT = ('and', [DUP, ('not', ('atom', 'R'))])

    def exists_formula(t, depth=0):
        """``t`` is truthy iff some old middleware satisfies the returned formula (comprehension chains over the old list,
        any(...)); None when ``t`` is not of that kind."""
        if depth > 4:
            return None
        if isinstance(t, ast.Name) and t.id not in ps:
            vals = values_of(t.id)
            return exists_formula(vals[0], depth + 1) if len(vals) == 1 and vals[0] is not None else None
        if isinstance(t, ast.Call) and call_name(t) in ('list', 'tuple', 'bool', 'len', 'any') and len(t.args) == 1 and not t.keywords:
            a = t.args[0]
            if call_name(t) == 'any' and isinstance(a, (ast.GeneratorExp, ast.ListComp)):
                h = comp_header(a)
                if h is None:
                    return None
                base = ('const', True) if copy_of(h[2], P_OLD) else exists_formula(h[2], depth + 1)
                if base is None:
                    return None
                return ('and', [base, formula(a.elt, h[0], h[1])] + [formula(x, h[0], h[1]) for x in a.generators[0].ifs])
            return exists_formula(a, depth + 1) if call_name(t) != 'any' else None
        if isinstance(t, (ast.ListComp, ast.GeneratorExp)):
            h = comp_header(t)
            if h is None or not (isinstance(t.elt, ast.Name) and t.elt.id == h[0]):
                return None
            base = ('const', True) if copy_of(h[2], P_OLD) else (exists_formula(h[2], depth + 1) if isinstance(h[2], ast.Name) else None)
            if base is None:
                return None
            return ('and', [base] + [formula(x, h[0], h[1]) for x in t.generators[0].ifs])
        return None
    ok, why = bool(rz), 'a unique non-reorderable duplicate is not rejected at all'
    body = list(fi.node.body)
    for r in rz:
        if raise_type(r) != 'ValueError':
            ok, why = False, 'the rejection raises %s instead of ValueError' % raise_type(r)
            continue
        F = None
        in_loop = [l for l in loops if any(x is r for x in ast.walk(l))]
        if in_loop:
            l = in_loop[-1]
            tgt = l.target
            lv = li = None
            it_ = l.iter
            if isinstance(tgt, ast.Name):
                lv = tgt.id
            elif isinstance(tgt, ast.Tuple) and len(tgt.elts) == 2 and all(isinstance(x, ast.Name) for x in tgt.elts) and \
                    isinstance(it_, ast.Call) and call_name(it_) == 'enumerate' and len(it_.args) == 1:
                li, lv, it_ = tgt.elts[0].id, tgt.elts[1].id, it_.args[0]
            if lv is not None and copy_of(it_, P_OLD):
                F = ('and', [formula(t, lv, li) if p else ('not', formula(t, lv, li)) for t, p in conds(fi, r)] or [('const', True)])
        else:
            for t, p in conds(fi, r):
                if p is True:
                    F = exists_formula(t)
                    if F is not None:
                        break
        if F is None:
            raise AnalysisError('merge_middlewares: the condition under which %s is raised is not recognised as "some old middleware is ..."'
                                % short(r, 60))
        w = _F.witness(F, WANT)
        if w is not None:
            ok = False
            why = ('ValueError is raised for the wrong middlewares: on (%s) the code %s, the specification %s%s'
                   % (show(w), 'raises' if _F.ev(F, w) else 'does not raise', 'raises' if _F.ev(WANT, w) else 'does not',
                      scope_note if 'Iold' not in _F.atoms(F) else ''))
        top = [s for s in body if any(x is r for x in ast.walk(s))]
        rtop = [s for s in body if any(x is rets[0] for x in ast.walk(s))]
        if not (top and rtop and body.index(top[0]) < body.index(rtop[0]) and isinstance(top[0], (ast.If, ast.For))):
            ok, why = False, 'the rejection of non-reorderable duplicates does not precede the return on every path'
    rec('non-reorderable duplicate', rz[0] if rz else fi.node,
        (ok, 'a unique non-reorderable duplicate raises ValueError before anything is returned' if ok else why), None)
    return fi, recs


def check_merge_complete(rep, rule):
    """What the conflict check downstream of merge_middlewares relies on: the merged list holds every middleware of both
    levels, except that an old one may be left out when it is a unique type already present."""
    fi, recs = _merge_records(rep.repo)
    for r in recs:
        if r['complete'] is not None:
            rep.check(rule, r['key'] + ' (nothing lost)', r['complete'][0], r['complete'][1], fi.mod, r['node'])


def check_merge_fresh(rep, rule):
    """merge_middlewares builds a list of its own: neither argument -- the binding application's list is shared by every
    later binding, the route's list by every later re-binding -- is the accumulator or is changed in place."""
    fi, recs = _merge_records(rep.repo)
    for r in recs:
        if r['key'].endswith('::starts with new') and r['complete'] is not None:
            rep.check(rule, r['key'] + ' (a list of its own)', r['complete'][0], r['complete'][1], fi.mod, r['node'])
    ps = fi.params()
    muts = []
    for e in effects.effects_in(fi.node, aug_names=True):
        if e.root in ps and e.kind in ('store', 'delete', 'mutcall', 'augname') and not any(
                isinstance(st_, ast.Assign) and isinstance(v, ast.Call) and call_name(v) in ('list', 'tuple') and
                cfg_of(fi).must_pass(cfg_of(fi).nodes_of(st_), cfg_of(fi).entry, cfg_of(fi).nodes_of(stmt_of(fi.mod, e.node)))
                for st_, v, idx in assigned_value(fi.node, e.root) if idx is None):
            muts.append(e)
    rep.check(rule, fkey(fi, 'arguments not changed in place'), not muts,
              'merge_middlewares changes neither of the lists it is given' if not muts else
              'merge_middlewares changes a list it was handed in place (%s): the caller\'s stack -- shared with later bindings -- grows '
              'or shrinks with every merge' % short(muts[0].node, 60), fi.mod, muts[0].node if muts else fi.node)


def check_merge_keeps_outer(rep, rule):
    """The middleware *instances* of the new (outer, binding application's) list are in the merged list, each at its
    position, none replaced: whoever holds a reference to an application-level middleware holds the object that runs."""
    fi, recs = _merge_records(rep.repo)
    for r in recs:
        if r['key'].endswith(('::starts with new', '::only appends')) and r['complete'] is not None:
            rep.check(rule, r['key'] + ' (outer instances kept)', r['complete'][0], r['complete'][1], fi.mod, r['node'])


def check_chain_of_this_binding(rep, rule):
    """What a bound route executes is the chain compiled from *its own* merged middleware list: every value BoundRoute.__init__
    stores in ``_execute`` is ``make_middleware_chain(self.middlewares, ..)`` of this activation, on every path, and nothing
    else writes the attribute.  A chain taken over from another binding (an earlier binding of the same route, a cache keyed
    by anything that compares middlewares with ``==``, which is by *type*) runs that binding's instances and order, whatever
    ``self.middlewares`` shows."""
    repo = rep.repo
    route = repo.mod(ROUTE)
    bi = route.func('BoundRoute.__init__')
    cfg = cfg_of(bi)
    writes = [s_ for s_ in stmts_of(bi.node) if isinstance(s_, (ast.Assign, ast.AugAssign, ast.AnnAssign)) and
              any(norm(t) == 'self._execute' for t in (s_.targets if isinstance(s_, ast.Assign) else [s_.target]))]
    if not writes:
        raise AnalysisError('BoundRoute.__init__: no assignment to self._execute')
    merged = {'self.middlewares'}
    for s_ in stmts_of(bi.node):
        if isinstance(s_, ast.Assign) and any(norm(t) == 'self.middlewares' for t in s_.targets) and isinstance(s_.value, ast.Name) and \
                len(assigned_value(bi.node, s_.value.id)) == 1:
            merged.add(s_.value.id)          # merged = merge_middlewares(..); self.middlewares = merged
    bad = []
    for s_ in writes:
        v = _deref(bi, s_.value) if isinstance(s_, ast.Assign) else None
        a0 = argn(v, 'middlewares', 0) if isinstance(v, ast.Call) and call_name(v) == 'make_middleware_chain' else None
        if a0 is None or norm(a0) not in merged:
            bad.append(s_)
    ok = not bad and cfg.must_pass(cfg.nodes_of_all(writes), cfg.entry, cfg.exit, normal_only=True)
    rep.check(rule, fkey(bi, 'executes the chain of its own merged list'), ok,
              'self._execute is make_middleware_chain(self.middlewares, ..) of this binding, on every path' if ok else
              ('a bound route can execute a chain that was not compiled from its own merged middleware list (%s): the functions that '
               'run are those of another binding -- other instances, possibly another order -- while self.middlewares shows the merged '
               'stack (middlewares compare equal by type, so "the same stack" does not mean the same objects)'
               % short(bad[0], 80) if bad else 'a BoundRoute can be constructed without compiling its chain'),
              route, bad[0] if bad else writes[0])
    writers = []
    for m in repo.all_internal_modules():
        for fi_ in m.functions.values():
            for e in effects.effects_in(fi_.node):
                if e.chain and '_execute' in e.chain:
                    writers.append(fi_)
    ok = bool(writers) and all(w is bi for w in writers)
    rep.check(rule, 'clastic::writers of _execute (order)', ok, 'only BoundRoute.__init__ stores a chain in _execute' if ok else
              '_execute is also written by %s' % sorted(set(w.key for w in writers if w is not bi)), route, bi.node)


def check_execute_offers_provided(rep, rule):
    """Everything the bind-time check counted as available reaches the compiled chain at request time: BoundRoute.execute
    offers the *whole* mapping of bound resources (the one whose keys BoundRoute.__init__ passed as preprovided) and
    passes its call-time parameters (URL bindings, the dispatcher's built-ins) on unfiltered."""
    repo = rep.repo
    route = repo.mod(ROUTE)
    ex = route.func('BoundRoute.execute')
    bi = route.func('BoundRoute.__init__')
    inj = [c for c in walk_body(ex.node) if isinstance(c, ast.Call) and call_name(c) == 'inject']
    if len(inj) != 1 or len(inj[0].args) < 2:
        raise AnalysisError('BoundRoute.execute: expected one inject(callable, injectables) call')
    ls = layers_of_value(ex.node, inj[0].args[1])

    def whole(e, of, fi, depth=0):
        """``e`` holds every item of the mapping ``of`` (the mapping itself or an unfiltered copy)."""
        if depth > 3:
            return False
        if norm(e) == of:
            return True
        if isinstance(e, ast.Call) and call_name(e) == 'dict' and len(e.args) == 1 and not e.keywords:
            return whole(e.args[0], of, fi, depth + 1)
        if isinstance(e, ast.Call) and isinstance(e.func, ast.Attribute) and e.func.attr == 'copy' and not e.args and not e.keywords:
            return whole(e.func.value, of, fi, depth + 1)
        if isinstance(e, ast.Dict) and len(e.keys) == 1 and e.keys[0] is None:
            return whole(e.values[0], of, fi, depth + 1)
        if isinstance(e, ast.Name) and e.id not in fi.params():
            v = _single_value(fi, e.id)
            return v is not None and whole(v, of, fi, depth + 1)
        if isinstance(e, ast.Attribute) and isinstance(e.value, ast.Name) and e.value.id == 'self' and fi is not bi:
            # another attribute of the route: what BoundRoute.__init__ stored there (its only writer)
            stores = [s_ for s_ in stmts_of(bi.node) if isinstance(s_, ast.Assign) and any(norm(t) == norm(e) for t in s_.targets)]
            others = [1 for m in repo.all_internal_modules() for f_ in m.functions.values() if f_ is not bi
                      for ef in effects.effects_in(f_.node) if ef.chain and e.attr in ef.chain]
            return len(stores) == 1 and not others and whole(stores[0].value, of, bi, depth + 1)
        return False
    ok = any(l.kind == 'source' and whole(l.node, 'self.resources', ex) for l in ls)
    rep.check(rule, fkey(ex, 'offers every bound resource'), ok,
              'execute() offers all of self.resources -- the mapping whose keys were counted as available at bind time' if ok else
              'execute() does not offer the whole of self.resources (layers: %s) although binding counted every resource name as '
              'available to every function of the chain: an accepted configuration fails per request with a missing argument'
              % [l.text for l in ls], route, inj[0])
    kw = ex.node.args.kwarg.arg if ex.node.args.kwarg is not None else None
    ok = kw is not None and any(l.kind == 'source' and whole(l.node, kw, ex) for l in ls)
    rep.check(rule, fkey(ex, 'passes call-time parameters on'), ok,
              'execute() passes its **%s (URL bindings and the dispatcher\'s built-ins) on unfiltered' % kw if ok else
              'execute() does not pass its call-time parameters on unfiltered (layers: %s)' % [l.text for l in ls], route, inj[0])


def check_stack_pinned(rep, rule):
    """A Route / an Application pins its own middleware stack when it is constructed: ``self.middlewares`` is a new sequence
    built from what the caller passed (``list(..)`` / ``tuple(..)`` / ``[*..]`` / a slice), never the caller's list object
    itself -- what the caller does to that list afterwards (before the route is bound) is not part of the route."""
    repo = rep.repo
    for modname, q in ((ROUTE, 'Route.__init__'), (APP, 'Application.__init__')):
        mod = repo.mod(modname)
        fi = mod.func(q)
        def stack_stores(f_):
            return [s_ for s_ in stmts_of(f_.node) if isinstance(s_, (ast.Assign, ast.AnnAssign)) and
                    any(norm(t) == 'self.middlewares' for t in (s_.targets if isinstance(s_, ast.Assign) else [s_.target]))]
        home, sm = fi, stack_stores(fi)
        if not sm:
            # the constructor may leave the assignment to a method of the class it calls on self
            ctor = fi
            for c in walk_body(ctor.node):
                m_ = mod.cls(q.split('.')[0]).methods.get(c.func.attr) if isinstance(c, ast.Call) and isinstance(c.func, ast.Attribute) and \
                    norm(c.func.value) == 'self' else None
                if m_ is not None and stack_stores(m_):
                    home, sm = m_, stack_stores(m_)
                    break
        if not sm:
            raise AnalysisError('%s: no assignment to self.middlewares' % q)

        def fresh(e, depth=0, home=home):
            e = _deref(home, e) if depth < 3 else e
            if isinstance(e, ast.Call) and call_name(e) in ('list', 'tuple') and len(e.args) <= 1 and not e.keywords:
                return True
            if isinstance(e, (ast.List, ast.Tuple)):
                return True          # a display is a new object whatever it unpacks
            if isinstance(e, (ast.ListComp,)):
                return True
            if isinstance(e, ast.Subscript) and isinstance(e.slice, ast.Slice):
                return True
            if isinstance(e, ast.BinOp) and isinstance(e.op, ast.Add):
                return fresh(e.left, depth + 1) or fresh(e.right, depth + 1)
            return False
        bad = [s_ for s_ in sm if s_.value is None or not fresh(s_.value)]
        ok = not bad
        rep.check(rule, fkey(fi, 'own copy of the middleware list'), ok,
                  '%s keeps a copy of the middleware list it is given' % q.split('.')[0] if ok else
                  '%s stores the caller\'s middleware list object itself (%s): a list that is extended, re-ordered or emptied after the %s '
                  'was created -- and before it is bound -- changes which middlewares run around its endpoint, and in which order'
                  % (q, short(bad[0].value, 60), q.split('.')[0].lower()), home.mod, bad[0] if bad else sm[0])


def check_merge_order(rep, rule):
    repo = rep.repo
    core = repo.mod(CORE)
    route = repo.mod(ROUTE)
    fi, recs = _merge_records(repo)
    for r in recs:
        if r['order'] is not None:
            rep.check(rule, r['key'], r['order'][0], r['order'][1], fi.mod, r['node'])
    if any(r['key'].endswith('iterates old in order') and not r['order'][0] for r in recs):
        return
    check_raise_total(rep, rule, fi, [r for r in raises_of(fi)], 'the ValueError for a doubly included unique middleware')
    check_middleware_identity(rep, rule)
    # call site
    bi = route.func('BoundRoute.__init__')
    calls = [c for c in walk_body(bi.node) if isinstance(c, ast.Call) and call_name(c) == 'merge_middlewares']
    if len(calls) != 1:
        raise AnalysisError('BoundRoute.__init__: expected one merge_middlewares call')
    c = calls[0]

    def origin(e):
        t = norm(e)
        if isinstance(e, ast.Name):
            srcs = [s.value for s in stmts_of(bi.node) if isinstance(s, ast.Assign) and norm(s.targets[0]) == e.id]
            if len(srcs) == 1:
                t = norm(srcs[0])
        return t
    o_old, o_new = origin(c.args[0]), origin(c.args[1])
    bp = bi.params()   # self, route, app
    ok = 'middlewares' in o_old and bp[1] in o_old and 'middlewares' in o_new and bp[2] in o_new and bp[2] not in o_old and bp[1] not in o_new.replace('middlewares', '')
    rep.check(rule, fkey(bi, 'merge_middlewares(route, app)'), ok,
              'old <- the route\'s list, new <- the binding application\'s list: at every embedding level the outer list comes first' if ok else
              'merge_middlewares is called with (old=%s, new=%s): the binding application\'s middlewares must be the new (outer) list' % (o_old, o_new),
              route, c)
    check_stack_pinned(rep, rule)
    st = stmt_of(bi.mod, c)
    sm = [s_ for s_ in stmts_of(bi.node) if isinstance(s_, ast.Assign) and any(norm(t) == 'self.middlewares' for t in s_.targets)]
    ok = len(sm) == 1
    if ok:
        v = sm[0].value
        if isinstance(v, ast.Call) and call_name(v) in ('tuple', 'list') and len(v.args) == 1:
            v = v.args[0]
        v = _deref(bi, v)
        if isinstance(v, ast.Call) and call_name(v) in ('tuple', 'list') and len(v.args) == 1:
            v = _deref(bi, v.args[0])
        ok = v is c
        st = sm[0]
    rep.check(rule, fkey(bi, 'self.middlewares'), ok, 'the merged list (order preserved) becomes self.middlewares' if ok else
              'self.middlewares is not the merged list as returned', route, st)


# ---------------------------------------------------------------------------------------------
# R01.a / R02.c: the table of URL bindings -- one table: what match_path fills is what binding counted as provided
# ---------------------------------------------------------------------------------------------

_SEQ_WRAPPERS = ('list', 'tuple', 'iter', 'sorted', 'reversed', 'set', 'frozenset')


def _unwrap_seq(e):
    while isinstance(e, ast.Call) and call_name(e) in _SEQ_WRAPPERS and len(e.args) == 1 and not e.keywords:
        e = e.args[0]
    return e


def _self_attr(e):
    return e.attr if isinstance(e, ast.Attribute) and isinstance(e.value, ast.Name) and e.value.id == 'self' else None


def _table_iter(fi, e):
    """``e`` walks a mapping kept on self: ``self.A.items()`` / ``self.A.keys()`` / ``self.A`` (possibly under a local name,
    possibly wrapped in list() / sorted() ..) -> (A, 'items' | 'keys'); None otherwise."""
    e = _unwrap_seq(_deref(fi, e))
    if isinstance(e, ast.Call) and isinstance(e.func, ast.Attribute) and e.func.attr in ('items', 'keys') and not e.args and not e.keywords:
        a = _self_attr(_deref(fi, e.func.value))
        return (a, e.func.attr) if a else None
    a = _self_attr(_deref(fi, e))
    return (a, 'keys') if a else None


def _key_var(target, how):
    """Name of the variable that takes the keys of the table in ``for <target> in <table iteration>``."""
    if how == 'items':
        if isinstance(target, (ast.Tuple, ast.List)) and len(target.elts) == 2 and isinstance(target.elts[0], ast.Name):
            return target.elts[0].id
        return None
    return target.id if isinstance(target, ast.Name) else None


def url_param_fillers(repo):
    """How BoundRoute.match_path fills the mapping of URL parameters it returns.  -> (fi, mapping returns, records); a record
    is a dict: table (the attribute of self whose keys become the keys of the mapping), kind 'loop' (loop, stores: the
    statements ``mapping[key] = ..`` of its body) or 'comp' (node, filters)."""
    mp = repo.mod(ROUTE).func('BoundRoute.match_path')
    rets = [r for r in returns_of(mp) if r.value is not None and not (isinstance(r.value, ast.Constant) and r.value.value is None)]
    if not rets:
        raise AnalysisError('BoundRoute.match_path: no return of a mapping')
    recs = []

    def comp_record(e):
        gen = None
        if isinstance(e, ast.DictComp):
            gen, key = e.generators, e.key
        elif isinstance(e, ast.Call) and call_name(e) == 'dict' and len(e.args) == 1 and not e.keywords and \
                isinstance(e.args[0], (ast.ListComp, ast.GeneratorExp)) and isinstance(e.args[0].elt, ast.Tuple) and len(e.args[0].elt.elts) == 2:
            gen, key = e.args[0].generators, e.args[0].elt.elts[0]
        if gen is None or len(gen) != 1:
            return None
        ti = _table_iter(mp, gen[0].iter)
        kv = _key_var(gen[0].target, ti[1]) if ti else None
        if kv is None or not (isinstance(key, ast.Name) and key.id == kv):
            return None
        return {'table': ti[0], 'kind': 'comp', 'node': e, 'filters': list(gen[0].ifs)}
    names = set()
    for r in rets:
        v = r.value
        if isinstance(v, ast.Name):
            names.add(v.id)
        else:
            c = comp_record(v)
            if c is None:
                raise AnalysisError('BoundRoute.match_path: the returned mapping %s is not followed' % short(v, 60))
            recs.append(c)
    for name in sorted(names):
        found = False
        for st_, v, idx in assigned_value(mp.node, name):
            c = comp_record(v) if idx is None and isinstance(v, ast.expr) else None
            if c is not None:
                recs.append(c)
                found = True
        for lp in [s_ for s_ in stmts_of(mp.node) if isinstance(s_, ast.For)]:
            ti = _table_iter(mp, lp.iter)
            kv = _key_var(lp.target, ti[1]) if ti else None
            if kv is None:
                continue
            stores = [s_ for b in lp.body for s_ in [b] + [x for x in ast.walk(b) if isinstance(x, ast.stmt) and x is not b]
                      if isinstance(s_, ast.Assign) and len(s_.targets) == 1 and isinstance(s_.targets[0], ast.Subscript) and
                      norm(s_.targets[0].value) == name and norm(s_.targets[0].slice) == kv]
            if stores:
                recs.append({'table': ti[0], 'kind': 'loop', 'loop': lp, 'stores': stores, 'key': kv})
                found = True
        if not found:
            raise AnalysisError('BoundRoute.match_path: how the returned mapping %s is filled from a table of converters was not recognised' % name)
    return mp, rets, recs


def check_url_params_complete(rep, rule):
    """Every name binding counted as provided by the URL is in the mapping a matching request gets: whenever match_path returns
    a mapping, it holds a value for *every* key of the table of converters -- each iteration of the filling loop either
    completes a store under the key at hand or leaves the function without a mapping (no match / an exception); a
    comprehension over the table has no filter.  A binding left out of the mapping is a parameter the bind-time check
    accepted (``url`` is a source of every binding of the pattern) and the generated chain then does not receive."""
    repo = rep.repo
    mp, rets, recs = url_param_fillers(repo)
    cfg = cfg_of(mp)
    ret_nodes = cfg.nodes_of_all(rets)
    for i, r in enumerate(recs):
        if r['kind'] == 'comp':
            ok, node = not r['filters'], r['node']
        else:
            lp = r['loop']
            S = set(cfg.nodes_of_all(r['stores']))
            heads = [n for n in cfg.nodes_of(lp) if cfg.nodes[n].kind == 'head']
            iters = [n.id for n in cfg.nodes if n.kind == 'iter' and n.stmt is lp]
            # a store that raises has not stored: the exceptional ways out of it count as ways round it
            unstored = [m for (n, m) in cfg.exc_edges if n in S]
            reached = cfg.reach(iters + unstored, avoid=S)
            ok, node = not ((set(heads) | set(ret_nodes)) & reached), r['stores'][0]
        rep.check(rule, fkey(mp, 'every binding of self.%s gets a value%s' % (r['table'], '' if i == 0 else ' (%d)' % i)), ok,
                  'a mapping returned by match_path has a value for every binding of self.%s' % r['table'] if ok else
                  'match_path can return a mapping that lacks a binding of self.%s (%s): binding counted every name of the pattern as '
                  'provided by the URL, so a function requiring that name is accepted at construction and then called without it'
                  % (r['table'], 'the comprehension filters the table' if r['kind'] == 'comp' else
                     'an iteration of the loop can end without the store under its key having completed'), mp.mod, node)


def url_source_info(repo):
    """The bind-time view of the URL bindings in BoundRoute.__init__.  -> (bi, table, keys_view, claimed): ``table`` is the
    attribute of self whose keys match_path turns into URL parameters; ``keys_view(e)`` says whether the expression ``e``
    of BoundRoute.__init__ denotes exactly the keys of that table (the table itself, ``.keys()``, order / container
    changing copies, an unfiltered comprehension, a local or another attribute of self bound once to such a view);
    ``claimed`` are the expressions declared to be the names the URL provides (the ``'url'`` entries of the source maps)."""
    bi = repo.mod(ROUTE).func('BoundRoute.__init__')
    _mp, _rets, recs = url_param_fillers(repo)
    tables = sorted(set(r['table'] for r in recs))
    if len(tables) != 1:
        raise AnalysisError('BoundRoute.match_path fills the URL parameters from several tables: %r' % tables)
    table = tables[0]
    texts = {'self.%s' % table}
    for s_ in stmts_of(bi.node):
        if isinstance(s_, ast.Assign) and len(s_.targets) == 1 and isinstance(s_.value, ast.Name) and norm(s_.targets[0]) == 'self.%s' % table and \
                len(assigned_value(bi.node, s_.value.id)) == 1 and s_.value.id not in bi.params():
            texts.add(s_.value.id)

    def is_table(e, depth=0):
        if isinstance(e, ast.Call) and call_name(e) == 'dict' and len(e.args) == 1 and not e.keywords:
            return is_table(e.args[0], depth)
        if isinstance(e, ast.Call) and isinstance(e.func, ast.Attribute) and e.func.attr == 'copy' and not e.args and not e.keywords:
            return is_table(e.func.value, depth)
        return norm(e) in texts

    def attr_values(text):
        out = []
        for s_ in stmts_of(bi.node):
            tgs = s_.targets if isinstance(s_, ast.Assign) else ([s_.target] if isinstance(s_, (ast.AugAssign, ast.AnnAssign)) else [])
            for t in tgs:
                if norm(t) == text:
                    out.append(s_.value if isinstance(s_, (ast.Assign, ast.AnnAssign)) and len(tgs) == 1 else None)
                elif isinstance(t, (ast.Tuple, ast.List)) and any(norm(x) == text for x in t.elts):
                    out.append(None)
        return out

    def keys_view(e, depth=0):
        if depth > 5 or e is None:
            return False
        e = _unwrap_seq(e)
        if is_table(e):
            return True
        if isinstance(e, ast.Call) and isinstance(e.func, ast.Attribute) and e.func.attr == 'keys' and not e.args and not e.keywords:
            return is_table(e.func.value)
        if isinstance(e, (ast.ListComp, ast.SetComp, ast.GeneratorExp)) and len(e.generators) == 1 and not e.generators[0].ifs and \
                isinstance(e.elt, ast.Name):
            g = e.generators[0]
            it = _unwrap_seq(g.iter)
            if isinstance(it, ast.Call) and isinstance(it.func, ast.Attribute) and it.func.attr == 'items' and not it.args:
                return _key_var(g.target, 'items') == e.elt.id and is_table(it.func.value)
            return _key_var(g.target, 'keys') == e.elt.id and keys_view(it, depth + 1)
        if isinstance(e, ast.Name) and e.id not in bi.params():
            vals = assigned_value(bi.node, e.id)
            return len(vals) == 1 and vals[0][2] is None and isinstance(vals[0][0], ast.Assign) and keys_view(vals[0][1], depth + 1)
        if _self_attr(e):
            vals = attr_values(norm(e))
            return len(vals) == 1 and vals[0] is not None and keys_view(vals[0], depth + 1)
        return False
    claimed = []
    for n in walk_body(bi.node):
        if isinstance(n, ast.Dict):
            claimed.extend(v for k, v in zip(n.keys, n.values) if isinstance(k, ast.Constant) and k.value == 'url')
        elif isinstance(n, ast.Call) and call_name(n) == 'dict':
            claimed.extend(k.value for k in n.keywords if k.arg == 'url')
        elif isinstance(n, ast.Assign) and len(n.targets) == 1 and isinstance(n.targets[0], ast.Subscript) and \
                isinstance(n.targets[0].slice, ast.Constant) and n.targets[0].slice.value == 'url':
            claimed.append(n.value)
    return bi, table, keys_view, claimed


def check_url_source_agreement(rep, rule):
    """Table agreement between the matcher and the bind-time check: the names BoundRoute.__init__ declares as provided by the
    URL (the ``'url'`` source handed to check_middlewares / folded into the preprovided set) are the keys of the very table
    match_path fills the URL parameters from -- not a second list derived in some other way (from the route being wrapped,
    by another scan of the pattern).  A binding the matcher fills but the source lacks is not passed to a function that
    declares it (a defaulted parameter silently keeps its default; an undefaulted one is refused at construction); a name
    the source offers but the matcher does not bind is accepted at construction and missing on every request."""
    repo = rep.repo
    bi, table, keys_view, claimed = url_source_info(repo)
    if not claimed:
        raise AnalysisError("BoundRoute.__init__: the 'url' entry of the source map was not found")
    for i, e in enumerate(claimed):
        ok = keys_view(e)
        rep.check(rule, fkey(bi, "the 'url' source is the table match_path binds from%s" % ('' if i == 0 else ' (%d)' % i)), ok,
                  'the names counted as provided by the URL are the keys of self.%s, the table match_path fills the URL parameters from' % table
                  if ok else
                  'the names counted as provided by the URL at bind time (%s) are not taken from self.%s, the table match_path fills the '
                  'URL parameters from: where the two lists differ, a binding the matcher fills is not offered to the functions that declare '
                  'it (a parameter with a default silently keeps the default), or a name is accepted at construction that no request '
                  'ever supplies' % (short(e, 50), table), bi.mod, e)


# ---------------------------------------------------------------------------------------------
# R03.d: what binding reads off the application is assigned before the constructor binds anything
# ---------------------------------------------------------------------------------------------

def app_attrs_read_at_bind(repo):
    """Attributes BoundRoute.__init__ reads off the application it binds to (``app.x``, ``getattr(app, 'x', ..)``, the same on
    a local alias or on the elements of a list built with ``[app]`` in it).  -> (bi, {attribute: node})"""
    bi = repo.mod(ROUTE).func('BoundRoute.__init__')
    ps = bi.params()
    if len(ps) < 3:
        raise AnalysisError('BoundRoute.__init__: parameters (route, app) not found')
    aliases, holders = {ps[2]}, set()
    for _ in range(3):
        for n in walk_body(bi.node):
            if isinstance(n, ast.Assign) and isinstance(n.value, ast.Name) and n.value.id in aliases:
                aliases.update(t.id for t in n.targets if isinstance(t, ast.Name))
            elif isinstance(n, ast.Assign) and any(isinstance(x, ast.List) and any(isinstance(y, ast.Name) and y.id in aliases for y in x.elts)
                                                   for x in ast.walk(n.value)):
                for t in n.targets:
                    for x in (t.elts if isinstance(t, (ast.Tuple, ast.List)) else [t]):
                        holders.add(norm(x))
            elif isinstance(n, ast.Assign) and norm(n.value) in holders:
                holders.update(norm(t) for t in n.targets)
            its = []
            if isinstance(n, ast.For):
                its.append((n.target, n.iter))
            elif isinstance(n, (ast.ListComp, ast.SetComp, ast.GeneratorExp, ast.DictComp)):
                its.extend((g.target, g.iter) for g in n.generators)
            for tg, it in its:
                if isinstance(tg, ast.Name) and norm(_unwrap_seq(it)) in holders:
                    aliases.add(tg.id)
    reads = {}
    for n in walk_body(bi.node):
        if isinstance(n, ast.Attribute) and isinstance(n.ctx, ast.Load) and isinstance(n.value, ast.Name) and n.value.id in aliases:
            reads.setdefault(n.attr, n)
        elif isinstance(n, ast.Call) and call_name(n) == 'getattr' and len(n.args) >= 2 and isinstance(n.args[0], ast.Name) and \
                n.args[0].id in aliases and isinstance(n.args[1], ast.Constant) and isinstance(n.args[1].value, str):
            reads.setdefault(n.args[1].value, n)
    return bi, reads


def check_bound_after_state(rep, rule, only=None):
    """Def-use order in Application.__init__: binding a route to the application reads the application's state (its
    middlewares, resources, slash mode, error handler, render factory), so every statement of the constructor that binds
    -- ``<route>.bind(self)`` / ``bind_all(self)``, or a method of the class that does so (``self.add(..)``) -- is dominated by
    the assignment of each of those attributes the constructor makes (directly or through a method it calls on self).  A
    route bound earlier is built from the attribute's fallback (``getattr(app, 'middlewares', [])``): e.g. it runs outside the
    application's middleware stack."""
    repo = rep.repo
    app = repo.mod(APP)
    ai = app.func('Application.__init__')
    cls = app.cls('Application')
    bi, reads = app_attrs_read_at_bind(repo)
    cfg = cfg_of(ai)

    def binds_self(c):
        return isinstance(c, ast.Call) and call_tail(c) in ('bind', 'bind_all') and isinstance(c.func, ast.Attribute) and \
            any(norm(a) == 'self' for a in c.args)
    binders = set(m for m, f in cls.methods.items() if m != '__init__' and any(binds_self(c) for c in walk_body(f.node)))
    for _ in range(2):
        binders |= set(m for m, f in cls.methods.items() if m != '__init__' and
                       any(isinstance(c, ast.Call) and isinstance(c.func, ast.Attribute) and norm(c.func.value) == 'self' and c.func.attr in binders
                           for c in walk_body(f.node)))

    def self_call(c):
        return c.func.attr if isinstance(c, ast.Call) and isinstance(c.func, ast.Attribute) and norm(c.func.value) == 'self' else None
    sites = [s_ for s_ in stmts_of(ai.node) if not isinstance(s_, (ast.If, ast.For, ast.While, ast.Try, ast.With)) and
             any(binds_self(c) or self_call(c) in binders for c in ast.walk(s_))]
    if not sites:
        raise AnalysisError('Application.__init__: no statement that binds a route to the application was found')

    def writes(attr):
        text = 'self.%s' % attr

        def assigns(st):
            tgs = st.targets if isinstance(st, ast.Assign) else ([st.target] if isinstance(st, (ast.AugAssign, ast.AnnAssign)) else [])
            return any(norm(x) == text for t in tgs for x in (t.elts if isinstance(t, (ast.Tuple, ast.List)) else [t]))
        out = []
        for s_ in stmts_of(ai.node):
            if assigns(s_):
                out.append(s_)
            elif not isinstance(s_, (ast.If, ast.For, ast.While, ast.Try, ast.With)):
                for c in ast.walk(s_):
                    m = cls.methods.get(self_call(c)) if self_call(c) else None
                    if m is not None and any(assigns(x) for x in stmts_of(m.node)):
                        out.append(s_)
                        break
        return out
    for attr in sorted(reads):
        if only is not None and attr not in only:
            continue
        ws = writes(attr)
        if not ws:
            continue          # not set by the constructor (a class attribute, a property): no order to keep
        wn = cfg.nodes_of_all(ws)
        late = [s_ for s_ in sites if not cfg.must_pass(wn, cfg.entry, cfg.nodes_of(s_))]
        ok = not late
        rep.check(rule, fkey(ai, 'self.%s assigned before anything is bound' % attr), ok,
                  'self.%s is assigned before the constructor binds any route (binding reads it off the application)' % attr if ok else
                  'Application.__init__ binds a route (%s) on a path where self.%s is not assigned yet: BoundRoute.__init__ reads it off the '
                  'application (%s), so that route is built from the fallback -- e.g. with an empty middleware stack, outside the '
                  "application's middlewares" % (short(late[0], 60), attr, short(reads[attr], 50)), ai.mod, late[0] if late else ws[0])


# ---------------------------------------------------------------------------------------------
# R01.a / R04.a: the name sources BoundRoute.__init__ hands to check_middlewares / make_middleware_chain
# ---------------------------------------------------------------------------------------------

def eval_bind_sources(repo, expr, before_stmt):
    """Value of a set- / dict-of-sets-valued expression of BoundRoute.__init__ over the atoms URL (names bound by the
    path pattern), BUILTINS (RESERVED_ARGS) and RES (keys of the merged resources), evaluated just before
    ``before_stmt``.  The path converters / the merged resources may be referred to through ``self`` or through the
    local that was stored there.  -> (universe, plain value); Unmodelled when the expression leaves the subset."""
    bi, table, keys_view, claimed = url_source_info(repo)
    # URL: the keys of the table match_path fills the URL parameters from (by provenance, see url_source_info); a list declared
    # to be the names the URL provides that is *not* a view of that table is an atom of its own (the sets then differ)
    uni = Universe(['URL', 'BUILTINS', 'RES', 'URL_NAMES_NOT_FROM_THE_MATCHER_TABLE'])
    texts = {'RES': {'self.resources'}}
    for s_ in stmts_of(bi.node):
        if isinstance(s_, ast.Assign) and len(s_.targets) == 1 and isinstance(s_.value, ast.Name) and \
                len(assigned_value(bi.node, s_.value.id)) == 1 and s_.value.id not in bi.params():
            if norm(s_.targets[0]) == 'self.resources':
                texts['RES'].add(s_.value.id)
    for k in list(texts):
        texts[k] |= set(t + '.keys()' for t in texts[k])
    other = set(norm(_unwrap_seq(x)) for x in claimed if not keys_view(x))

    def atom_of(e):
        t = norm(e)
        for k, ts in texts.items():
            if t in ts:
                return uni[k]
        if keys_view(e):
            return uni['URL']
        if norm(_unwrap_seq(e)) in other:
            return uni['URL_NAMES_NOT_FROM_THE_MATCHER_TABLE']
        if t == 'RESERVED_ARGS' and repo.try_fold(e, bi.mod) is not None:
            return uni['BUILTINS']
        return None

    def model(it, e):
        if isinstance(e, ast.Call) and call_name(e) in ('set', 'frozenset', 'list', 'tuple', 'sorted') and len(e.args) == 1 and not e.keywords:
            return atom_of(e.args[0])
        if isinstance(e, ast.Name) and e.id == 'RESERVED_ARGS':
            return atom_of(e)
        if isinstance(e, (ast.Call, ast.Attribute, ast.ListComp, ast.SetComp, ast.GeneratorExp)) and (keys_view(e) or norm(_unwrap_seq(e)) in other):
            return atom_of(e)
        return None
    it = SetInterp(uni, model=model)
    # backward slice: execute only the simple assignments the expression (transitively) depends on
    need = set(n.id for n in ast.walk(expr) if isinstance(n, ast.Name))
    prior = []
    for s_ in stmts_of(bi.node):
        if s_ is before_stmt:
            break
        prior.append(s_)
    chosen = []
    for s_ in reversed(prior):
        if isinstance(s_, (ast.Assign, ast.AugAssign)):
            tgs = s_.targets if isinstance(s_, ast.Assign) else [s_.target]
            names = set()
            for t in tgs:
                for x in (t.elts if isinstance(t, (ast.Tuple, ast.List)) else [t]):
                    if isinstance(x, ast.Name):
                        names.add(x.id)
                    elif isinstance(x, ast.Starred) and isinstance(x.value, ast.Name):
                        names.add(x.value.id)
            if names & need:
                chosen.append(s_)
                need |= set(n.id for n in ast.walk(s_.value) if isinstance(n, ast.Name))
        elif isinstance(s_, ast.Expr) and isinstance(s_.value, ast.Call) and isinstance(s_.value.func, ast.Attribute) and \
                isinstance(s_.value.func.value, ast.Name) and s_.value.func.value.id in need:
            chosen.append(s_)
            need |= set(n.id for n in ast.walk(s_.value) if isinstance(n, ast.Name))
    for s_ in reversed(chosen):
        it.exec_stmt(s_)
    return uni, it.eval(expr)


# ---------------------------------------------------------------------------------------------
# R02.b (inject), R02.c (layers), R02.d (identity)
# ---------------------------------------------------------------------------------------------

def _is_varkw_cond(t, pol):
    """The condition says the callee declares ``**kwargs``: fb.varkw / bool(fb.varkw) / fb.varkw is not None."""
    if isinstance(t, ast.Call) and call_name(t) == 'bool' and len(t.args) == 1:
        t = t.args[0]
    if isinstance(t, ast.Attribute) and t.attr == 'varkw':
        return pol is True
    if isinstance(t, ast.Compare) and len(t.ops) == 1 and isinstance(t.left, ast.Attribute) and t.left.attr == 'varkw' and \
            isinstance(t.comparators[0], ast.Constant) and t.comparators[0].value is None:
        return (isinstance(t.ops[0], (ast.IsNot, ast.NotEq)) and pol is True) or (isinstance(t.ops[0], (ast.Is, ast.Eq)) and pol is False)
    return False


def check_inject(rep, r_decl, r_layers):
    repo = rep.repo
    fi = repo.mod(SINTER).func('inject')
    sinter = fi.mod        # the module the definition lives in now
    ps = fi.params()  # f, injectables
    calls = [c for c in walk_body(fi.node) if isinstance(c, ast.Call) and norm(c.func) == ps[0]]
    if not calls:
        raise AnalysisError('inject: call of the injected function not found')

    def all_names(e):
        """``e`` evaluates to every declared parameter name of the callee: fb.get_arg_names(), maybe under a local name."""
        e = _deref(fi, e)
        while isinstance(e, ast.Call) and call_name(e) in ('set', 'frozenset', 'list', 'tuple') and len(e.args) == 1:
            e = _deref(fi, e.args[0])
        return isinstance(e, ast.Call) and call_tail(e) == 'get_arg_names' and isinstance(e.func, ast.Attribute) and not e.args and not e.keywords

    def key_test(t, pol, keyvar):
        return pol is True and isinstance(t, ast.Compare) and len(t.ops) == 1 and isinstance(t.ops[0], ast.In) and \
            norm(t.left) == keyvar and all_names(t.comparators[0])

    def filtered_dict(name):
        """Every way ``name`` gets an entry admits declared names only."""
        defs = [s_ for s_ in stmts_of(fi.node) if isinstance(s_, ast.Assign) and any(norm(t) == name for t in s_.targets)]
        stores = [s_ for s_ in stmts_of(fi.node) if isinstance(s_, ast.Assign) and any(isinstance(t, ast.Subscript) and norm(t.value) == name
                                                                                        for t in s_.targets)]
        muts = [c for c in walk_body(fi.node) if isinstance(c, ast.Call) and isinstance(c.func, ast.Attribute) and norm(c.func.value) == name
                and c.func.attr in ('update', 'setdefault')]
        if len(defs) != 1 or muts:
            return False
        v = defs[0].value
        if isinstance(v, ast.DictComp) and len(v.generators) == 1 and not stores:
            g = v.generators[0]
            keyvar = norm(g.target.elts[0]) if isinstance(g.target, ast.Tuple) and g.target.elts else norm(g.target)
            return norm(v.key) == keyvar and any(key_test(*_strip_not(i), keyvar) for i in g.ifs)
        empty = (isinstance(v, ast.Dict) and not v.keys) or (isinstance(v, ast.Call) and call_name(v) == 'dict' and not v.args and not v.keywords)
        if empty and stores:
            for s_ in stores:
                t = [t for t in s_.targets if isinstance(t, ast.Subscript)][0]
                if not any(key_test(ct, cp, norm(t.slice)) for ct, cp in conds(fi, s_)):
                    return False
            return True
        return False
    def is_filter(v, name=None):
        """``{k: v for k, v in <mapping>.items() if k in fb.get_arg_names()}`` (with ``name``: a filter of that very dict)."""
        if not (isinstance(v, ast.DictComp) and len(v.generators) == 1):
            return False
        g = v.generators[0]
        keyvar = norm(g.target.elts[0]) if isinstance(g.target, ast.Tuple) and g.target.elts else norm(g.target)
        if not (norm(v.key) == keyvar and any(key_test(*_strip_not(i), keyvar) for i in g.ifs)):
            return False
        if name is None:
            return True
        return isinstance(g.target, ast.Tuple) and len(g.target.elts) == 2 and norm(v.value) == norm(g.target.elts[1]) and \
            norm(g.iter) == name + '.items()'

    def mentions(st, name):
        return any(isinstance(n, ast.Name) and n.id == name for n in ast.walk(st))

    def filtered_unless_varkw(c, name):
        """Single exit: ``if <no **kwargs>: name = {declared-only filter}`` stands right before the call (nothing in between
        touches ``name``), so the call passes everything only to a callee that takes **kwargs."""
        cst = stmt_of(fi.mod, c)
        for blk in [fi.node.body] + [b for s_ in stmts_of(fi.node) for b in (getattr(s_, 'body', None), getattr(s_, 'orelse', None),
                                                                                getattr(s_, 'finalbody', None)) if isinstance(b, list)]:
            if not any(x is cst for x in blk):
                continue
            i = [k for k, x in enumerate(blk) if x is cst][0]
            if any(n is not c and isinstance(n, ast.Name) and n.id == name for n in ast.walk(cst) if n is not star[0]):
                return False
            for s_ in reversed(blk[:i]):
                if not mentions(s_, name):
                    continue
                if not isinstance(s_, ast.If):
                    return False
                t, pol = _strip_not(s_.test)
                if _is_varkw_cond(t, pol):
                    narrow = s_.orelse
                elif _is_varkw_cond(t, not pol):
                    narrow = s_.body
                else:
                    return False
                asg = [k for k, x in enumerate(narrow) if isinstance(x, ast.Assign) and len(x.targets) == 1 and norm(x.targets[0]) == name]
                if not asg:
                    return False
                k = asg[-1]
                return is_filter(narrow[k].value) and not any(mentions(x, name) for x in narrow[k + 1:])
            return False
        return False
    for c in calls:
        star = [k.value for k in c.keywords if k.arg is None]
        ok = not c.args and len(star) == 1 and len(c.keywords) == 1
        filtered = False
        how = ''
        if ok:
            name = norm(star[0])
            cs = conds(fi, c)
            if any(_is_varkw_cond(t, p) for t, p in cs):
                filtered = True
                how = 'the callee takes **kwargs (everything may be passed)'
            elif filtered_dict(name):
                filtered = True
                how = 'only names in fb.get_arg_names() are passed'
            elif filtered_unless_varkw(c, name):
                filtered = True
                how = 'only names in fb.get_arg_names() are passed unless the callee takes **kwargs'
        rep.check(r_decl, fkey(fi, c), ok and filtered,
                  'outermost call passes keywords only; ' + how if ok and filtered else
                  'inject may pass a name the function does not declare (no get_arg_names() filter and no **kwargs guard): %s' % short(c),
                  sinter, c)
    # layers: defaults strictly below injectables -- the dict that starts from the signature defaults
    lay = None
    names = set()
    for st in stmts_of(fi.node):
        if isinstance(st, ast.Assign):
            for t in st.targets:
                if isinstance(t, ast.Name):
                    names.add(t.id)
    # ``d = {k: v for k, v in d.items() if k in declared}`` drops entries of d and changes no value: the layers of d are
    # what they were, so the layering is read with these self-filters left out
    import copy as _copy
    view = _copy.deepcopy(fi.node)
    for n in ast.walk(view):
        for fld in ('body', 'orelse', 'finalbody'):
            b = getattr(n, fld, None)
            if isinstance(b, list):
                b[:] = [x for x in b if not (isinstance(x, ast.Assign) and len(x.targets) == 1 and isinstance(x.targets[0], ast.Name)
                                             and is_filter(x.value, x.targets[0].id))] or [ast.Pass()]
    for v in sorted(names):
        try:
            ls = layers_of_var(view, v)
        except AnalysisError:
            continue
        if any('get_defaults_dict' in l.text for l in ls):
            lay = (v, ls)
    if lay is None:
        raise AnalysisError('inject: layered kwargs dict not found')
    v, ls = lay
    i_def = index_of(ls, lambda l: 'get_defaults_dict' in l.text)
    i_inj = index_of(ls, lambda l: l.text == ps[1])
    ok = i_def is not None and i_inj is not None and i_def < i_inj and len(ls) == 2
    rep.check(r_layers, fkey(fi, 'defaults below injectables'), ok,
              "a parameter's own default is the lowest layer: %s" % [l.text for l in ls] if ok else
              'defaults are not strictly below the injectables (a default would override an offered value): %s' % [l.text for l in ls],
              sinter, fi.node)
    # what is filtered / passed on is that layered dict
    used = set()
    for c in calls:
        for k in c.keywords:
            if k.arg is None:
                n = norm(k.value)
                used.add(n)
                for s_ in stmts_of(fi.node):
                    if isinstance(s_, ast.Assign) and any(norm(t) == n for t in s_.targets):
                        used |= set(x.id for x in ast.walk(s_.value) if isinstance(x, ast.Name))
                    if isinstance(s_, ast.For) and any(isinstance(q, ast.Assign) and any(isinstance(t, ast.Subscript) and norm(t.value) == n
                                                                                         for t in q.targets) for q in ast.walk(s_)):
                        used |= set(x.id for x in ast.walk(s_.iter) if isinstance(x, ast.Name))
    ok = v in used
    rep.check(r_layers, fkey(fi, 'layered dict is what is passed'), ok, 'the call arguments derive from %s' % v if ok else
              'the dict layered as defaults < injectables (%s) is not what the call passes' % v, sinter, fi.node)


def _coalesce_literals(ls):
    """Adjacent literal layers (``d = {'a': x}; d['b'] = y; d.update({'c': z})``) are one literal layer: among themselves a
    later entry for the same key wins, and nothing else comes between them."""
    from ..layers import Layer
    out = []
    for l in ls:
        if out and l.kind == 'literal' and out[-1].kind == 'literal' and not l.below and not out[-1].below:
            prev = out[-1]
            keys = [k for k in prev.keys if k not in l.keys] + list(l.keys)
            values = dict(prev.values)
            values.update(l.values)
            out[-1] = Layer('literal', '{%s}' % ', '.join(map(str, keys)), prev.node, keys, values)
        else:
            out.append(l)
    return out


def check_request_layers(rep, rule, rule_identity=None):
    repo = rep.repo
    route = repo.mod(ROUTE)
    app = repo.mod(APP)
    reserved = set(route.const('RESERVED_ARGS'))

    def plain(l):
        """A layer source that moves objects without copying / transforming the values."""
        e = l.node
        if l.kind == 'literal':
            return True
        if isinstance(e, (ast.Name, ast.Attribute)):
            return True
        if isinstance(e, ast.Call) and call_name(e) == 'getattr' and len(e.args) == 3 and isinstance(e.args[2], ast.Dict) and not e.args[2].keys:
            return True
        return False
    # -- BoundRoute.execute / execute_error
    for q, extra in (('BoundRoute.execute', set()), ('BoundRoute.execute_error', {'_error'})):
        fi = route.func(q)
        inj = [c for c in walk_body(fi.node) if isinstance(c, ast.Call) and call_name(c) == 'inject']
        if len(inj) != 1:
            raise AnalysisError('%s: expected one inject call' % q)
        if len(inj[0].args) < 2:
            raise AnalysisError('%s: inject call without the injectables argument' % q)
        ls = _coalesce_literals(layers_of_value(fi.node, inj[0].args[1]))
        i_lit = index_of(ls, lambda l: l.kind == 'literal')
        i_res = index_of(ls, lambda l: l.text == 'self.resources')
        i_kw = index_of(ls, lambda l: l.text == 'kwargs')
        ok = None not in (i_lit, i_res, i_kw) and i_lit < i_res < i_kw and len(ls) == 3
        rep.check(rule, fkey(fi, 'layers'), ok,
                  'built-ins < bound resources < call-time parameters: %s' % [l.text for l in ls] if ok else
                  'injectables of %s are not layered {built-ins} < self.resources < kwargs: %s' % (q, [l.text for l in ls]), route, inj[0])
        if i_lit is not None:
            lit = ls[i_lit]
            want = {'_route': 'self', 'request': 'request', '_application': 'self.bound_apps[-1]'}
            want.update((k, k) for k in extra)
            got = dict((k, norm(_deref(fi, val) if isinstance(val, ast.Name) and val.id not in fi.params() else val))
                       for k, val in lit.values.items())
            ok = got == want
            rep.check(rule, fkey(fi, 'built-in values'), ok, 'each built-in name is bound to the object it names: %s' % got if ok else
                      'built-in injectables are mis-bound: %s (expected %s)' % (got, want), route, lit.node)
        if rule_identity:
            bad = [l.text for l in ls if not plain(l)]
            rep.check(rule_identity, fkey(fi, 'identity'), not bad, 'values are moved between dicts, never passed through a call' if not bad else
                      'resource/parameter values pass through %s before injection (copied or transformed, identity lost)' % bad, route, inj[0])
        first = norm(_deref(fi, inj[0].args[0]))
        ok = first == ('self._execute' if q.endswith('execute') else 'self.render_error')
        rep.check(rule, fkey(fi, 'injected callable'), ok, 'injects into %s' % first if ok else 'injects into %s' % first, route, inj[0])
    # -- Application.dispatch
    fi = app.func('Application.dispatch')
    exe = [c for c in walk_body(fi.node) if isinstance(c, ast.Call) and norm(c.func).endswith('.execute')]
    if len(exe) != 1:
        raise AnalysisError('Application.dispatch: expected one route.execute call')
    star = [k.value for k in exe[0].keywords if k.arg is None]
    if len(star) != 1 or exe[0].args or len(exe[0].keywords) != 1:
        rep.fail(rule, fkey(fi, 'execute(**params)'), 'route.execute is not called with exactly **params: %s' % short(exe[0]), app, exe[0])
        return
    pv = norm(star[0])
    ls = layers_of_value(fi.node, star[0])
    # expand one level: params = dict(base_params, **path_params)
    flat = []
    for l in ls:
        if l.kind == 'source' and isinstance(l.node, ast.Name):
            sub = layers_of_var(fi.node, l.text)
            if sub and not (len(sub) == 1 and sub[0].kind == 'source' and not isinstance(sub[0].node, (ast.Dict,)) and
                            not (isinstance(sub[0].node, ast.Call) and call_name(sub[0].node) == 'dict')):
                flat.extend(sub)
                continue
        flat.append(l)
    # the URL parameters: the local(s) bound to the result of <route>.match_path(...)
    path_vars = [norm(s_.targets[0]) for s_ in stmts_of(fi.node) if isinstance(s_, ast.Assign) and isinstance(s_.value, ast.Call)
                 and norm(s_.value.func).endswith('.match_path') and isinstance(s_.targets[0], ast.Name)]
    i_res = index_of(flat, lambda l: l.text == 'self.resources')
    i_lit = index_of(flat, lambda l: l.kind == 'literal')
    i_path = index_of(flat, lambda l: l.text in path_vars)
    ok = None not in (i_res, i_lit, i_path) and i_res < i_lit < i_path and len(flat) == 3
    rep.check(rule, fkey(fi, 'layers'), ok,
              "serving application's resources < {request, _application, _dispatch_state} < URL parameters: %s" % [l.text for l in flat] if ok else
              'dispatch parameters are not layered self.resources < built-ins < path_params: %s' % [l.text for l in flat], app, exe[0])
    if i_lit is not None:
        lit = flat[i_lit]
        got = dict((k, norm(val)) for k, val in lit.values.items())
        dsv = [norm(s.targets[0]) for s in stmts_of(fi.node) if isinstance(s, ast.Assign) and isinstance(s.value, ast.Call)
               and call_name(s.value) == 'DispatchState']
        want = {'request': fi.params()[1], '_application': 'self', '_dispatch_state': dsv[0] if dsv else '?'}
        rep.check(rule, fkey(fi, 'built-in values'), got == want, 'built-ins are bound to the objects they name: %s' % got if got == want else
                  'dispatch built-ins mis-bound: %s (expected %s)' % (got, want), app, lit.node)
    if rule_identity:
        bad = [l.text for l in flat if not plain(l)]
        rep.check(rule_identity, fkey(fi, 'identity'), not bad, 'values are moved between dicts, never passed through a call' if not bad else
                  'values pass through %s before injection' % bad, app, exe[0])
    # the per-route parameter dict is built afresh for every candidate route: values of a route that matched the
    # path but was skipped (method mismatch, non-breaking error) must not leak into later routes
    from .. import effects as _eff
    loops = [s for s in stmts_of(fi.node) if isinstance(s, ast.For) and any(exe[0] is x for x in ast.walk(s))]
    if len(loops) == 1:
        lp = loops[0]
        inloop = [s for s in ast.walk(lp) if isinstance(s, ast.Assign) and norm(s.targets[0]) == pv]
        ok = len(inloop) >= 1 and all((isinstance(s.value, ast.Call) and call_name(s.value) == 'dict') or isinstance(s.value, ast.Dict)
                                      for s in inloop)
        rep.check(rule, fkey(fi, 'fresh params per route'), ok,
                  'the parameter dict handed to route.execute is constructed anew for every candidate route' if ok else
                  '%s is not a freshly constructed dict per route (it aliases a dict that outlives the iteration): URL parameters of a '
                  'skipped route leak into later routes' % pv, app, inloop[0] if inloop else lp)
        outer = set()
        for s in stmts_of(fi.node):
            if isinstance(s, ast.Assign) and not any(s is x for x in ast.walk(lp)):
                for t in s.targets:
                    if isinstance(t, ast.Name):
                        outer.add(t.id)
        layer_names = set(l.text for l in ls if l.kind == 'source' and isinstance(l.node, ast.Name)) | {pv}
        leaks = []
        for st_ in lp.body:
            for n_ in ast.walk(st_):
                pass
        class _F(object):
            pass
        fake = ast.FunctionDef(name='loop', args=fi.node.args, body=lp.body, decorator_list=[], returns=None, type_comment=None, type_params=[])
        for e in _eff.effects_in(fake):
            if e.root in outer and e.root in layer_names and not any(isinstance(s, ast.Assign) and norm(s.targets[0]) == e.root
                                                                     for s in ast.walk(lp)):
                leaks.append(e)
        rep.check(rule, fkey(fi, 'no loop-carried parameter dict'), not leaks,
                  'no parameter dict built before the loop is mutated inside it' if not leaks else
                  'a dict built once per request (%s) is mutated inside the route loop: one route\'s parameters are still there for the next'
                  % sorted(set(e.root for e in leaks)), app, leaks[0].node if leaks else lp)
    top_name = flat[i_path].text if i_path is not None else None
    pp = [s for s in stmts_of(fi.node) if isinstance(s, ast.Assign) and top_name is not None and norm(s.targets[0]) == top_name]
    ok = len(pp) == 1 and isinstance(pp[0].value, ast.Call) and norm(pp[0].value.func).endswith('.match_path')
    rep.check(rule, fkey(fi, 'path_params source'), ok, 'URL parameters are the converted values returned by route.match_path' if ok else
              'path_params is not the result of route.match_path', app, pp[0] if pp else fi.node)
    # -- bind time: app below route
    bi = route.func('BoundRoute.__init__')
    ls = layers_of_var(bi.node, 'self.resources')
    flat = []
    for l in ls:
        if l.kind == 'source' and isinstance(l.node, ast.Name):
            srcs = [s.value for s in stmts_of(bi.node) if isinstance(s, ast.Assign) and norm(s.targets[0]) == l.text]
            if len(srcs) == 1:
                flat.append((norm(srcs[0]), l))
                continue
        flat.append((l.text, l))
    texts = [t for t, _ in flat]
    bps = bi.params()     # self, route, app

    def res_of(t, who):
        while t.startswith('dict(') and t.endswith(')'):
            t = t[5:-1]            # a shallow copy of the mapping holds the same values
        if t.endswith('.copy()'):
            t = t[:-7]
        return t in ('%s.resources' % who, "getattr(%s, 'resources', {})" % who, "getattr(%s, 'resources', None) or {}" % who,
                     '%s.resources or {}' % who)
    ok = len(texts) == 2 and len(bps) >= 3 and res_of(texts[0], bps[2]) and res_of(texts[1], bps[1])
    rep.check(rule, fkey(bi, 'resource layers'), ok, 'bind time: application resources < route resources: %s' % texts if ok else
              'BoundRoute resources are not layered app < route: %s' % texts, route, bi.node)
    if rule_identity:
        fresh = [s for s in stmts_of(bi.node) if isinstance(s, ast.Assign) and norm(s.targets[0]) == 'self.resources']
        val = _deref(bi, fresh[0].value) if len(fresh) == 1 else None      # a dict built here, directly or under a local name
        ok = len(fresh) == 1 and ((isinstance(val, ast.Call) and call_name(val) == 'dict') or
                                  isinstance(val, ast.Dict))
        rep.check(rule_identity, fkey(bi, 'resources container'), ok, 'the bound route keeps its own dict (values by identity)' if ok else
                  'self.resources is not a fresh dict()', route, bi.node)
