"""C15, rule R15.j -- the bookkeeping of a transparent middleware cannot fail once next() has answered.

A pass-through middleware that has its answer from ``next()`` (a response, or an exception on its way up) and then does work of its
own -- counting, timing, sampling, writing a header -- must get through that work: an exception raised there replaces the response
the application produced (a finished 200 turns into a 500; the ``finally`` block of a hook runs on both ways out).

Decided, for every middleware function (first parameter ``next``): in the part of the hook that can run after ``next()`` and -- calls
followed -- in the functions / methods of the analysed tree that part runs (receiver classes known from ``self`` / ``super()`` /
class attributes, constructor calls and the factories of the tables the middleware keeps: never from names), every

    index operation on a sequence      ``xs[i]``, ``xs[i] = v``, ``del xs[i]``  (not a slice: slices never raise)

is *total where it stands*: its path condition entails ``i < len(xs)`` (difference constraints over the tests on the way, named
temporaries and aliases looked through; the facts about ``len(xs)`` must not be stale: no other write to ``xs`` can run before it in
the call), or it sits in the body of a ``try`` whose handler catches IndexError and does not re-raise.  ``xs`` is a sequence when the
code says so: it is bound to a list display / ``list(..)`` / a comprehension / ``[..] * n`` / a slice of itself, or ``append`` /
``extend`` / ``insert`` is called on it (for ``self.<attr>``: anywhere in the methods of the class and its bases).  Objects whose
kind is not known (mappings with factories, library objects) are not judged.

Not decided here: lookups on request containers (R15.g), parsing (R15.i), arithmetic, negative indices below ``-len``.
"""
import ast

from ..core import AnalysisError, norm, short
from ..loader import ClassInfo
from .. import diffcon
from .common import cfg_of, fkey, conds, stmts_of, walk_body, stmt_of, call_tail, cond_texts, protected_by, handler_reraises_always

SEQ_GROWERS = {'append', 'extend', 'insert'}
SEQ_MUTATORS = {'append', 'insert', 'extend', 'pop', 'remove', 'clear', 'sort', 'reverse', '__setitem__', '__delitem__'}
MAX_DEPTH = 5


def _makes_sequence(v, own_text=None):
    """the expression evaluates to a list / tuple made here (or to a slice of ``own_text``)"""
    if isinstance(v, (ast.List, ast.Tuple, ast.ListComp)):
        return True
    if isinstance(v, ast.Call) and isinstance(v.func, ast.Name) and v.func.id in ('list', 'tuple', 'sorted'):
        return True
    if isinstance(v, ast.BinOp) and isinstance(v.op, (ast.Mult, ast.Add)):
        return _makes_sequence(v.left, own_text) or _makes_sequence(v.right, own_text)
    if isinstance(v, ast.Subscript) and isinstance(v.slice, ast.Slice) and own_text is not None and norm(v.value) == own_text:
        return True
    return False


def _assign_pairs(s):
    out = []
    if isinstance(s, ast.Assign):
        for t in s.targets:
            if isinstance(t, (ast.Tuple, ast.List)) and isinstance(s.value, (ast.Tuple, ast.List)) and len(t.elts) == len(s.value.elts) \
                    and not any(isinstance(e, ast.Starred) for e in t.elts + s.value.elts):
                out.extend(zip(t.elts, s.value.elts))
            else:
                out.append((t, s.value))
    elif isinstance(s, ast.AnnAssign) and s.value is not None:
        out.append((s.target, s.value))
    return out


def _self_name(fi):
    if fi.cls is None or not fi.node.args.args or any(isinstance(d, ast.Name) and d.id in ('staticmethod', 'classmethod') for d in fi.node.decorator_list):
        return None
    return fi.node.args.args[0].arg


def _is_sequence(repo, fi, recv_cls, base_text, L):
    """does the code say that ``base_text`` (an expression text of function ``fi``, named temporaries looked through) is a sequence?"""
    sn = _self_name(fi)
    parts = base_text.split('.')
    if sn is not None and len(parts) == 2 and parts[0] == sn and parts[1].isidentifier():
        attr = parts[1]
        classes = []
        for start in (recv_cls, fi.cls):
            if isinstance(start, ClassInfo):
                classes += [c for c in repo.mro(start) if isinstance(c, ClassInfo) and not c.mod.external and not any(c is x for x in classes)]
        for c in classes:
            for m in c.methods.values():
                msn = _self_name(m)
                if msn is None:
                    continue
                own = '%s.%s' % (msn, attr)
                Lm = None
                for n in walk_body(m.node):
                    if isinstance(n, ast.Call) and isinstance(n.func, ast.Attribute) and n.func.attr in SEQ_GROWERS:
                        t = norm(n.func.value)
                        if t != own and isinstance(n.func.value, ast.Name):
                            Lm = Lm or diffcon.Locals(m.node, cfg_of(m))
                            s_ = stmt_of(m.mod, n)
                            t = Lm.text(n.func.value, s_) if s_ is not None and cfg_of(m).nodes_of(s_) else t
                        if t == own:
                            return True
                for s_ in stmts_of(m.node):
                    for tg, v in _assign_pairs(s_):
                        if norm(tg) == own:
                            Lm = Lm or diffcon.Locals(m.node, cfg_of(m))
                            if _makes_sequence(Lm.resolve(v, s_) if cfg_of(m).nodes_of(s_) else v, own):
                                return True
        return False
    if base_text.isidentifier() and base_text not in fi.params():
        for n in walk_body(fi.node):
            if isinstance(n, ast.Call) and isinstance(n.func, ast.Attribute) and n.func.attr in SEQ_GROWERS and norm(n.func.value) == base_text:
                return True
        binds = [v for s_ in stmts_of(fi.node) for tg, v in _assign_pairs(s_) if norm(tg) == base_text]
        return bool(binds) and all(_makes_sequence(v, base_text) for v in binds)
    return False


def _post_next_nodes(fi):
    """CFG nodes of the hook that can run once next() was called (None: the whole body)"""
    from .c15 import is_next_call
    cfg = cfg_of(fi)
    next_stmts = [s for s in stmts_of(fi.node) if not isinstance(s, (ast.Try, ast.If, ast.For, ast.While, ast.With))
                  and any(is_next_call(c) for c in ast.walk(s) if isinstance(c, ast.Call))]
    if not next_stmts:
        return None
    return cfg.reach([m for n in cfg.nodes_of_all(next_stmts) for m in cfg.succ[n]])


class _Totality(object):
    def __init__(self, rep, rule):
        self.rep, self.rule, self.repo = rep, rule, rep.repo
        self.done = set()
        self.judged = {}
        from .c15_parse import _Walker
        self.walker = _Walker(self.repo)

    def callee(self, fi, recv_cls, call):
        """(FuncInfo, receiver class) of the function of the analysed tree the call runs, or None"""
        try:
            r = self.walker.callee(fi, recv_cls, call)
        except Exception:
            r = None
        if r is not None and r[0] is not None and not r[0].mod.external:
            return r[0], r[1]
        if isinstance(call.func, ast.Attribute):
            # an object the middleware keeps in its tables: its class is read off the factories / constructor calls
            from . import c19
            anchor = stmt_of(fi.mod, call)
            try:
                t = c19._type_of(self.repo, fi, call.func.value, anchor) if anchor is not None else None
            except AnalysisError:
                t = None
            if t is not None and t[0] == 'inst':
                m = self.repo.find_method(t[1], call.func.attr)
                if m is not None and not m.mod.external:
                    return m, t[1]
        return None

    def visit(self, fi, recv_cls, region, chain, depth=0):
        key = (fi.key, recv_cls.key if isinstance(recv_cls, ClassInfo) else None, region is None)
        if key in self.done or depth > MAX_DEPTH:
            return
        self.done.add(key)
        cfg = cfg_of(fi)
        mod = fi.mod
        L = diffcon.Locals(fi.node, cfg)

        def runs(node):
            s_ = node if isinstance(node, ast.stmt) else stmt_of(mod, node)
            if s_ is None:
                return False
            ns = [n for n in cfg.nodes_of(s_) if cfg.reachable(n)]
            return bool(ns) and (region is None or bool(set(ns) & region))
        for n in walk_body(fi.node):
            if isinstance(n, ast.Subscript) and not isinstance(n.slice, ast.Slice) and runs(n):
                self.judge(fi, recv_cls, n, L, chain)
            elif isinstance(n, ast.Call) and runs(n):
                r = self.callee(fi, recv_cls, n)
                if r is not None and r[0] is not fi:
                    self.visit(r[0], r[1], None, chain + [fi], depth + 1)

    def judge(self, fi, recv_cls, n, L, chain):
        mod, cfg = fi.mod, cfg_of(fi)
        s = stmt_of(mod, n)
        base_t = L.text(n.value, s)
        if not _is_sequence(self.repo, fi, recv_cls, base_t, L):
            return
        k = fkey(fi, 'index %s[%s]' % (norm(n.value), norm(n.slice)))
        if k in self.judged:
            return
        idx = norm(L.resolve(n.slice, s))
        length = 'len(%s)' % base_t
        cs = L.conds(conds(fi, n), mod)
        facts = diffcon.facts_from_conds(cs)
        # writes to the sequence (the facts about its length are stale once one of them ran)
        w_stmts = []
        for c in walk_body(fi.node):
            if isinstance(c, ast.Call) and isinstance(c.func, ast.Attribute) and c.func.attr in SEQ_MUTATORS:
                cs_ = stmt_of(mod, c)
                if cs_ is not None and L.text(c.func.value, cs_) == base_t:
                    w_stmts.append(cs_)
        for s_ in stmts_of(fi.node):
            tgs = s_.targets if isinstance(s_, (ast.Assign, ast.Delete)) else [s_.target] if isinstance(s_, (ast.AugAssign, ast.AnnAssign)) else []
            for t in tgs:
                if (isinstance(t, ast.Subscript) and L.text(t.value, s_) == base_t) or norm(t) == base_t:
                    w_stmts.append(s_)
        mine = set(cfg.nodes_of(s))
        others = set(cfg.nodes_of_all([w for w in w_stmts if w is not s])) - mine
        fresh = not (mine & cfg.reach([m for w in others for m in cfg.succ[w]]))
        entailed = diffcon.entails(facts, (idx, length, True)) and fresh
        h = protected_by(fi, n, 'IndexError')
        absorbed = h is not None and not handler_reraises_always(fi, h)
        ok = entailed or absorbed
        via = ' <- '.join(f.qualname for f in reversed(chain)) if chain else 'the hook itself'
        self.judged[k] = ok
        self.rep.check(self.rule, k, ok,
                       ('index in bounds where it stands: %s |- %s < %s' % ('; '.join(cond_texts(cs)), idx, length) if entailed else
                        'an IndexError here is absorbed by the enclosing handler') + ' (reached from %s)' % via if ok else
                       '%s runs after next() has answered (reached from %s) and its index is not entailed in bounds by its path condition (%s does not '
                       'entail %s < %s%s) nor absorbed by a handler: an IndexError here replaces the response the application produced -- a finished '
                       '200 becomes a 500' % (short(s, 70), via, '; '.join(cond_texts(cs)) or 'no condition', idx, length,
                                              '' if fresh else '; another write to %s can run before it' % base_t), mod, n)


def check_bookkeeping_total(rep, rule, funcs):
    """see the module docstring"""
    t = _Totality(rep, rule)
    for fi in sorted(funcs, key=lambda f: f.key):
        region = _post_next_nodes(fi)
        t.visit(fi, fi.cls, region, [])
    if not t.judged:
        rep.ok(rule, 'R15.j::sites', 'no index operation on a sequence runs after next() in any built-in middleware')
    return len(t.judged)
