"""C14 -- Static serving never leaves its roots and serves files faithfully.

Decided:
  R14.a  sanitise-then-use in find_file: the value joined with each search path is the single
         assignment ``X = os.path.normpath(<request path>)``; every path to the join passes the
         false-branch of an "X is absolute" test and of an "X starts with os.pardir" test (or the
         false-branch of ``limit_root``), whose true-branches raise; limit_root defaults to True and no
         caller in the package passes anything else.  (A normalised relative path keeps '..' only as a
         prefix, so these two tests confine join(root, X) to root; symlinks are outside the property.)
  R14.b  every HTTP error raised by the serving functions is non-breaking (is_breaking=False); in
         StaticApplication.get_file_response the find_file call is under a ValueError/OSError handler that
         raises Forbidden, and a None result raises NotFound;
  R14.c  every filesystem primitive on the serving path (open, getmtime, getsize, get_file_mtime,
         peek_file and the read/seek/tell inside it) is under a handler catching OSError that raises a
         non-breaking Forbidden; isfile never raises and is exempt;
  R14.d  the 304 return is taken only under ``cache_timeout and cached_modify_time`` and
         ``mtime <= cached_modify_time`` and before any open(); on the success path response, content_type,
         content_length (from getsize) and last_modified (from get_file_mtime) are all assigned before return;
  R14.e  StaticApplication registers '/<path*>' bound to get_file_response, which joins segments with '/'.
  R14.f  the value assigned to last_modified and the value compared with cached_modify_time, followed back to where they
         are constructed (reaching definitions, calls into functions of the package, module constants): a datetime built in
         the UTC time base (utcfromtimestamp, fromtimestamp(ts, <UTC>), datetime(*gmtime(ts)[:6]), epoch + timedelta) from
         the modification timestamp (getmtime / stat().st_mtime) of the served path, and -- for the comparison -- in whole
         seconds.  A local-time construction (fromtimestamp without tz, localtime, a naive UTC value pushed through
         astimezone / timestamp / mktime, local wall-clock time labelled UTC), the clock or another file time is a
         violation: werkzeug reads naive datetimes as UTC, so such a value is off by the server's UTC offset.  Decided over
         an abstract domain of *kinds* of time value (epoch / struct_time / naive-UTC / naive-local / aware), never
         over instants; any other construction is an ANALYSIS-ERROR.
  R14.g  no history (c14_state.py): the path handed to build_file_response is, on every path, the result of the find_file call
         made by *this* request (StaticFileRoute: the configured self.file_path); no function on the serving path stores a
         value of the request / of a probe of the file system in an object that outlives the request (self, the class, a
         module-level object, a function attribute, a mutable default, a global); no serving function is wrapped by a
         result cache (functools.lru_cache / cache, a decorator of the package whose wrapper stores into its enclosing
         scope, ``f = cache(f)`` at module level).  A later request must see the directory tree as it is then.
  R14.h  one file (c14_faith.py): the regular-file test, open(), getsize() and the type guess all name the path parameter,
         which is never re-bound; the file is opened read-only in binary mode.
  R14.i  first search directory wins (c14_faith.py): find_file visits search_paths in the given order and leaves the
         search at the first regular file; StaticApplication.__init__ keeps the order it was given.
  R14.j  a 304 carries no body (c14_faith.py): the response marked 304 is the one returned, it was created with an empty
         body, and no store to its body reaches that return.
  R14.k  like with like (c14_faith.py): the time compared with If-Modified-Since and the time sent as Last-Modified are
         the same function of the file (same callee, same arguments after binding defaults and folding constants).
  R14.l  the Content-Type is guessed (c14_faith.py): every source of the header is the mimetype argument, guess_type(<served
         path>)[0], or one of the two configured defaults; default_binary_mime is chosen only under is_binary_string(<what
         peek_file read from the opened file>), default_text_mime never under it.
  R14.m  configuration reaches build_file_response unchanged (c14_faith.py): both endpoints pass cache_timeout=self.cache_timeout
         and cached_modify_time=request.if_modified_since, the application its two default types (not swapped), the route its
         mimetype; the constructors store exactly their arguments; cache_timeout defaults to a positive number (client
         caching is on by default -- otherwise the 304 branch is dead); the application's default types are those of
         build_file_response.  Sibling agreement: the two endpoints hand build_file_response the same function of the request
         / the configuration as cached_modify_time and cache_timeout (compared as sets of terminal sources).  Validator round
         trip: no test that decides which value is handed over as cached_modify_time reads the clock (now / utcnow / today /
         time.time) -- Last-Modified is the file's own time (R14.f, R14.k), so what the 200 branch sends must be accepted by
         the 304 branch when echoed, also for a file dated ahead of the server's clock.
  R14.n  the body is the whole file (c14_faith.py): peek_file seeks back to the position tell() gave before the read on
         every normal path to its exit; build_file_response itself never reads from / moves the handle before it is wrapped.
  R14.b  also covers every HTTP error raised by a function of the module the endpoints call (public helpers).
Declined: byte equality of bodies, what mimetypes.guess_type / is_binary_string answer (values), date formatting; that the handle is closed on every error path between
open() and the response (a resource clause, not part of the statement: the tree itself leaks it when the stat fails).

Constructs are located by role, not by spelling.  The loader dissolves private helpers into their callers; on top of
that the rules follow: tests held in a single-assignment local (``flag = X.startswith('/')`` ... ``if flag``,
also wrapped in ``bool()``) and boolean combinations of the refusals with ``limit_root`` (_edge_facts); several names for
the one normalised path; plain copies of locals and tuple (un)packing when asking where a header value / the wrapped
file / the compared mtime comes from (_sources: all bindings, flow-insensitive); ``except <module-level tuple of
classes>`` (_caught_names, also ``(A,) + _OTHERS``); ``exc = Forbidden(..); raise exc``; module-level constants for the route pattern, the
status code and ``is_breaking``; ``mtime <= t`` written as ``t >= mtime`` or as the else-branch of ``mtime > t``; the
search loop written with a guard + continue or as ``next((p for .. if isfile(p)), None)``; keyword or positional
arguments.  A *value* that comes from a function of the package which is not dissolved (a public helper: ``self.m(..)``,
``f(..)``) is judged through what that helper can return (_followed_returns: the sources of every ``return``, None when it can
run off its end, parameters replaced by the arguments of the call -- read, never run), i.e. exactly as if it were written in
line; where that is not sound (decorated / variadic / generator callee, a returned expression reading the callee's locals,
re-bound parameters, loops or try at the end of the body) and for a *test* that moved into such a function it is an
ANALYSIS-ERROR ("not followed"), not a violation; a private function nothing refers to any more is not on the serving path.
"""
import ast
import builtins
import copy

from ..core import AnalysisError, norm, short
from .common import (cfg_of, fkey, conds, has_cond, cond_texts, stmts_of, walk_body, call_tail, call_name,
                     returns_of, raises_of, raise_type, protected_by, stmt_of, kwarg)
from .common import implies_absent, local_aliases
from ..cfg import enclosing_tries, expand_conds
from ..normalize import anchor_names
from ..astutil import assigned_value, argn, names_stored, exc_supertypes, EXC_ALIASES

STATIC = 'clastic.static'
FS_PRIMS = {'open', 'getmtime', 'getsize', 'get_file_mtime', 'peek_file', 'read', 'seek', 'tell', 'stat', 'fstat', 'readline'}
HTTP_ERRS = {'Forbidden', 'NotFound', 'BadRequest', 'HTTPException', 'InternalServerError'}


# ---------------------------------------------------------------------------------------------- value flow
def _param(name):
    """Marker: the (initial) value of a parameter, as a source of a local."""
    p = ast.Name(id=name, ctx=ast.Load())
    p._vt_param = True
    return p


def _is_param(e, name=None):
    return isinstance(e, ast.Name) and getattr(e, '_vt_param', False) and (name is None or e.id == name)


def _sources(fi, name, seen=None):
    """Every value expression that can end up bound to the local / parameter ``name`` of ``fi`` (flow-insensitive,
    therefore valid at every use): plain copies of other locals (``a = b``) are followed, a parameter contributes a
    marker Name (_param), ``a, b = x, y`` contributes the matching element, ``a, b = f()`` contributes ``f()[i]``; an
    augmented assignment / loop / with / except binding contributes the binding statement itself (never accepted by
    a predicate on expressions)."""
    seen = set() if seen is None else seen
    if name in seen:
        return []
    seen.add(name)
    params = fi.params()
    out = []
    if name in params:
        out.append(_param(name))
    for st, val, idx in assigned_value(fi.node, name):
        if isinstance(idx, int):
            tgt = [t for t in st.targets if isinstance(t, (ast.Tuple, ast.List))
                   and any(isinstance(e, ast.Name) and e.id == name for e in t.elts)]
            if isinstance(val, (ast.Tuple, ast.List)) and tgt and len(tgt[0].elts) == len(val.elts) and \
                    not any(isinstance(e, ast.Starred) for e in list(tgt[0].elts) + list(val.elts)):
                val, idx = val.elts[idx], None
            elif tgt and not any(isinstance(e, ast.Starred) for e in tgt[0].elts):
                val, idx = ast.copy_location(ast.Subscript(value=val, slice=ast.Constant(value=idx), ctx=ast.Load()), val), None
        if idx is not None or not isinstance(val, ast.expr):
            out.append(st)
        elif isinstance(val, ast.Name) and (val.id in params or assigned_value(fi.node, val.id)):
            out.extend(_sources(fi, val.id, seen))
        else:
            out.append(val)
    return out


def _srcs(fi, expr):
    """Sources of an expression: of the local it names, else the expression itself."""
    if isinstance(expr, ast.Name) and (expr.id in fi.params() or assigned_value(fi.node, expr.id)):
        return _sources(fi, expr.id)
    return [expr]


def _internal_callee(fi, e):
    """``e`` is (an element of) the result of calling a function of the analysed package that was not dissolved into
    this function: its name, else None."""
    while isinstance(e, ast.Subscript):
        e = e.value
    if not isinstance(e, ast.Call):
        return None
    f = e.func
    repo = fi.mod.repo
    try:
        if isinstance(f, ast.Name) and f.id not in _locals_of(fi):
            kind, m, obj = repo.resolve(fi.mod, f.id)
            if kind == 'func' and m is not None and not m.external and f.id not in anchor_names():
                return f.id      # (functions the rules name are judged by name; the rest would need following)
        if isinstance(f, ast.Attribute) and isinstance(f.value, ast.Name) and f.value.id in ('self', 'cls') and fi.cls is not None:
            meth = repo.find_method(fi.cls, f.attr)
            if meth is not None and not meth.mod.external and f.attr not in anchor_names():
                return norm(f)
    except AnalysisError:
        raise
    except Exception:
        return None
    return None


def _callee_info(fi, call):
    """FuncInfo of the function of the package ``call`` reaches (``f(..)`` at module level, ``self.m(..)`` through the MRO)."""
    f = call.func
    repo = fi.mod.repo
    if isinstance(f, ast.Name) and f.id not in _locals_of(fi):
        kind, m, obj = repo.resolve(fi.mod, f.id)
        if kind == 'func' and m is not None and not m.external:
            return obj
    if isinstance(f, ast.Attribute) and isinstance(f.value, ast.Name) and f.value.id in ('self', 'cls') and fi.cls is not None:
        return repo.find_method(fi.cls, f.attr)
    return None


def _falls_off(body):
    """A block can run off its end (True / False); None: not decided here (loops, try, match)."""
    if not body:
        return True
    last = body[-1]
    if isinstance(last, (ast.Return, ast.Raise)):
        return False
    if isinstance(last, ast.If):
        a, b = _falls_off(last.body), _falls_off(last.orelse)
        return True if (a is True or b is True) else (None if (a is None or b is None) else False)
    if isinstance(last, ast.With):
        return _falls_off(last.body)
    if isinstance(last, (ast.For, ast.AsyncFor, ast.While, ast.Try, ast.Match)) or (hasattr(ast, 'TryStar') and isinstance(last, ast.TryStar)):
        return None
    return True


_FOLLOWING = []
_BUILTIN_NAMES = frozenset(dir(builtins))


def _followed_returns(fi, call):
    """What a call of a function of the package that the loader did not dissolve (a public helper: ``self.m(..)``, ``f(..)``)
    can evaluate to, *in the caller's terms*: the sources of every ``return`` of the callee (None when it can run off its
    end), its parameters replaced by the argument expressions of this call (defaults for the ones not passed).  The
    helper is read, not run.  None when the binding or the body is outside what is followed soundly: a decorated /
    generator / async / variadic callee, ``*`` / ``**`` at the call, a parameter that is re-bound, a returned expression that
    reads a local of the callee (it would mean nothing in the caller), a name that the caller binds itself, a callee of
    another module reading its globals, recursion."""
    if not isinstance(call, ast.Call):
        return None
    try:
        cal = _callee_info(fi, call)
    except AnalysisError:
        raise
    except Exception:
        return None
    if cal is None or cal is fi or any(c is cal for c in _FOLLOWING) or len(_FOLLOWING) > 3:
        return None
    node = cal.node
    a = node.args
    if not isinstance(node, ast.FunctionDef) or node.decorator_list or a.vararg or a.kwarg:
        return None
    for n in walk_body(node):
        if isinstance(n, (ast.Yield, ast.YieldFrom, ast.Await, ast.Global, ast.Nonlocal, ast.NamedExpr)):
            return None
    if any(isinstance(x, ast.Starred) for x in call.args) or any(k.arg is None for k in call.keywords):
        return None
    pos = [x.arg for x in a.posonlyargs + a.args]
    bind = {}
    if isinstance(call.func, ast.Attribute):
        if cal.cls is None or not pos:
            return None
        bind[pos[0]] = call.func.value          # self.m(..): the receiver
        pos = pos[1:]
    elif cal.cls is not None:
        return None
    if len(call.args) > len(pos):
        return None
    for p, v in zip(pos, call.args):
        bind[p] = v
    names = set(pos) | set(x.arg for x in a.kwonlyargs)
    for k in call.keywords:
        if k.arg not in names or k.arg in bind or k.arg in [x.arg for x in a.posonlyargs]:
            return None
        bind[k.arg] = k.value
    allpos = a.posonlyargs + a.args
    defaults = dict(zip([x.arg for x in allpos[len(allpos) - len(a.defaults):]], a.defaults))
    defaults.update((x.arg, d) for x, d in zip(a.kwonlyargs, a.kw_defaults) if d is not None)
    for p in names:
        if p not in bind:
            d = defaults.get(p)
            if not isinstance(d, ast.Constant):       # (a default is evaluated where the helper is defined)
                return None
            bind[p] = d
    params = set(bind)
    if params != set(cal.params()):
        return None
    stored = set(n.id for n in walk_body(node) if isinstance(n, ast.Name) and isinstance(n.ctx, (ast.Store, ast.Del))) | \
        set(n.name for n in walk_body(node) if isinstance(n, (ast.ExceptHandler, ast.FunctionDef, ast.AsyncFunctionDef, ast.ClassDef))
            and n.name)
    if stored & params:
        return None
    own = _locals_of(cal) - params
    mine = _locals_of(fi)
    falls = _falls_off(node.body)
    if falls is None:
        return None
    vals = []
    _FOLLOWING.append(cal)
    try:
        for r in returns_of(cal):
            for s in (_srcs(cal, r.value) if r.value is not None else [ast.copy_location(ast.Constant(value=None), r)]):
                if not isinstance(s, ast.expr):
                    return None
                if _is_param(s):
                    vals.append(bind[s.id])
                    continue
                for n in ast.walk(s):
                    if isinstance(n, (ast.Lambda, ast.ListComp, ast.SetComp, ast.DictComp, ast.GeneratorExp)):
                        return None
                    if isinstance(n, ast.Name) and n.id not in params:
                        if n.id in own or n.id in mine or (cal.mod is not fi.mod and n.id not in _BUILTIN_NAMES):
                            return None

                class Sub(ast.NodeTransformer):
                    def visit_Name(self, n):
                        return copy.deepcopy(bind[n.id]) if n.id in params and isinstance(n.ctx, ast.Load) else n
                vals.append(ast.fix_missing_locations(ast.copy_location(Sub().visit(copy.deepcopy(s)), call)))
    finally:
        _FOLLOWING.pop()
    if falls:
        vals.append(ast.copy_location(ast.Constant(value=None), call))
    return vals or None


def _all_srcs(fi, expr, pred, known=()):
    """Every source of ``expr`` satisfies ``pred``.  A source produced by a function of the package that the loader
    did not dissolve (and that is not one of the ``known`` primitives) is judged through what that function can return
    (_followed_returns: every returned value, in the caller's terms, must satisfy ``pred`` -- exactly what would be asked
    had the helper been written in line); where that cannot be followed soundly: analysis error."""
    ss = _srcs(fi, expr) if expr is not None else []
    ok = bool(ss)
    for x in ss:
        if isinstance(x, ast.expr) and pred(x):
            continue
        callee = _internal_callee(fi, x) if isinstance(x, ast.expr) else None
        if callee is not None and callee not in known:
            vals = _followed_returns(fi, x)
            if vals is None:
                raise AnalysisError('%s: value %s comes from %s(), which is not followed' % (fi.qualname, short(expr), callee))
            if all(_all_srcs(fi, v, pred, known) for v in vals):
                continue
        ok = False
    return ok


def _terminal_values(fi, expr, depth=0):
    """The normalised terminal sources of ``expr`` (through plain copies of locals and through the returns of helpers
    that are followed), as a set of texts in the caller's terms; a binding statement that is not an expression
    contributes '<stmt>'.  AnalysisError when a helper on the way is not followed."""
    out = set()
    for x in (_srcs(fi, expr) if expr is not None else []):
        if not isinstance(x, ast.expr):
            out.add('<stmt>')
            continue
        callee = _internal_callee(fi, x)
        if callee is not None and depth < 4:
            vals = _followed_returns(fi, x)
            if vals is None:
                raise AnalysisError('%s: value %s comes from %s(), which is not followed' % (fi.qualname, short(expr), callee))
            for v in vals:
                out |= _terminal_values(fi, v, depth + 1)
            continue
        out.add('<parameter %s>' % x.id if _is_param(x) else norm(x))
    return out


def _selection_tests(fi, expr, seen=None, depth=0):
    """Every test whose outcome decides *which* value ``expr`` stands for: the path conditions of the statements binding
    the locals it is copied through, and of the ``return`` statements of the helpers it is followed into (and of what those
    return).  -> [(FuncInfo the test belongs to, test expression)]"""
    seen = set() if seen is None else seen
    out = []
    if depth > 6 or expr is None:
        return out
    if isinstance(expr, ast.Name) and (fi, expr.id) not in seen and assigned_value(fi.node, expr.id):
        seen.add((fi, expr.id))
        for st, val, idx in assigned_value(fi.node, expr.id):
            out += [(fi, t) for t, p in _conds(fi, st)]
            if isinstance(val, ast.expr) and idx is None:
                out += _selection_tests(fi, val, seen, depth + 1)
    elif isinstance(expr, ast.Call) and _internal_callee(fi, expr) is not None and _followed_returns(fi, expr) is not None:
        cal = _callee_info(fi, expr)
        for r in returns_of(cal):
            out += [(cal, t) for t, p in _conds(cal, r)]
            if r.value is not None:
                out += _selection_tests(cal, r.value, seen, depth + 1)
    return out


CLOCK_CALLS = {'utcnow', 'now', 'today', 'time', 'time_ns', 'monotonic', 'perf_counter'}


def _reads_clock(fi, test):
    """The test reads the server's clock: a call of now() / utcnow() / today() / time.time() in it, or in what a local it
    names is bound to.  -> the call or None."""
    todo, seen = [test], set()
    while todo:
        e = todo.pop()
        for n in ast.walk(e):
            if isinstance(n, ast.Call) and call_tail(n) in CLOCK_CALLS:
                if call_tail(n) in ('utcnow', 'now', 'today') or isinstance(n.func, ast.Name) or norm(n.func).startswith('time.'):
                    return n
            if isinstance(n, ast.Name) and isinstance(n.ctx, ast.Load) and n.id not in seen and n.id not in fi.params():
                seen.add(n.id)
                todo += [v for st, v, idx in assigned_value(fi.node, n.id) if isinstance(v, ast.expr)]
    return None


def _argn(fi, call, name, pos):
    """astutil.argn, looking through ``f(.., **options)`` when ``options`` is a local bound once to a dict display with
    constant keys and used nowhere else (so nothing can have changed it): the value stored under ``name``.  A ``*`` /
    ``**`` argument that cannot be looked through may or may not supply the parameter: analysis error."""
    v = argn(call, name, pos)
    if v is not None:
        return v
    for k in call.keywords:
        if k.arg is not None:
            continue
        d = k.value
        if isinstance(d, ast.Name) and d.id in _locals_of(fi) and d.id not in fi.params():
            ds = assigned_value(fi.node, d.id)
            uses = [n for n in ast.walk(fi.node) if isinstance(n, ast.Name) and n.id == d.id and isinstance(n.ctx, ast.Load)]
            if len(ds) == 1 and ds[0][2] is None and isinstance(ds[0][1], ast.Dict) and len(uses) == 1:
                d = ds[0][1]
        if isinstance(d, ast.Dict) and all(isinstance(x, ast.Constant) and isinstance(x.value, str) for x in d.keys):
            for x, val in zip(d.keys, d.values):
                if x.value == name:
                    return val
            continue
        raise AnalysisError('%s: call %s passes **%s, which is not followed (argument %s)' % (fi.qualname, short(call), short(k.value), name))
    if any(isinstance(a, ast.Starred) for a in call.args[:(pos + 1 if pos is not None else 0)]):
        raise AnalysisError('%s: call %s passes positional arguments with *, which is not followed (argument %s)'
                            % (fi.qualname, short(call), name))
    return None


def _unbool(cs):
    """``bool(e)`` known true / false says the same about ``e`` (``flag = bool(a and b)``)."""
    out = list(cs)
    known = set((norm(t), p) for t, p in out)
    todo = list(out)
    while todo:
        t, p = todo.pop()
        if isinstance(t, ast.Call) and isinstance(t.func, ast.Name) and t.func.id == 'bool' and len(t.args) == 1 and not t.keywords \
                and not isinstance(t.args[0], ast.Starred):
            for c in expand_conds([(t.args[0], p)]):
                if (norm(c[0]), c[1]) not in known:
                    known.add((norm(c[0]), c[1]))
                    out.append(c)
                    todo.append(c)
    return out


def _conds(fi, node):
    return _unbool(conds(fi, node))


def _branch_test(cfg, nid, t, p, depth=0):
    """Effective (test, polarity) of a branch node: a test on a local naming a boolean expression
    (``flag = <expr>`` ... ``if flag:``) is the test on that expression, provided the local has exactly one binding,
    the binding dominates the branch and nothing in between re-binds a name the expression reads."""
    while depth < 4:
        depth += 1
        while isinstance(t, ast.UnaryOp) and isinstance(t.op, ast.Not):
            t, p = t.operand, not p
        if isinstance(t, ast.Call) and isinstance(t.func, ast.Name) and t.func.id == 'bool' and len(t.args) == 1 and not t.keywords \
                and not isinstance(t.args[0], ast.Starred):
            t = t.args[0]
            continue
        if not isinstance(t, ast.Name):
            break
        asg = [nd for nd in cfg.nodes if nd.kind == 'stmt' and isinstance(nd.stmt, ast.Assign) and len(nd.stmt.targets) == 1
               and isinstance(nd.stmt.targets[0], ast.Name) and nd.stmt.targets[0].id == t.id]
        stmts = set(id(nd.stmt) for nd in asg)
        others = [nd for nd in cfg.nodes if nd.kind in ('stmt', 'head') and nd.stmt is not None and id(nd.stmt) not in stmts
                  and cfg._kills(t, [nd.id])]
        if len(stmts) != 1 or others:
            break
        val = asg[0].stmt.value
        ids = [nd.id for nd in asg]
        if not cfg.must_pass(ids, cfg.entry, nid):
            break
        after = [m for x in ids for m in cfg.succ[x]]
        mid = (cfg.reach(after, avoid=ids) & cfg.coreach([nid], avoid=ids)) - {nid}
        if cfg._kills(val, mid):
            break
        t = val
    return t, p


def _edge_facts(cfg, nid, t, p, atom, depth=0):
    """What is known on the edge where test ``t`` evaluated to polarity ``p``: the set of facts ``atom(test, pol)``
    yields, propagated through ``not``, ``and`` / ``or`` (a false conjunction only guarantees what *each* conjunct being
    false would guarantee; a false disjunction guarantees all of them), ``bool(..)`` and named tests."""
    if depth > 6:
        return frozenset()
    while isinstance(t, ast.UnaryOp) and isinstance(t.op, ast.Not):
        t, p = t.operand, not p
    if isinstance(t, ast.BoolOp):
        parts = [_edge_facts(cfg, nid, v, p, atom, depth + 1) for v in t.values]
        all_known = (isinstance(t.op, ast.And) and p is True) or (isinstance(t.op, ast.Or) and p is False)
        out = frozenset(parts[0])
        for x in parts[1:]:
            out = (out | x) if all_known else (out & x)
        return out
    t2, p2 = _branch_test(cfg, nid, t, p)
    if t2 is not t:
        return _edge_facts(cfg, nid, t2, p2, atom, depth + 1)
    return frozenset(atom(t, p))


# ---------------------------------------------------------------------------------------------- handlers
def _caught_names(fi, htype, mod=None, depth=0):
    """Exception class names an ``except <htype>`` clause names; a module-level constant holding a tuple of classes
    (``_ERRORS = (ValueError, OSError)``) is looked through.  None = bare except."""
    mod = mod or fi.mod
    if htype is None:
        return None
    if isinstance(htype, ast.Tuple):
        out = []
        for e in htype.elts:
            out.extend(_caught_names(fi, e, mod, depth + 1) or [])
        return out
    if isinstance(htype, ast.BinOp) and isinstance(htype.op, ast.Add) and depth < 8:
        # ``(ValueError,) + _IO_ERRORS``: tuple concatenation catches what either operand names
        return (_caught_names(fi, htype.left, mod, depth + 1) or []) + (_caught_names(fi, htype.right, mod, depth + 1) or [])
    if isinstance(htype, ast.Name) and depth < 8 and not (mod is fi.mod and htype.id in _locals_of(fi)):
        kind, m, obj = fi.mod.repo.resolve(mod, htype.id)
        if kind == 'value' and len(obj) == 1 and isinstance(obj[0], (ast.Tuple, ast.Attribute, ast.BinOp)):
            return _caught_names(fi, obj[0], m, depth + 1)
        if kind == 'unknown' and isinstance(obj, str):
            return [obj]
    return [norm(htype)]


def _locals_of(fi):
    c = getattr(fi, '_c14_locals', None)
    if c is None:
        c = set(fi.params())
        for s in stmts_of(fi.node):
            if isinstance(s, (ast.FunctionDef, ast.AsyncFunctionDef, ast.ClassDef)):
                c.add(s.name)
                continue
            for n in ast.walk(s):
                if isinstance(n, ast.Name) and isinstance(n.ctx, (ast.Store, ast.Del)):
                    c.add(n.id)
                elif isinstance(n, ast.ExceptHandler) and n.name:
                    c.add(n.name)
        fi._c14_locals = c
    return c


def _catches(fi, handler, exc):
    names = _caught_names(fi, handler.type)
    if names is None:
        return True
    sup = set(exc_supertypes(exc))
    return any(EXC_ALIASES.get(n, n) in sup for n in names)


def _protected_by(fi, node, exc):
    """common.protected_by, with handler types resolved through module-level constants."""
    cur = node
    while cur is not None and cur is not fi.node:
        par = fi.mod.parents.get(cur)
        if isinstance(cur, ast.Lambda):
            return None
        if isinstance(cur, ast.GeneratorExp) and not (isinstance(par, ast.Call) and cur in par.args):
            return None
        cur = par
    for tr, part in enclosing_tries(fi.mod, node, fi.node):
        if part != 'body':
            continue
        for h in tr.handlers:
            if _catches(fi, h, exc):
                return h
    return None


def _unreferenced_private(repo, fi):
    """A private module-level function that nothing in the package refers to any more (the loader dissolves private
    helpers into their callers; what the helper did is judged where it now stands)."""
    name = fi.qualname
    if '.' in name or not name.startswith('_') or (name.startswith('__') and name.endswith('__')):
        return False
    for m in repo.all_internal_modules():
        for n in ast.walk(m.tree):
            if isinstance(n, ast.Name) and n.id == name:
                return False
            if isinstance(n, ast.Attribute) and n.attr == name:
                return False
            if isinstance(n, ast.alias) and name in (n.name, n.asname):
                return False
            if isinstance(n, ast.Constant) and n.value == name:
                return False
    return True


def _site_protected(repo, fi, c, depth=0):
    """The call ``c`` in ``fi`` cannot let an OSError escape as a 500: it is under a handler raising a non-breaking 403,
    or ``fi`` is a plain module-level function only ever *called* (never passed around) and every such call is."""
    h = _protected_by(fi, c, 'OSError')
    if h is not None and _nonbreaking_forbidden(h, fi):
        return True
    if h is not None or depth >= 3 or fi.cls is not None or '.' in fi.qualname:
        return False
    name = fi.qualname
    n_calls = 0
    for m in repo.all_internal_modules():
        for n in ast.walk(m.tree):
            if isinstance(n, ast.Attribute) and n.attr == name:
                return False
            if isinstance(n, ast.alias) and name in (n.name, n.asname):
                return False
            if isinstance(n, ast.Constant) and n.value == name:
                return False
            if isinstance(n, ast.Name) and n.id == name:
                if m is not fi.mod:
                    return False
                par = m.parents.get(n)
                if not (isinstance(par, ast.Call) and par.func is n):
                    return False
                fnode = m.enclosing_function(par)
                caller = m.func_of_node(fnode) if fnode is not None else None
                if caller is None or name in _locals_of(caller):
                    return False
                if caller.qualname == 'StaticFileRoute.__init__':
                    n_calls += 1      # construction time, not a request
                    continue
                if not _site_protected(repo, caller, par, depth + 1):
                    return False
                n_calls += 1
    return n_calls > 0


def _is_abs_test(t, x):
    s = norm(t)
    return s in ("%s.startswith('/')" % x, '%s.startswith(os.sep)' % x, 'os.path.isabs(%s)' % x, 'isabs(%s)' % x,
                 "%s.startswith(os.path.sep)" % x)


def _is_pardir_test(t, x):
    s = norm(t)
    return s in ('%s.startswith(os.pardir)' % x, "%s.startswith('..')" % x, '%s.startswith(os.path.pardir)' % x,
                 "%s.split(os.sep)[0] == os.pardir" % x, "%s.split('/')[0] == '..'" % x)


def _raised(fi, r):
    """The expression a ``raise`` statement raises; ``exc = Forbidden(..); raise exc`` counts as raising that call when
    the local has no other source."""
    e = r.exc
    if isinstance(e, ast.Name) and fi is not None and e.id in _locals_of(fi):
        ss = _srcs(fi, e)
        if len(ss) == 1 and isinstance(ss[0], ast.Call):
            return ss[0]
    return e


def _rtype(fi, r):
    e = _raised(fi, r)
    if e is None:
        return None
    if isinstance(e, ast.Call):
        e = e.func
    return norm(e)


def _is_nonbreaking_http(fi, r):
    """``raise <HTTP error>(.., is_breaking=False)`` -> True / False; None when it does not raise an HTTP error call."""
    e = _raised(fi, r)
    if not (isinstance(e, ast.Call) and _rtype(fi, r) in HTTP_ERRS):
        return None
    v = kwarg(e, 'is_breaking')
    if isinstance(v, ast.Name) and fi is not None and v.id not in _locals_of(fi):
        return fi.mod.repo.try_fold(v, fi.mod) is False
    return isinstance(v, ast.Constant) and v.value is False


def _nonbreaking_forbidden(handler, fi=None):
    """handler body raises an HTTP error with is_breaking=False on every top-level path (simple shape)."""
    rz = [s for s in ast.walk(handler) if isinstance(s, ast.Raise)]
    if not rz:
        return False
    for r in rz:
        if _is_nonbreaking_http(fi, r) is not True:
            return False
    return isinstance(handler.body[-1], ast.Raise)


def _check_raises(rep, rule, st, fi, tail):
    n = 0
    for r in raises_of(fi):
        nb = _is_nonbreaking_http(fi, r)
        if nb is not None:
            n += 1
            rep.check(rule, fkey(fi, r) + '#' + ','.join(cond_texts(conds(fi, r)))[:80], nb,
                      '%s is raised non-breaking' % _rtype(fi, r) if nb else
                      '%s raised without is_breaking=False: %s' % (_rtype(fi, r), tail), st, r)
        elif r.exc is not None:
            rep.fail(rule, fkey(fi, r), 'serving function raises %s, which becomes a 500' % _rtype(fi, r), st, r)
    return n


def check_nonbreaking(rep, rule):
    """Every HTTP error raised by the static serving functions is non-breaking (so that routes after an embedded
    StaticApplication -- other static apps, a catch-all page -- are still tried)."""
    repo = rep.repo
    st = repo.mod(STATIC)
    n = 0
    for q in ('build_file_response', 'StaticApplication.get_file_response', 'StaticFileRoute.get_file_response'):
        n += _check_raises(rep, rule, st, st.func(q), 'routes after this static application are never tried')
    return n


def _group(rep, fn, *args):
    """One rule group: AnalysisError => gap (the other groups still run); any other exception is a checker defect and
    is reported as an analysis error too, never as a pass."""
    def group():
        try:
            return fn(rep, *args)
        except AnalysisError:
            raise
        except Exception as e:      # pragma: no cover
            import traceback
            raise AnalysisError('internal error in %s: %r at %s' % (fn.__name__, e, traceback.format_exc().strip().splitlines()[-3:-1]))
    group.__name__ = fn.__name__.lstrip('_')
    return rep.guard(group)


def run(rep):
    rep.decide('R14.a sanitise-then-use in find_file; R14.b non-breaking 403/404 discipline; R14.c filesystem calls '
               'under OSError handlers; R14.d 304 / success header assignments; R14.e route shape; R14.f the served '
               'modification time is constructed in UTC, from the file\'s own mtime, in whole seconds; R14.g no history: the '
               'served path is looked up by this request, nothing a request learns outlives it, no result cache around a serving '
               'function; R14.h test / open / size / type guess name the one served path, binary read-only open; R14.i search '
               'paths visited in order, first regular file wins, order kept by the application; R14.j the 304 answer has no body; '
               'R14.k Last-Modified and the 304 comparison are computed the same way; R14.l the Content-Type is the given mimetype, '
               'the guess for the served path, or the binary / text default chosen by peeking into the opened file; R14.m the '
               'configuration (cache_timeout on by default, default types, mimetype) and If-Modified-Since reach build_file_response '
               'unchanged; R14.n peeking restores the position of the handle, which reaches the wrapper unread')
    rep.decline('byte equality of served bodies, the answers of mimetypes.guess_type / is_binary_string, Last-Modified formatting (values); closing the handle on every error '
                'path between open() and the response (resource clause, not in the statement)')
    rep.assume('os.path.normpath leaves ".." components only as a prefix of a relative path (POSIX semantics)')
    rep.assume('os.path.isfile never raises')
    _group(rep, _r14a)
    _group(rep, _r14b)
    _group(rep, _r14b_helpers)
    _group(rep, _r14c)
    _group(rep, _r14d)
    _group(rep, _r14e)
    _group(rep, _r14f)
    _group(rep, _r14g_provenance)
    _group(rep, _r14g_state)
    from . import c14_faith
    _group(rep, c14_faith.r14h)
    _group(rep, c14_faith.r14i)
    _group(rep, c14_faith.r14j)
    _group(rep, c14_faith.r14k)
    _group(rep, c14_faith.r14l)
    _group(rep, c14_faith.r14m)
    _group(rep, c14_faith.r14n)


def _find_file_call(st):
    gfr = st.func('StaticApplication.get_file_response')
    ffc = [c for c in walk_body(gfr.node) if isinstance(c, ast.Call) and call_tail(c) == 'find_file']
    if len(ffc) != 1:
        raise AnalysisError('StaticApplication.get_file_response: expected one find_file call')
    res_var = None
    fs = stmt_of(st, ffc[0])
    if isinstance(fs, ast.Assign) and fs.value is ffc[0] and len(fs.targets) == 1:
        res_var = norm(fs.targets[0])
    return gfr, ffc[0], res_var


def _r14a(rep):
    repo = rep.repo
    st = repo.mod(STATIC)
    rep.rule('R14.a', 'the joined path is the normalised one and has passed the absolute / pardir refusals')
    ff = st.func('find_file')
    cfg = cfg_of(ff)
    params = ff.params()
    joins = [c for c in walk_body(ff.node) if isinstance(c, ast.Call) and call_tail(c) in ('pjoin', 'join') and len(c.args) == 2]
    if not joins:
        raise AnalysisError('find_file: join of search path and relative path not found')
    a = ff.node.args
    dflt = dict(zip([x.arg for x in a.args][len(a.args) - len(a.defaults):], a.defaults))
    lim_default = dflt.get('limit_root')
    for j in joins:
        x = j.args[1]
        key = fkey(ff, j)
        if not isinstance(x, ast.Name):
            rep.fail('R14.a', key, 'joined value %s is not a simple local (cannot show it is the sanitised one)' % short(x), st, j)
            continue
        X = x.id

        def bindings(name):
            return [s for s in stmts_of(ff.node) if isinstance(s, (ast.Assign, ast.AugAssign, ast.For, ast.AnnAssign)) and name in
                    [n.id for t in (s.targets if isinstance(s, ast.Assign) else [s.target]) for n in ast.walk(t) if isinstance(n, ast.Name)]]
        # the names that stand for the one normalised value: each bound exactly once, to os.path.normpath(<path>) or to
        # another such name (``normalized = normpath(path); rel_path = normalized``)
        names = set()
        locs = _locals_of(ff) - set(params)
        grew = True
        while grew:
            grew = False
            for n in sorted(locs - names):
                b = bindings(n)
                if len(b) != 1 or not (isinstance(b[0], ast.Assign) and len(b[0].targets) == 1 and isinstance(b[0].targets[0], ast.Name)):
                    continue
                v = b[0].value
                if (isinstance(v, ast.Call) and call_tail(v) == 'normpath' and len(v.args) == 1 and not v.keywords
                        and norm(v.args[0]) == params[1] and not bindings(params[1])) or (isinstance(v, ast.Name) and v.id in names):
                    names.add(n)
                    grew = True
        ok = X in names
        rep.check('R14.a', key + '::source', ok,
                  '%s is assigned once, from os.path.normpath(%s)' % (X, params[1]) if ok else
                  'joined value %s is not the single result of os.path.normpath(%s) (raw or re-assigned path reaches the join)'
                  % (X, params[1]), st, j)
        if not ok:
            names = {X}
        jn = cfg.nodes_of(stmt_of(st, j))

        seen_tests = set()

        def atom(t, p):
            if p is False and norm(t) == 'limit_root':
                return ('abs', 'par')
            if any(_is_abs_test(t, n) for n in names):
                seen_tests.add('abs')
                return ('abs',) if p is False else ()
            if any(_is_pardir_test(t, n) for n in names):
                seen_tests.add('par')
                return ('par',) if p is False else ()
            return ()
        facts = [(nid, _edge_facts(cfg, nid, t_, p_, atom)) for nid, t_, p_ in cfg.branches()]
        for label, tag in (('absolute-path refusal', 'abs'), ('parent-directory refusal', 'par')):
            nodes = [nid for nid, f in facts if tag in f]
            tested = tag in seen_tests
            if not tested:
                # no such test in find_file itself: was the normalised path handed to a function we do not see into?
                for c in walk_body(ff.node):
                    if isinstance(c, ast.Call) and _internal_callee(ff, c) and \
                            any(isinstance(a_, ast.Name) and a_.id in names for a_ in list(c.args) + [k.value for k in c.keywords]):
                        raise AnalysisError('find_file: %s not found in find_file; %s is passed to %s(), which is not followed'
                                            % (label, X, _internal_callee(ff, c)))
            ok = tested and cfg.must_pass(set(nodes), cfg.entry, jn)
            rep.check('R14.a', key + '::' + label, ok,
                      'every path to the join passes the false branch of the %s on %s' % (label, X) if ok else
                      'the join is reachable without the %s on the normalised path %s (path traversal: a request path can '
                      'escape the search directory)' % (label, X), st, j)
    # true branches raise ValueError
    for r in raises_of(ff):
        rep.check('R14.a', fkey(ff, r), _rtype(ff, r) == 'ValueError', 'refusal raises ValueError (mapped to 403 by the caller)'
                  if _rtype(ff, r) == 'ValueError' else 'refusal raises %s, which the caller does not map to 403' % _rtype(ff, r), st, r)
    # only regular files are "found": a directory (or other entry) must not shadow a file of a later search path,
    # and must never be handed to build_file_response (whose 304 branch runs before its own isfile test)
    frets = [r for r in returns_of(ff) if not (r.value is None or (isinstance(r.value, ast.Constant) and r.value.value is None))]
    ok = bool(frets)

    def is_isfile_of(t, what):
        return isinstance(t, ast.Call) and call_tail(t) == 'isfile' and len(t.args) == 1 and norm(t.args[0]) == norm(what)

    def first_regular(v):
        """``next((<p> for .. in .. if isfile(<p>)), None)``: the first candidate that is a regular file, else None"""
        if not (isinstance(v, ast.Call) and isinstance(v.func, ast.Name) and v.func.id == 'next' and len(v.args) == 2 and not v.keywords
                and isinstance(v.args[0], ast.GeneratorExp) and isinstance(v.args[1], ast.Constant) and v.args[1].value is None):
            return False
        g = v.args[0]
        return any(is_isfile_of(c, g.elt) for gen in g.generators for i in gen.ifs for c, p_ in expand_conds([(i, True)]) if p_ is True)

    def first_regular_filtered(v):
        """``next(filter(isfile, <candidates>), None)``: filter() lets through exactly the candidates isfile() accepts"""
        if not (isinstance(v, ast.Call) and isinstance(v.func, ast.Name) and v.func.id == 'next' and len(v.args) == 2 and not v.keywords
                and isinstance(v.args[1], ast.Constant) and v.args[1].value is None and 'next' not in _locals_of(ff)):
            return False
        g = v.args[0]
        return isinstance(g, ast.Call) and isinstance(g.func, ast.Name) and g.func.id == 'filter' and 'filter' not in _locals_of(ff) and \
            len(g.args) == 2 and not g.keywords and norm(g.args[0]) in ('isfile', 'os.path.isfile') and \
            not (isinstance(g.args[0], ast.Name) and g.args[0].id in _locals_of(ff))
    def bound_regular(v):
        """``found = <p>`` under isfile(<p>) ... ``return found``: every binding of the returned local is None or a value
        tested to be a regular file where it is bound"""
        if not isinstance(v, ast.Name) or v.id in params:
            return False
        some = False
        for s_, val, idx in assigned_value(ff.node, v.id):
            if idx is not None or not isinstance(val, ast.expr):
                return False
            if isinstance(val, ast.Constant) and val.value is None:
                continue
            if not has_cond(_conds(ff, s_), lambda t: is_isfile_of(t, val), True):
                return False
            some = True
        return some
    for r in frets:
        cs = _conds(ff, r)
        ok = ok and (has_cond(cs, lambda t: is_isfile_of(t, r.value), True) or first_regular(r.value) or first_regular_filtered(r.value) or bound_regular(r.value))
    rep.check('R14.a', fkey(ff, 'only regular files'), ok, 'a path is returned only under isfile(<that path>)' if ok else
              'find_file can return a path that is not a regular file (exists()/isdir/no test): directories shadow files of later '
              'search paths and reach the 304 branch', st, frets[0] if frets else ff.node)
    ok = isinstance(lim_default, ast.Constant) and lim_default.value is True
    rep.check('R14.a', fkey(ff, 'limit_root default'), ok, 'limit_root defaults to True' if ok else 'limit_root no longer defaults to True', st, ff.node)
    for m in repo.all_internal_modules():
        for fi in m.functions.values():
            for c in walk_body(fi.node):
                if isinstance(c, ast.Call) and call_tail(c) == 'find_file':
                    lr = _argn(fi, c, 'limit_root', 2)
                    ok = lr is None or (isinstance(lr, ast.Constant) and lr.value is True)
                    rep.check('R14.a', fkey(fi, 'find_file call'), ok, 'caller keeps limit_root on' if ok else
                              'caller passes limit_root=%s' % short(lr), m, c)
    rep.floor('R14.a', 7)


def _r14b(rep):
    repo = rep.repo
    st = repo.mod(STATIC)
    rep.rule('R14.b', 'every HTTP error raised while serving is non-breaking; find_file failures map to 403/404')
    serving = [st.func('build_file_response'), st.func('StaticApplication.get_file_response'),
               st.func('StaticFileRoute.get_file_response')]
    for fi in serving:
        _check_raises(rep, 'R14.b', st, fi, 'later (overlapping) static applications are never tried')
    gfr, ffc, res_var = _find_file_call(st)
    for exc in ('ValueError', 'OSError'):
        h = _protected_by(gfr, ffc, exc)
        ok = h is not None and _nonbreaking_forbidden(h, gfr) and any(_rtype(gfr, r) == 'Forbidden' for r in ast.walk(h) if isinstance(r, ast.Raise))
        rep.check('R14.b', fkey(gfr, 'find_file under except %s' % exc), ok,
                  '%s from find_file becomes a non-breaking Forbidden' % exc if ok else
                  '%s from find_file is not turned into a non-breaking 403' % exc, st, ffc)
    nf = [r for r in raises_of(gfr) if res_var is not None and _rtype(gfr, r) == 'NotFound' and implies_absent(_conds(gfr, r), res_var)]
    rep.check('R14.b', fkey(gfr, 'None => NotFound'), bool(nf), 'a missing file raises NotFound' if nf else
              'a None result of find_file is not turned into NotFound', st, gfr.node)
    # the errors raised are clastic's own (they take is_breaking); a class of the same name from elsewhere does not
    seen_names = set()
    for fi in serving:
        for r in raises_of(fi):
            e = _raised(fi, r)
            f = e.func if isinstance(e, ast.Call) else e
            if not (isinstance(f, ast.Name) and f.id in HTTP_ERRS) or f.id in seen_names or f.id in _locals_of(fi):
                continue
            seen_names.add(f.id)
            kind, m, obj = repo.resolve(st, f.id)
            if kind == 'unknown':
                raise AnalysisError('%s: where %s comes from is not followed' % (fi.qualname, f.id))
            ok = kind == 'class' and m is not None and not m.external
            rep.check('R14.b', fkey(st.func('build_file_response'), 'error class %s' % f.id), ok,
                      '%s is the class of the package (accepts is_breaking)' % f.id if ok else
                      '%s is not clastic\'s error class (%s): is_breaking=False is not understood, the request fails instead of falling '
                      'through to the next route' % (f.id, obj if isinstance(obj, str) else kind), st, r)
    rep.floor('R14.b', 7)


def _r14b_helpers(rep):
    """Functions of the module the endpoints call and the front-end did not dissolve (public helpers): the same
    non-breaking discipline for every HTTP error they raise."""
    repo = rep.repo
    st = repo.mod(STATIC)
    serving = [st.func('build_file_response'), st.func('StaticApplication.get_file_response'),
               st.func('StaticFileRoute.get_file_response')]
    from . import c14_state
    for fi in c14_state.serving_functions(repo, st, serving[1:]):
        if any(fi is x for x in serving):
            continue
        for r in raises_of(fi):
            nb = _is_nonbreaking_http(fi, r)
            if nb is None and _rtype(fi, r) not in HTTP_ERRS:
                continue        # not an HTTP error: what becomes of it is judged where it is caught (R14.a / R14.c)
            rep.check('R14.b', fkey(fi, r) + '#' + ','.join(cond_texts(conds(fi, r)))[:80], nb is True,
                      '%s is raised non-breaking' % _rtype(fi, r) if nb is True else
                      '%s raised without is_breaking=False in %s, which serves static files: later (overlapping) static applications '
                      'are never tried' % (_rtype(fi, r), fi.qualname), st, r)


def _r14c(rep):
    repo = rep.repo
    st = repo.mod(STATIC)
    serving = [st.func('build_file_response'), st.func('StaticApplication.get_file_response'),
               st.func('StaticFileRoute.get_file_response')]
    rep.rule('R14.c', 'filesystem primitives on the serving path are under an OSError handler raising non-breaking Forbidden')
    bfr = serving[0]
    n_prims = 0
    for c in walk_body(bfr.node):
        if not isinstance(c, ast.Call):
            continue
        tail = call_tail(c)
        if tail not in FS_PRIMS:
            continue
        if tail in ('read', 'seek', 'tell') and not isinstance(c.func, ast.Attribute):
            continue
        n_prims += 1
        h = _protected_by(bfr, c, 'OSError')
        ok = h is not None and _nonbreaking_forbidden(h, bfr)
        rep.check('R14.c', fkey(bfr, c), ok,
                  '%s(...) is under "except %s" raising a non-breaking 403' % (tail, norm(h.type)) if ok else
                  'filesystem call %s is outside any OSError handler that raises a non-breaking Forbidden: an I/O error '
                  '(file vanished, EACCES, EIO) becomes a 500' % short(c), st, c)
    if n_prims < 3:
        raise AnalysisError('build_file_response: only %d filesystem primitives found (floor 3)' % n_prims)
    # helpers called under protection: their own primitives are covered by the call sites checked above;
    # make sure nobody else on the serving path calls them unprotected
    for fi in serving[1:]:
        for c in walk_body(fi.node):
            if isinstance(c, ast.Call) and call_tail(c) in FS_PRIMS and call_tail(c) not in ('read', 'seek', 'tell'):
                h = _protected_by(fi, c, 'OSError')
                ok = h is not None and _nonbreaking_forbidden(h, fi)
                rep.check('R14.c', fkey(fi, c), ok, 'protected' if ok else
                          'filesystem call %s in %s is unprotected' % (short(c), fi.qualname), st, c)
    # helpers themselves do not swallow: (nothing to check) ; helper bodies only use primitives
    for hname in ('get_file_mtime', 'peek_file'):
        st.func(hname)
        sites = []
        for m in repo.all_internal_modules():
            for fi in m.functions.values():
                for c in walk_body(fi.node):
                    if isinstance(c, ast.Call) and call_name(c) == hname:
                        sites.append((m, fi, c))
        for m, fi, c in sites:
            if fi is bfr:
                continue   # checked above as a primitive of build_file_response
            if fi.qualname in ('StaticFileRoute.__init__',):
                rep.ok('R14.c', fkey(fi, c), 'construction-time probe (fails construction, not a request)', m, c)
                continue
            if _unreferenced_private(repo, fi):
                rep.ok('R14.c', fkey(fi, c), 'private function without any remaining reference in the package (not on the serving path)', m, c)
                continue
            ok = _site_protected(repo, fi, c)
            rep.check('R14.c', fkey(fi, c), ok, 'call site of helper %s is protected' % hname if ok else
                      'helper %s (performs file I/O) is called unprotected in %s' % (hname, fi.qualname), m, c)
    rep.floor('R14.c', 4)


def _is_mtime_of(bfr, e):
    return isinstance(e, ast.Call) and call_tail(e) == 'get_file_mtime' and e.args and norm(e.args[0]) == bfr.params()[0]


def _r14d(rep):
    repo = rep.repo
    st = repo.mod(STATIC)
    bfr = st.func('build_file_response')
    rep.rule('R14.d', '304 only for a not-newer file and before open(); success path assigns body and headers')
    cfg_b = cfg_of(bfr)
    s304 = [s for s in stmts_of(bfr.node) if isinstance(s, ast.Assign) and isinstance(s.targets[0], ast.Attribute)
            and s.targets[0].attr in ('status_code', 'status') and str(repo.try_fold(s.value, st, '')).startswith('304')]
    if len(s304) != 1:
        raise AnalysisError('build_file_response: expected one 304 status assignment')
    cs = _conds(bfr, s304[0])
    c1 = has_cond(cs, lambda t: isinstance(t, ast.Name) and t.id == 'cache_timeout', True) and \
        has_cond(cs, lambda t: isinstance(t, ast.Name) and t.id == 'cached_modify_time', True)
    # ``<file mtime> <= cached_modify_time`` (either way round); the name holding the file's mtime is free
    mt_names = []

    def not_newer(t, pol=True):
        # mtime <= cmt, cmt >= mtime hold; or mtime > cmt, cmt < mtime do not hold (datetimes are totally ordered)
        if not (isinstance(t, ast.Compare) and len(t.ops) == 1):
            return False
        l, r = t.left, t.comparators[0]
        op = type(t.ops[0])
        if op in (ast.GtE, ast.Lt):
            l, r = r, l
            op = {ast.GtE: ast.LtE, ast.Lt: ast.Gt}[op]
        if op is not (ast.LtE if pol else ast.Gt):
            return False
        if isinstance(l, ast.Name) and norm(r) == 'cached_modify_time' and l.id != 'cached_modify_time':
            mt_names.append(l)
            return True
        return False
    c2 = has_cond(cs, not_newer, True) or has_cond(cs, lambda t: not_newer(t, False), False)
    rep.check('R14.d', fkey(bfr, '304 condition'), c1 and c2,
              '304 only when caching is on, the client sent a date, and mtime <= that date' if c1 and c2 else
              '304 is not conditioned on (cache_timeout and cached_modify_time) and mtime <= cached_modify_time: %s' % '; '.join(cond_texts(cs)),
              st, s304[0])
    opens = [stmt_of(st, c) for c in walk_body(bfr.node) if isinstance(c, ast.Call) and call_name(c) == 'open']
    rets = returns_of(bfr)
    ret304 = [r for r in rets if set(cfg_b.nodes_of(r)) & cfg_b.reach(cfg_b.nodes_of(s304[0]), normal_only=True)
              and not (set(cfg_b.nodes_of(r)) & cfg_b.reach(cfg_b.nodes_of_all(opens)))]
    rep.check('R14.d', fkey(bfr, '304 before open'), bool(ret304), 'the 304 response returns before any file is opened' if ret304 else
              'the 304 path opens the file (or does not return)', st, s304[0])
    final_rets = [r for r in rets if r not in ret304]
    if not final_rets:
        raise AnalysisError('build_file_response: success return not found')
    resp_var = norm(final_rets[-1].value)
    hdr = lambda attr: [s for s in stmts_of(bfr.node) if isinstance(s, ast.Assign) and norm(s.targets[0]) == '%s.%s' % (resp_var, attr)]
    # every local that stands for the file's modification time (compared for the 304, sent as Last-Modified) only ever
    # holds get_file_mtime(path)
    for s in hdr('last_modified'):
        if isinstance(s.value, ast.Name):
            mt_names.append(s.value)
    if not mt_names:
        mt_names = [ast.Name(id='mtime', ctx=ast.Load())]
    ok = all(_all_srcs(bfr, n, lambda e: _is_mtime_of(bfr, e)) for n in mt_names) and not assigned_value(bfr.node, bfr.params()[0])
    rep.check('R14.d', fkey(bfr, 'mtime source'), ok, 'mtime is the served file\'s modification time' if ok else
              'mtime does not come from get_file_mtime(path)', st, bfr.node)
    need = {'response': lambda v: isinstance(v, ast.Call) and call_name(v) == 'file_wrapper' and len(v.args) == 1 and not v.keywords and
            _all_srcs(bfr, v.args[0], lambda e: isinstance(e, ast.Call) and call_name(e) == 'open'),
            'content_type': lambda v: isinstance(v, ast.Name) and any(_is_param(e, 'mimetype') for e in _srcs(bfr, v)),
            'content_length': lambda v: isinstance(v, ast.Name) and _all_srcs(bfr, v, lambda e: isinstance(e, ast.Call) and call_tail(e) == 'getsize'),
            'last_modified': lambda v: isinstance(v, ast.Name) and _all_srcs(bfr, v, lambda e: _is_mtime_of(bfr, e))}
    for attr, pred in need.items():
        sts = hdr(attr)
        ok = bool(sts) and all(cfg_b.must_pass(cfg_b.nodes_of_all(sts), cfg_b.nodes_of_all(opens), cfg_b.nodes_of(r), normal_only=True)
                               for r in final_rets) and all(pred(s.value) for s in sts)
        rep.check('R14.d', fkey(bfr, '%s.%s' % (resp_var, attr)), ok,
                  '%s is assigned from the right source on every success path' % attr if ok else
                  'success path does not always assign %s.%s from the expected source' % (resp_var, attr), st, sts[0] if sts else bfr.node)
    # isfile check precedes open
    isf_f = [nid for nid, t_, p_ in [(n,) + _branch_test(cfg_b, n, t, p) for n, t, p in cfg_b.branches()]
             if isinstance(t_, ast.Call) and call_tail(t_) == 'isfile' and p_ is True]
    ok = bool(isf_f) and cfg_b.must_pass(isf_f, cfg_b.entry, cfg_b.nodes_of_all(opens))
    rep.check('R14.d', fkey(bfr, 'isfile before open'), ok, 'only regular files are opened (isfile test dominates open)' if ok else
              'open() is reachable without the isfile test (directories / special files)', st, bfr.node)


def _r14e(rep):
    repo = rep.repo
    st = repo.mod(STATIC)
    rep.rule('R14.e', "StaticApplication serves '/<path*>' with get_file_response, joining segments with '/'")
    init = st.func('StaticApplication.__init__')
    gfr, ffc, res_var = _find_file_call(st)
    found = False
    for n in walk_body(init.node):
        if isinstance(n, ast.Tuple) and len(n.elts) >= 2 and repo.try_fold(n.elts[0], st) == '/<path*>' \
                and not (isinstance(n.elts[0], ast.Name) and n.elts[0].id in _locals_of(init)) \
                and norm(n.elts[1]) == 'self.get_file_response':
            found = True
    rep.check('R14.e', fkey(init, 'route'), found, "route '/<path*>' -> self.get_file_response" if found else
              "StaticApplication no longer registers '/<path*>' -> get_file_response", st, init.node)

    def slash_join(e):
        return isinstance(e, ast.Call) and isinstance(e.func, ast.Attribute) and e.func.attr == 'join' and \
            repo.try_fold(e.func.value, st) == '/' and not (isinstance(e.func.value, ast.Name) and e.func.value.id in _locals_of(gfr))
    joined = [s for s in stmts_of(gfr.node) if isinstance(s, ast.Assign) and slash_join(s.value)]
    rep.check('R14.e', fkey(gfr, "'/'.join(path)"), bool(joined), "multi-segment path values are joined with '/'" if joined else
              "path segments are not joined with '/'", st, gfr.node)
    # what is looked up is the bound ``path`` value: the parameter itself or its segments joined with '/'
    def path_value(e):
        # the parameter, or '/'.join(<a name that only ever holds the parameter or this very join of itself>)
        if _is_param(e, 'path'):
            return True
        if not (slash_join(e) and len(e.args) == 1 and not e.keywords and isinstance(e.args[0], ast.Name)):
            return False
        a = e.args[0]
        return all(isinstance(x, ast.expr) and (_is_param(x, 'path') or (slash_join(x) and len(x.args) == 1 and not x.keywords
                                                                         and norm(x.args[0]) == a.id))
                   for x in _srcs(gfr, a))
    ok = 'path' in gfr.params() and len(ffc.args) >= 2 and norm(ffc.args[0]) == 'self.search_paths' and \
        _all_srcs(gfr, ffc.args[1], path_value)
    rep.check('R14.e', fkey(gfr, 'find_file args'), ok, 'find_file(self.search_paths, path)' if ok else
              'find_file is not called with (self.search_paths, path)', st, ffc)
    # the found path is what is served
    bc = [c for c in walk_body(gfr.node) if isinstance(c, ast.Call) and call_name(c) in local_aliases(gfr, 'build_file_response')]
    ok = bool(bc) and res_var is not None and all(c.args and norm(c.args[0]) == res_var for c in bc)
    rep.check('R14.e', fkey(gfr, 'serves found path'), ok, 'the path returned by find_file is the one served' if ok else
              'build_file_response is not given the path found by find_file', st, bc[0] if bc else gfr.node)
    ok = bool(bc) and 'request' in gfr.params() and not assigned_value(gfr.node, 'request') and \
        all(_all_srcs(gfr, _argn(gfr, c, 'cached_modify_time', 2), lambda e: norm(e) == 'request.if_modified_since') for c in bc)
    rep.check('R14.e', fkey(gfr, 'if_modified_since'), ok, 'conditional requests use request.if_modified_since' if ok else
              'cached_modify_time is not request.if_modified_since', st, bc[0] if bc else gfr.node)


# ---------------------------------------------------------------------------------------------- R14.g: no history
def _bfr_calls(fi):
    return [c for c in walk_body(fi.node) if isinstance(c, ast.Call) and call_name(c) in local_aliases(fi, 'build_file_response')]


def _r14g_provenance(rep):
    """What is served is what *this* request looked up: every value that can reach the path argument of
    build_file_response is the result of the find_file call of this activation (StaticApplication) / the configured
    file path (StaticFileRoute) -- not something remembered from an earlier request."""
    repo = rep.repo
    st = repo.mod(STATIC)
    rep.rule('R14.g', 'the answer is computed from this request and the file system as it is now: the served path comes from the '
             'lookup made by this request, nothing a request learns is kept in an object that outlives it, no serving function is '
             'wrapped by a result cache')
    gfr, ffc, res_var = _find_file_call(st)
    bc = _bfr_calls(gfr)
    if not bc:
        raise AnalysisError('StaticApplication.get_file_response: call of build_file_response not found')

    def looked_up_now(e):
        return e is ffc or (isinstance(e, ast.Constant) and e.value is None)
    for c in bc:
        p = _argn(gfr, c, 'path', 0)
        ok = p is not None and _all_srcs(gfr, p, looked_up_now) and any(x is ffc for x in _srcs(gfr, p))
        rep.check('R14.g', fkey(gfr, 'served path is looked up by this request'), ok,
                  'the path handed to build_file_response is, on every path, the result of this request\'s find_file call' if ok else
                  'the path handed to build_file_response (%s) does not always come from the find_file call of this request: %s'
                  % (short(p) if p is not None else '?', '; '.join(short(x, 50) for x in (_srcs(gfr, p) if p is not None else [])
                                                                     if not (isinstance(x, ast.expr) and looked_up_now(x))) or 'no source'),
                  st, c)
    sfr = st.func('StaticFileRoute.get_file_response')
    bc2 = _bfr_calls(sfr)
    if not bc2:
        raise AnalysisError('StaticFileRoute.get_file_response: call of build_file_response not found')
    for c in bc2:
        p = _argn(sfr, c, 'path', 0)
        ok = p is not None and _all_srcs(sfr, p, lambda e: norm(e) == 'self.file_path')
        rep.check('R14.g', fkey(sfr, 'served path is the configured one'), ok,
                  'the route serves self.file_path' if ok else
                  'the path handed to build_file_response (%s) is not always self.file_path' % (short(p) if p is not None else '?'), st, c)


def _r14g_state(rep):
    from . import c14_state
    repo = rep.repo
    st = repo.mod(STATIC)
    roots = [st.func('StaticApplication.get_file_response'), st.func('StaticFileRoute.get_file_response')]
    c14_state.check_history_free(rep, 'R14.g', st, roots)


# ---------------------------------------------------------------------------------------------- R14.f: time base
# The value sent as Last-Modified and compared with If-Modified-Since is followed from its use back to where it is
# constructed (reaching definitions of locals, calls into functions of the package, module-level constants) and
# evaluated over a small abstract domain: *what kind of time value* an expression denotes, never which instant.
#   epoch   seconds since the epoch (time-zone free), of which file, whole seconds or not
#   struct  a struct_time broken down in UTC / in local time
#   dt      a datetime: naive holding UTC wall-clock time, naive holding local wall-clock time, aware
#   origin / delta   datetime(1970, 1, 1) and timedelta(seconds=<epoch>)
#   tz      a tzinfo object (UTC or some other zone)
#   bad     a definite defect (a local-time reading of a UTC value or vice versa, the clock, another file time)
#   unknown anything else (not followed => analysis error)
_UTC_TZ_NAMES = {'datetime.timezone.utc', 'datetime.UTC', 'pytz.utc', 'pytz.UTC', 'dateutil.tz.UTC'}
_UTC_TZ_CALLS = {'dateutil.tz.tzutc'}
_CLOCKS = {'time.time', 'time.time_ns', 'datetime.datetime.now', 'datetime.datetime.utcnow', 'datetime.datetime.today',
           'datetime.date.today', 'time.monotonic'}
_OTHER_FILE_TIMES = {'os.path.getctime': 'inode-change', 'os.path.getatime': 'last-access'}
_STAT_CALLS = {'os.stat', 'os.lstat'}
_DT_CLASSES = {'datetime.datetime'}


class _V(object):
    """One abstract time value (see above)."""
    __slots__ = ('kind', 'base', 'of', 'whole', 'why', 'node', 'mod')

    def __init__(self, kind, base=None, of=(), whole=None, why='', node=None, mod=None):
        self.kind, self.base, self.of, self.whole, self.why, self.node, self.mod = kind, base, tuple(of), whole, why, node, mod

    def but(self, **kw):
        v = _V(self.kind, self.base, self.of, self.whole, self.why, self.node, self.mod)
        for k, x in kw.items():
            setattr(v, k, x)
        return v

    def sig(self):
        return (self.kind, self.base, self.of, self.whole, self.why, id(self.node))


class _Ctx(object):
    """Where an expression is evaluated: a module, optionally a function of it, and what the function's parameters
    are bound to ({name: (expr, ctx) | None}; None for the whole dict = parameters stay symbolic)."""
    def __init__(self, mod, fi=None, args=None, depth=0):
        self.mod, self.fi, self.args, self.depth = mod, fi, args, depth


def _local_imports(fi):
    c = getattr(fi, '_c14_limports', None)
    if c is None:
        c = {}
        for s in stmts_of(fi.node):
            if isinstance(s, ast.Import):
                for a in s.names:
                    c[a.asname or a.name.split('.')[0]] = a.name if a.asname else a.name.split('.')[0]
            elif isinstance(s, ast.ImportFrom) and not s.level and s.module:
                for a in s.names:
                    c[a.asname or a.name] = s.module + '.' + a.name
        fi._c14_limports = c
    return c


def _reaching(fi, name_node):
    """The bindings of a local that can reach one use of it: [(stmt, value, idx)] as astutil.assigned_value gives them,
    plus the string 'initial' when the value the name has on entry (a parameter's argument) can reach the use.  A
    binding reaches the use when some CFG path leads from it to the using statement without passing another binding
    of the same name."""
    name = name_node.id
    defs = assigned_value(fi.node, name)
    cfg = cfg_of(fi)
    use = stmt_of(fi.mod, name_node)
    un = set(cfg.nodes_of(use)) if use is not None else set()
    if not un:
        return list(defs) + ['initial']
    probe = ast.Name(id=name, ctx=ast.Load())
    kill = set(nd.id for nd in cfg.nodes if cfg._kills(probe, [nd.id]))
    for st, val, idx in defs:
        if isinstance(st, ast.ExceptHandler):
            kill.update(cfg.handler_nodes(st))
    avoid = kill - un
    out = []
    for d in defs:
        st = d[0]
        dn = set(cfg.handler_nodes(st)) if isinstance(st, ast.ExceptHandler) else set(cfg.nodes_of(st)) & kill
        if not dn or un & cfg.reach([m for x in dn for m in cfg.succ[x]], avoid=avoid):
            out.append(d)
    if un & cfg.reach([cfg.entry], avoid=avoid):
        out.append('initial')
    return out


def _qual(ctx, e, depth=0):
    """Dotted name of the library object an expression denotes ('datetime.datetime.utcfromtimestamp', 'os.path.getmtime',
    'datetime.timezone.utc', a builtin's own name): through module- and function-level imports (with ``as``),
    module-level aliases and locals bound once to such a name.  None when the expression is not such a name."""
    if depth > 8:
        return None
    if isinstance(e, ast.Attribute):
        q = _qual(ctx, e.value, depth + 1)
        return q + '.' + e.attr if q else None
    if not isinstance(e, ast.Name):
        return None
    fi, mod = ctx.fi, ctx.mod
    if fi is not None:
        if e.id in _locals_of(fi):
            if e.id in fi.params():
                return None
            ds = assigned_value(fi.node, e.id)
            if len(ds) == 1 and ds[0][2] is None and isinstance(ds[0][1], (ast.Name, ast.Attribute)):
                return _qual(ctx, ds[0][1], depth + 1)
            return None
        li = _local_imports(fi)
        if e.id in li:
            return li[e.id]
    if e.id in mod.functions or e.id in mod.classes:
        return None
    if e.id in mod.imports:
        modname, attr = mod.imports[e.id]
        return modname + ('.' + attr if attr else '')
    if e.id in mod.assigns:
        vals = mod.assigns[e.id]
        if len(vals) == 1 and isinstance(vals[0], (ast.Name, ast.Attribute)):
            return _qual(_Ctx(mod), vals[0], depth + 1)
        return None
    return e.id


def _callee(ctx, call):
    """The function of the analysed package a call invokes (plain name, single-assignment local alias of one,
    self/cls method): (FuncInfo, number of implicit leading parameters), else (None, 0)."""
    repo = ctx.mod.repo
    f = call.func
    fi = ctx.fi
    for _ in range(4):
        if isinstance(f, ast.Name) and fi is not None and f.id in _locals_of(fi) and f.id not in fi.params():
            ds = assigned_value(fi.node, f.id)
            if len(ds) == 1 and ds[0][2] is None and isinstance(ds[0][1], (ast.Name, ast.Attribute)):
                f = ds[0][1]
                continue
        break
    try:
        if isinstance(f, ast.Name) and not (fi is not None and f.id in _locals_of(fi)):
            kind, m, obj = repo.resolve(ctx.mod, f.id)
            if kind == 'func' and m is not None and not m.external:
                return obj, 0
        if isinstance(f, ast.Attribute) and isinstance(f.value, ast.Name) and f.value.id in ('self', 'cls') and fi is not None \
                and fi.cls is not None:
            meth = repo.find_method(fi.cls, f.attr)
            if meth is not None and not meth.mod.external:
                static = any(isinstance(d, ast.Name) and d.id == 'staticmethod' for d in meth.node.decorator_list)
                return meth, 0 if static else 1
    except AnalysisError:
        raise
    except Exception:
        return None, 0
    return None, 0


def _const_of(ctx, e, depth=0):
    """Constant an expression folds to (literal, module-level constant, a parameter bound to one): (True, value) or
    (False, None)."""
    if e is None or depth > 6:
        return False, None
    if isinstance(e, ast.Constant):
        return True, e.value
    if isinstance(e, ast.UnaryOp) and isinstance(e.op, ast.USub):
        ok, v = _const_of(ctx, e.operand, depth + 1)
        return (True, -v) if ok and isinstance(v, (int, float)) else (False, None)
    if isinstance(e, ast.Name) and ctx.fi is not None and e.id in _locals_of(ctx.fi):
        rd = _reaching(ctx.fi, e)
        if rd == ['initial'] and e.id in ctx.fi.params() and ctx.args is not None and ctx.args.get(e.id) is not None:
            ex, c2 = ctx.args[e.id]
            return _const_of(c2, ex, depth + 1)
        if len(rd) == 1 and rd[0] != 'initial' and rd[0][2] is None and isinstance(rd[0][1], ast.expr):
            return _const_of(ctx, rd[0][1], depth + 1)
        return False, None
    if isinstance(e, (ast.Name, ast.Attribute)):
        marker = object()
        v = ctx.mod.repo.try_fold(e, ctx.mod, marker)
        if v is not marker and isinstance(v, (int, float, str, type(None), bool)):
            return True, v
    return False, None


def _uniq(vals):
    out, seen = [], set()
    for v in vals:
        if v.sig() not in seen:
            seen.add(v.sig())
            out.append(v)
    return out


def _unknown(ctx, e, why):
    return _V('unknown', why=why, node=e, mod=ctx.mod)


def _bad(ctx, e, why, of=()):
    return _V('bad', why=why, node=e, mod=ctx.mod, of=of)


def _whose(ctx, e, stack):
    """Which file a path expression names: the parameters it can come from (followed through calls), else its text."""
    out = []
    for v in _tv(ctx, e, stack):
        if v.kind == 'sym':
            out.append(('param', v.base, v.why))
        else:
            out.append(('other', short(e)))
    return tuple(sorted(set(out)))


def _is_utc_tz(ctx, e, stack):
    """True: the expression is the UTC tzinfo; False: some other tzinfo / None is handled by the callers; None: unknown."""
    vs = _tv(ctx, e, stack)
    if vs and all(v.kind == 'tz' for v in vs):
        if all(v.base == 'utc' for v in vs):
            return True
        return False
    return None


def _tv(ctx, e, stack=()):
    """Abstract time value(s) an expression can denote: a list of _V (several when several definitions reach)."""
    if len(stack) > 40 or ctx.depth > 6:
        return [_unknown(ctx, e, 'too deep to follow')]
    key = (id(e), id(ctx.fi), ctx.depth)
    if key in stack:
        return []          # a definition that feeds itself (loop / re-binding): contributes nothing new
    stack = stack + (key,)
    if isinstance(e, ast.IfExp):
        return _uniq(_tv(ctx, e.body, stack) + _tv(ctx, e.orelse, stack))
    if isinstance(e, ast.BoolOp):
        return _uniq([v for x in e.values for v in _tv(ctx, x, stack)])
    if isinstance(e, ast.NamedExpr):
        return _tv(ctx, e.value, stack)
    if isinstance(e, ast.Name):
        return _tv_name(ctx, e, stack)
    if isinstance(e, ast.Attribute):
        q = _qual(ctx, e)
        if q in _UTC_TZ_NAMES:
            return [_V('tz', 'utc', node=e, mod=ctx.mod)]
        if q is None and e.attr.startswith('st_') and e.attr.endswith('time'):
            out = []
            for v in _tv(ctx, e.value, stack):
                if v.kind != 'statres':
                    out.append(v if v.kind in ('bad', 'unknown') else _unknown(ctx, e, '%s of something that is not a stat result' % e.attr))
                elif e.attr == 'st_mtime':
                    out.append(_V('epoch', of=v.of, whole=False, node=e, mod=ctx.mod))
                else:
                    out.append(_bad(ctx, e, '%s is not the modification time' % e.attr, v.of))
            return _uniq(out)
        return [_unknown(ctx, e, 'attribute %s is not followed' % short(e))]
    if isinstance(e, ast.Subscript):
        return _tv_subscript(ctx, e, stack)
    if isinstance(e, ast.BinOp):
        return _tv_binop(ctx, e, stack)
    if isinstance(e, ast.Call):
        return _tv_call(ctx, e, stack)
    if isinstance(e, ast.Constant) and e.value is None:
        return [_V('none', node=e, mod=ctx.mod)]
    return [_unknown(ctx, e, 'expression %s is not a time value the rule knows' % short(e))]


def _tv_name(ctx, e, stack):
    fi = ctx.fi
    if fi is not None and e.id in _locals_of(fi):
        out = []
        for d in _reaching(fi, e):
            if d == 'initial':
                if e.id not in fi.params():
                    continue        # unbound on that path
                if ctx.args is None:
                    out.append(_V('sym', fi.qualname, why=e.id, node=e, mod=ctx.mod))
                elif ctx.args.get(e.id) is None:
                    out.append(_unknown(ctx, e, 'argument for parameter %s of %s not identified' % (e.id, fi.qualname)))
                else:
                    ex, c2 = ctx.args[e.id]
                    out.extend(_tv(c2, ex, stack))
                continue
            st, val, idx = d
            if isinstance(idx, int) and isinstance(st, ast.Assign):
                tgt = [t for t in st.targets if isinstance(t, (ast.Tuple, ast.List))
                       and any(isinstance(x, ast.Name) and x.id == e.id for x in t.elts)]
                if tgt and not any(isinstance(x, ast.Starred) for x in tgt[0].elts):
                    if isinstance(val, (ast.Tuple, ast.List)) and len(val.elts) == len(tgt[0].elts) and \
                            not any(isinstance(x, ast.Starred) for x in val.elts):
                        val, idx = val.elts[idx], None
                    else:
                        val, idx = ast.copy_location(ast.Subscript(value=val, slice=ast.Constant(value=idx), ctx=ast.Load()), val), None
            if idx is not None or not isinstance(val, ast.expr):
                out.append(_unknown(ctx, st if isinstance(st, ast.AST) else e, '%s is bound by a statement that is not followed' % e.id))
            else:
                out.extend(_tv(ctx, val, stack))
        return _uniq(out)
    q = _qual(ctx, e)
    if q in _UTC_TZ_NAMES:
        return [_V('tz', 'utc', node=e, mod=ctx.mod)]
    if e.id in ctx.mod.assigns and not (fi is not None and e.id in _local_imports(fi)):
        vals = ctx.mod.assigns[e.id]
        if len(vals) == 1 and isinstance(vals[0], ast.expr) and not ctx.mod.augassigns.get(e.id):
            return _tv(_Ctx(ctx.mod, None, None, ctx.depth + 1), vals[0], stack)
        return [_unknown(ctx, e, 'module-level name %s has several bindings' % e.id)]
    if e.id in ctx.mod.imports and q is not None:
        modname, attr = ctx.mod.imports[e.id]
        m = ctx.mod.repo.try_mod(modname) if attr and ctx.mod.repo.is_internal(modname) else None
        if m is not None and attr in m.assigns and len(m.assigns[attr]) == 1 and isinstance(m.assigns[attr][0], ast.expr):
            return _tv(_Ctx(m, None, None, ctx.depth + 1), m.assigns[attr][0], stack)
    return [_unknown(ctx, e, 'name %s is not a time value the rule knows' % e.id)]


def _tv_subscript(ctx, e, stack):
    sl = e.slice
    ok, idx = _const_of(ctx, sl)
    if isinstance(e.value, (ast.Tuple, ast.List)) and ok and isinstance(idx, int) and -len(e.value.elts) <= idx < len(e.value.elts) \
            and not any(isinstance(x, ast.Starred) for x in e.value.elts):
        return _tv(ctx, e.value.elts[idx], stack)
    if isinstance(e.value, ast.Call) and ok and isinstance(idx, int):
        callee, skip = _callee(ctx, e.value)
        if callee is not None:
            return _follow_call(ctx, e.value, callee, skip, stack, element=idx)
    base = _tv(ctx, e.value, stack)
    out = []
    for v in base:
        if v.kind == 'statres':
            is_mtime = (ok and idx == 8) or _qual(ctx, sl) == 'stat.ST_MTIME'
            if is_mtime:
                out.append(_V('epoch', of=v.of, whole=True, node=e, mod=ctx.mod))
            elif ok or _qual(ctx, sl):
                out.append(_bad(ctx, e, 'field %s of the stat result is not the modification time' % short(sl), v.of))
            else:
                out.append(_unknown(ctx, e, 'stat field %s not identified' % short(sl)))
        elif v.kind in ('bad', 'unknown'):
            out.append(v)
        else:
            out.append(_unknown(ctx, e, 'subscript %s is not followed' % short(e)))
    return _uniq(out)


def _tv_binop(ctx, e, stack):
    ls, rs = _tv(ctx, e.left, stack), _tv(ctx, e.right, stack)
    out = []
    if isinstance(e.op, ast.Add):
        for a in ls:
            for b in rs:
                if a.kind == 'delta' and b.kind == 'origin':
                    a, b = b, a
                if a.kind == 'origin' and b.kind == 'delta':
                    out.append(_V('dt', 'aware-utc' if a.base == 'aware' else 'naive-utc', of=b.of, whole=b.whole, node=e, mod=ctx.mod))
                elif a.kind == 'bad' or b.kind == 'bad':
                    out.append(a if a.kind == 'bad' else b)
                else:
                    out.append(_unknown(ctx, e, 'arithmetic %s on time values is not followed' % short(e)))
        return _uniq(out)
    if isinstance(e.op, ast.FloorDiv):
        ok, d = _const_of(ctx, e.right)
        for a in ls:
            if a.kind == 'epoch' and ok and d == 1:
                out.append(a.but(whole=True, node=e))
            elif a.kind == 'bad':
                out.append(a)
            else:
                out.append(_unknown(ctx, e, 'arithmetic %s on time values is not followed' % short(e)))
        return _uniq(out)
    bads = [v for v in ls + rs if v.kind == 'bad']
    return _uniq(bads) or [_unknown(ctx, e, 'arithmetic %s on time values is not followed' % short(e))]


def _plain_args(call):
    return not any(isinstance(a, ast.Starred) for a in call.args) and not any(k.arg is None for k in call.keywords)


def _map(vals, fn, ctx, e):
    """Apply ``fn`` to every value; defects and unknowns pass through unchanged; fn returning None = not applicable."""
    out = []
    for v in vals:
        if v.kind in ('bad', 'unknown'):
            out.append(v)
            continue
        r = fn(v)
        if r is None:
            r = _unknown(ctx, e, '%s applied to a value of kind %s is not followed' % (short(e.func) if isinstance(e, ast.Call) else short(e), v.kind))
        out.extend(r if isinstance(r, list) else [r])
    return _uniq(out)


def _tv_call(ctx, e, stack):
    mod = ctx.mod
    q = _qual(ctx, e.func)
    plain = _plain_args(e)
    a0 = e.args[0] if e.args and not isinstance(e.args[0], ast.Starred) else None

    def arg0():
        return _tv(ctx, a0, stack) if a0 is not None else []

    callee, skip = _callee(ctx, e)
    if callee is not None:
        return _follow_call(ctx, e, callee, skip, stack)
    if q in _CLOCKS:
        return [_bad(ctx, e, '%s() reads the clock, not the file' % q)]
    if q in _OTHER_FILE_TIMES and plain and a0 is not None:
        return [_bad(ctx, e, '%s is the %s time, not the modification time' % (q, _OTHER_FILE_TIMES[q]), _whose(ctx, a0, stack))]
    if q == 'os.path.getmtime' and plain and a0 is not None:
        return [_V('epoch', of=_whose(ctx, a0, stack), whole=False, node=e, mod=mod)]
    if q in _STAT_CALLS and plain and a0 is not None:
        return [_V('statres', of=_whose(ctx, a0, stack), node=e, mod=mod)]
    if q == 'os.fstat' and plain and a0 is not None:
        return [_V('statres', of=(('other', short(a0)),), node=e, mod=mod)]
    if q is None and isinstance(e.func, ast.Attribute) and e.func.attr in ('stat', 'lstat') and not e.args and not e.keywords and \
            isinstance(e.func.value, ast.Call) and _qual(ctx, e.func.value.func) in ('pathlib.Path', 'pathlib.PurePath') and \
            len(e.func.value.args) == 1 and _plain_args(e.func.value) and not e.func.value.keywords:
        return [_V('statres', of=_whose(ctx, e.func.value.args[0], stack), node=e, mod=mod)]
    if q in _UTC_TZ_CALLS and not e.args and not e.keywords:
        return [_V('tz', 'utc', node=e, mod=mod)]
    if q in ('zoneinfo.ZoneInfo', 'pytz.timezone', 'dateutil.tz.gettz') and plain and len(e.args) == 1:
        ok, name = _const_of(ctx, e.args[0])
        if ok and isinstance(name, str):
            return [_V('tz', 'utc' if name.upper() in ('UTC', 'ETC/UTC', 'GMT', 'ETC/GMT', 'Z') else 'other', node=e, mod=mod)]
        return [_unknown(ctx, e, 'time zone %s not identified' % short(e))]
    # numeric wrappers keep an epoch value an epoch value
    if q in ('round', 'int', 'float', 'math.floor', 'math.ceil', 'math.trunc') and plain and a0 is not None:
        whole = True
        if q == 'float':
            whole = None
        elif q == 'round':
            nd = argn(e, 'ndigits', 1)
            if nd is not None:
                ok, n = _const_of(ctx, nd)
                whole = (True if (n is None or (isinstance(n, int) and n <= 0)) else None) if ok else 'unknown'

        def num(v):
            if v.kind != 'epoch':
                return None
            if whole == 'unknown':
                return v.but(whole=True if v.whole else None, node=e)
            return v.but(whole=True if (whole or v.whole) else v.whole, node=e)
        return _map(arg0(), num, ctx, e)
    if q == 'time.gmtime' or q == 'time.localtime':
        if a0 is None and not e.keywords:
            return [_bad(ctx, e, '%s() without an argument reads the clock, not the file' % q)]
        base = 'utc' if q == 'time.gmtime' else 'local'
        return _map(arg0(), lambda v: _V('struct', base, of=v.of, whole=True, node=e, mod=mod) if v.kind == 'epoch' else None, ctx, e)
    if q == 'time.mktime' and plain and a0 is not None:
        return _map(arg0(), lambda v: None if v.kind != 'struct' else
                    (_V('epoch', of=v.of, whole=True, node=e, mod=mod) if v.base == 'local' else
                     _bad(ctx, e, 'time.mktime() reads a UTC struct_time as local time', v.of)), ctx, e)
    if q == 'calendar.timegm' and plain and a0 is not None:
        return _map(arg0(), lambda v: None if v.kind != 'struct' else
                    (_V('epoch', of=v.of, whole=True, node=e, mod=mod) if v.base == 'utc' else
                     _bad(ctx, e, 'calendar.timegm() reads a local struct_time as UTC', v.of)), ctx, e)
    if q == 'datetime.datetime.utcfromtimestamp' and plain and a0 is not None:
        return _map(arg0(), lambda v: _V('dt', 'naive-utc', of=v.of, whole=v.whole, node=e, mod=mod) if v.kind == 'epoch' else None, ctx, e)
    if q in ('datetime.datetime.fromtimestamp', 'datetime.date.fromtimestamp') and plain and a0 is not None:
        tz = argn(e, 'tz', 1)
        if tz is not None and not (isinstance(tz, ast.Constant) and tz.value is None):
            tzv = _tv(ctx, tz, stack)
            if tzv and all(v.kind == 'none' for v in tzv):
                tz = None
        if tz is None or (isinstance(tz, ast.Constant) and tz.value is None) or q.startswith('datetime.date.'):
            base = 'naive-local'
        else:
            u = _is_utc_tz(ctx, tz, stack)
            if u is None:
                return [_unknown(ctx, e, 'time zone argument %s not identified' % short(tz))]
            base = 'aware-utc' if u else 'aware'
        return _map(arg0(), lambda v: _V('dt', base, of=v.of, whole=v.whole, node=e, mod=mod) if v.kind == 'epoch' else None, ctx, e)
    if q in _DT_CLASSES:
        return _tv_datetime_ctor(ctx, e, stack)
    if q == 'datetime.timedelta' and plain:
        secs = argn(e, 'seconds', 1)
        others = [k.arg for k in e.keywords if k.arg != 'seconds']
        zero_days = len(e.args) == 0 or (len(e.args) <= 2 and _const_of(ctx, e.args[0]) == (True, 0))
        if secs is not None and not others and zero_days and len(e.args) <= 2:
            return _map(_tv(ctx, secs, stack), lambda v: _V('delta', of=v.of, whole=v.whole, node=e, mod=mod) if v.kind == 'epoch' else None, ctx, e)
        return [_unknown(ctx, e, 'timedelta %s is not followed' % short(e))]
    if q is None and isinstance(e.func, ast.Attribute):
        return _tv_method(ctx, e, stack)
    return [_unknown(ctx, e, 'call %s is not followed' % short(e))]


def _tv_datetime_ctor(ctx, e, stack):
    mod = ctx.mod
    tzk = kwarg(e, 'tzinfo')
    other_kw = [k.arg for k in e.keywords if k.arg != 'tzinfo']
    if tzk is None or (isinstance(tzk, ast.Constant) and tzk.value is None):
        utc = None
    else:
        utc = _is_utc_tz(ctx, tzk, stack)
        if utc is None:
            return [_unknown(ctx, e, 'time zone argument %s not identified' % short(tzk))]
    # datetime(*<struct_time>[:6])
    if len(e.args) == 1 and isinstance(e.args[0], ast.Starred) and not other_kw:
        s = e.args[0].value
        if isinstance(s, ast.Subscript) and isinstance(s.slice, ast.Slice) and s.slice.lower is None and s.slice.step is None and \
                _const_of(ctx, s.slice.upper)[1] in (3, 4, 5, 6):
            def mk(v):
                if v.kind != 'struct':
                    return None
                if utc is None:
                    return _V('dt', 'naive-' + v.base, of=v.of, whole=True, node=e, mod=mod)
                if utc and v.base == 'utc':
                    return _V('dt', 'aware-utc', of=v.of, whole=True, node=e, mod=mod)
                return _bad(ctx, e, 'a %s struct_time is labelled with a %s tzinfo' % (v.base, 'UTC' if utc else 'non-UTC'), v.of)
            return _map(_tv(ctx, s.value, stack), mk, ctx, e)
        return [_unknown(ctx, e, 'datetime(%s) is not followed' % short(e.args[0]))]
    # datetime(1970, 1, 1[, 0, 0, 0]): the epoch origin
    if _plain_args(e) and 3 <= len(e.args) <= 7 and not other_kw:
        cs = [_const_of(ctx, a) for a in e.args]
        if all(ok for ok, v in cs) and [v for ok, v in cs][:3] == [1970, 1, 1] and all(v == 0 for ok, v in cs[3:]):
            if utc is False:
                return [_unknown(ctx, e, 'epoch origin in a non-UTC zone')]
            return [_V('origin', 'aware' if utc else 'naive', node=e, mod=mod)]
    return [_unknown(ctx, e, 'datetime constructor %s is not followed' % short(e))]


def _tv_method(ctx, e, stack):
    """A method of a datetime / struct value: replace, astimezone, timetuple, utctimetuple, timestamp."""
    mod = ctx.mod
    m = e.func.attr
    recv = _tv(ctx, e.func.value, stack)
    if not recv or not any(v.kind in ('dt', 'bad') for v in recv):
        return [_unknown(ctx, e, 'call %s is not followed' % short(e))]
    if not _plain_args(e):
        return [_unknown(ctx, e, 'call %s with * / ** arguments is not followed' % short(e))]
    if m == 'replace':
        kws = dict((k.arg, k.value) for k in e.keywords)
        if e.args or set(kws) - {'tzinfo', 'microsecond', 'fold'}:
            return [_unknown(ctx, e, '%s changes date / time fields' % short(e))]
        us = kws.get('microsecond')
        us_zero = us is not None and _const_of(ctx, us) == (True, 0)
        if us is not None and not us_zero:
            return [_unknown(ctx, e, '%s sets a sub-second part' % short(e))]
        tz = kws.get('tzinfo')
        to_none = False
        if tz is not None:
            tzv = _tv(ctx, tz, stack)
            to_none = bool(tzv) and all(v.kind == 'none' for v in tzv)
        utc = None if (tz is None or to_none) else _is_utc_tz(ctx, tz, stack)

        def rep_(v):
            if v.kind != 'dt':
                return None
            w = True if us_zero else v.whole
            if tz is None:
                return v.but(whole=w, node=e)
            if to_none:
                if v.base == 'aware':
                    return _unknown(ctx, e, 'wall-clock time of a zone that is not identified')
                return v.but(base={'aware-utc': 'naive-utc'}.get(v.base, v.base), whole=w, node=e)
            if utc is None:
                return _unknown(ctx, e, 'time zone argument %s not identified' % short(tz))
            if v.base == 'naive-utc' and utc:
                return v.but(base='aware-utc', whole=w, node=e)
            if v.base == 'naive-local' and utc:
                return _bad(ctx, e, 'local wall-clock time is labelled UTC', v.of)
            if v.base == 'naive-utc' and not utc:
                return _bad(ctx, e, 'UTC wall-clock time is labelled with a non-UTC zone', v.of)
            return _unknown(ctx, e, '%s relabels a datetime' % short(e))
        return _map(recv, rep_, ctx, e)
    if m == 'astimezone':
        tz = argn(e, 'tz', 0)
        utc = None
        if tz is not None and not (isinstance(tz, ast.Constant) and tz.value is None):
            utc = _is_utc_tz(ctx, tz, stack)
            if utc is None:
                return [_unknown(ctx, e, 'time zone argument %s not identified' % short(tz))]

        def astz(v):
            if v.kind != 'dt':
                return None
            if v.base == 'naive-utc':
                return _bad(ctx, e, 'astimezone() reads a naive UTC value as local time', v.of)
            return v.but(base='aware-utc' if utc else 'aware', node=e)
        return _map(recv, astz, ctx, e)
    if m in ('timetuple', 'utctimetuple') and not e.args and not e.keywords:
        def tt(v):
            if v.kind != 'dt':
                return None
            if v.base in ('naive-utc', 'naive-local'):
                return _V('struct', v.base[6:], of=v.of, whole=True, node=e, mod=mod)
            if v.base == 'aware-utc' or m == 'utctimetuple':
                return _V('struct', 'utc', of=v.of, whole=True, node=e, mod=mod)
            return _unknown(ctx, e, 'timetuple() of a datetime in a zone that is not identified')
        return _map(recv, tt, ctx, e)
    if m == 'timestamp' and not e.args and not e.keywords:
        def ts(v):
            if v.kind != 'dt':
                return None
            if v.base == 'naive-utc':
                return _bad(ctx, e, 'timestamp() reads a naive UTC value as local time', v.of)
            return _V('epoch', of=v.of, whole=v.whole, node=e, mod=mod)
        return _map(recv, ts, ctx, e)
    return _map(recv, lambda v: None, ctx, e)


def _follow_call(ctx, call, callee, skip, stack, element=None):
    """Values a call into a function of the package returns: its return expressions, evaluated in the callee with the
    parameters bound to the arguments of this call (defaults where none is passed)."""
    node = callee.node
    if not isinstance(node, ast.FunctionDef):
        return [_unknown(ctx, call, '%s is not a plain function' % callee.qualname)]
    if any(not (isinstance(d, ast.Name) and d.id in ('staticmethod', 'classmethod')) for d in node.decorator_list):
        return [_unknown(ctx, call, '%s is decorated (what the call returns is decided by the decorator)' % callee.qualname)]
    if any(isinstance(n, (ast.Yield, ast.YieldFrom)) for n in walk_body(node)):
        return [_unknown(ctx, call, '%s is a generator' % callee.qualname)]
    a = node.args
    pos = [x.arg for x in a.posonlyargs + a.args]
    binding = {}
    cctx_mod = _Ctx(callee.mod, None, None, ctx.depth + 1)
    dflt = dict(zip(pos[len(pos) - len(a.defaults):], a.defaults))
    for x, d in zip(a.kwonlyargs, a.kw_defaults):
        if d is not None:
            dflt[x.arg] = d
    for p in callee.params():
        binding[p] = (dflt[p], cctx_mod) if p in dflt else None
    if _plain_args(call):
        for i, arg in enumerate(call.args):
            if i + skip < len(pos):
                binding[pos[i + skip]] = (arg, ctx)
        for k in call.keywords:
            if k.arg in binding:
                binding[k.arg] = (k.value, ctx)
    else:
        binding = dict((p, None) for p in binding)
    inner = _Ctx(callee.mod, callee, binding, ctx.depth + 1)
    rets = returns_of(callee)
    out = []
    for r in rets:
        v = r.value
        if v is None:
            out.append(_V('none', node=r, mod=callee.mod))
            continue
        if element is not None:
            v = ast.copy_location(ast.Subscript(value=v, slice=ast.Constant(value=element), ctx=ast.Load()), v)
        out.extend(_tv(inner, v, stack))
    if not rets:
        out.append(_V('none', node=node, mod=callee.mod))
    return _uniq(out)


def _where(v):
    ln = getattr(v.node, 'lineno', None)
    return '%s:%s' % (getattr(v.mod, 'relpath', '?'), ln) if ln else getattr(v.mod, 'relpath', '?')


def _r14f(rep):
    repo = rep.repo
    st = repo.mod(STATIC)
    bfr = st.func('build_file_response')
    rep.rule('R14.f', 'the time sent as Last-Modified and compared with If-Modified-Since is the served file\'s '
             'modification time, constructed in UTC, in whole seconds')
    rep.assume('werkzeug reads a naive datetime given to Response.last_modified as UTC and request.if_modified_since is a '
               'naive UTC datetime (werkzeug < 2) in whole seconds')
    path_param = bfr.params()[0]
    uses = []
    for s in stmts_of(bfr.node):
        if isinstance(s, ast.Assign) and any(isinstance(t, ast.Attribute) and t.attr == 'last_modified' for t in s.targets):
            uses.append(('Last-Modified', s.value, s))
    for n in walk_body(bfr.node):
        if isinstance(n, ast.Compare) and len(n.ops) == 1 and isinstance(n.ops[0], (ast.LtE, ast.Lt, ast.GtE, ast.Gt)):
            l, r = n.left, n.comparators[0]
            if norm(r) == 'cached_modify_time' and norm(l) != 'cached_modify_time':
                uses.append(('304 comparison', l, n))
            elif norm(l) == 'cached_modify_time' and norm(r) != 'cached_modify_time':
                uses.append(('304 comparison', r, n))
    kinds = set(u[0] for u in uses)
    if kinds != {'Last-Modified', '304 comparison'}:
        raise AnalysisError('build_file_response: %s not found' % ' / '.join(sorted({'Last-Modified assignment', '304 comparison'} -
                            {k + (' assignment' if k == 'Last-Modified' else '') for k in kinds})))
    ctx = _Ctx(st, bfr, None, 0)
    gaps = []
    for label in ('Last-Modified', '304 comparison'):
        vals = []
        at = None
        for lab, expr, node in uses:
            if lab == label:
                at = at or node
                vals.extend(_tv(ctx, expr, ()))
        vals = _uniq(vals)
        if not vals:
            raise AnalysisError('build_file_response: no definition of the %s value reaches its use' % label)
        # -- time base
        wrong = []
        for v in vals:
            if v.kind == 'bad':
                wrong.append('%s (%s)' % (v.why, _where(v)))
            elif v.kind == 'dt' and v.base == 'naive-local':
                wrong.append('%s builds a naive datetime in the server\'s *local* time (%s), which werkzeug reads as UTC: the value '
                             'is off by the server\'s UTC offset' % (short(v.node), _where(v)))
            elif v.kind == 'struct' and v.base == 'local':
                wrong.append('%s is broken down in local time (%s)' % (short(v.node), _where(v)))
            elif v.kind == 'none':
                wrong.append('None reaches the %s value (%s)' % (label, _where(v)))
        unknown = [v for v in vals if v.kind == 'unknown']
        if label == '304 comparison':
            unknown += [v.but(why='an aware datetime is compared with request.if_modified_since (defined only when werkzeug '
                              'yields aware datetimes too)') for v in vals if v.kind == 'dt' and v.base in ('aware', 'aware-utc')]
            unknown += [v.but(why='the compared value is not a datetime (%s)' % v.kind) for v in vals
                        if v.kind in ('epoch', 'struct', 'origin', 'delta', 'tz', 'sym', 'statres')]
        else:
            unknown += [v.but(why='the header value is not a time (%s)' % v.kind) for v in vals
                        if v.kind in ('origin', 'delta', 'tz', 'sym', 'statres')]
        if wrong or not unknown:
            rep.check('R14.f', fkey(bfr, '%s::time base' % label), not wrong,
                      'the %s value is constructed in UTC from the file\'s timestamp' % label if not wrong else
                      'the %s value is not the file\'s modification time in UTC: %s' % (label, '; '.join(wrong)), st, at)
        else:
            gaps.append('%s value: %s (%s)' % (label, unknown[0].why, _where(unknown[0])))
        timed = [v for v in vals if v.kind in ('dt', 'epoch', 'struct')]
        # -- whose timestamp
        owners = set(o for v in timed for o in v.of)
        if timed and not wrong:
            foreign = sorted(o for o in owners if o != ('param', bfr.qualname, path_param))
            if not foreign and owners:
                rep.ok('R14.f', fkey(bfr, '%s::timestamp source' % label), 'the timestamp is the modification time of %s' % path_param, st, at)
            elif any(o[0] == 'param' for o in foreign):
                rep.fail('R14.f', fkey(bfr, '%s::timestamp source' % label), 'the timestamp is read from %s, not from the served file %s'
                         % (', '.join(o[-1] for o in foreign if o[0] == 'param'), path_param), st, at)
            else:
                gaps.append('%s value: cannot tell which file\'s timestamp %s is' % (label, ', '.join(o[-1] for o in foreign) or '?'))
        # -- whole seconds (HTTP dates carry no fraction: a fraction makes the file look newer than the date the server sent)
        if label == '304 comparison' and timed and not wrong:
            frac = [v for v in timed if v.whole is False]
            undecided = [v for v in timed if v.whole is None]
            if frac or not undecided:
                rep.check('R14.f', fkey(bfr, '%s::whole seconds' % label), not frac,
                          'the compared time is rounded to whole seconds' if not frac else
                          'the compared time keeps its sub-second part (%s): a client echoing the Last-Modified it was sent is '
                          'answered 200, not 304' % _where(frac[0]), st, at)
            else:
                gaps.append('304 comparison: cannot show that the compared time is in whole seconds (%s)' % _where(undecided[0]))
    if gaps:
        raise AnalysisError('build_file_response: ' + '; '.join(gaps))
    rep.floor('R14.f', 5)
