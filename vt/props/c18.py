"""C18 -- The meta application never reveals secrets and always renders.

The code of the views is followed wherever it is defined (``_view_functions``): everything in meta.py, the methods of the
peripheral classes and of the meta application (bases / mixins included) in whatever module of the package they live, the
functions installed as a ``get_context``, and every function of the tree a view hands a host object to -- a helper, a
peripheral or a view method that moved to another module and is imported back is judged exactly as before.

Decided:
  R18.a  who may read resource values -- a value-flow analysis over the views.  Sources are the reads of a ``.resources``
         mapping (also ``getattr(x, 'resources')`` and the glom specs ``glom(x, 'resources')`` / ``glom(x, T.resources)``; a glom
         path *through* the mapping reads a value) and of ``get_defaults_dict()``; the flow is followed through local aliases, copies (``dict(m)``,
         ``sorted(m.items())``, ``enumerate``), helper functions / (static)methods of the tree the mapping, a pair or
         a value is handed to (also nested functions, which in addition read the tagged locals of their enclosing
         function), comprehensions, generators and lambdas.  Every occurrence must be one of
           * names only: ``in``, ``.keys()``, ``len`` / ``sorted`` / ``list`` / ``zip`` .., iteration over the names,
             an emptiness test, a constant-key subscript on the meta application's own resources;
           * an iteration over ``items()`` (pairs taken apart in the loop target, in the body or by a helper) or a
             lookup ``m[name]``, where the *value* is evaluated only where ``'secret' in <name>`` is known to be
             false: path conditions of the statement (if / elif / guard clauses with return / continue, named
             conditions, a sentinel set on one branch), arms of conditional expressions, ``and`` / ``or`` operands,
             comprehension filters; the fragment may be a module-level constant, the test a one-expression
             predicate function, the name lower-cased;
         the tested name is the intact key (never re-bound where it is bound together with the value); where
         'secret' is in the name a constant marker is produced (literal or module constant; on the branch, or as a
         default that is replaced only on the non-secret branch) and reaches the listing (appended / yielded /
         element of the returned comprehension, possibly through locals and the helper's return value).  Parameter
         defaults of endpoints are consulted by name only.  No peripheral context stores an Application / route /
         middleware / request object itself (conventional names, aliases, loop variables over .routes /
         .middlewares / .peripherals, parameters of helpers they are handed to) nor a list of them (``x.routes`` /
         ``x.middlewares`` itself, a copy, a local that names one), so the JSON encoder cannot reach a value by traversal.  A sensitive mapping handed to the constructor of a class of the tree is followed through
         the field it is stored in (``self.f = m``): every method that may run on such an object is judged with the
         field tagged (membership / names only), the object itself must not escape, ``getattr(self, name)`` is
         followed when ``name`` runs over a constant table of method names.  Where the value is listed it is a text
         made from it (repr / str / format / a helper), never the host object itself;
  R18.b  middleware info: where get_mw_infos (loop, comprehension, map(), generator or row helper) holds one
         middleware, only the class name, provides, requires and repr(mw) are read; no ``__repr__`` / ``__str__`` of
         Middleware or a subclass reads -- itself or through the methods it calls -- an attribute whose name
         contains 'secret' or 'key', ``vars()`` / ``__dict__`` or an attribute chosen at run time; the same list of
         attributes holds wherever else a view iterates over the middlewares of an application / a route, and no view
         function reads an attribute named like key material (``secret_key``, ``signing_key``, ..) from any object;
  R18.c  sections fail soft: the inject(<peripheral>.get_context, ..) call of get_main and the two inject calls of
         render_main_page_html -- in the method, in a helper, a nested function or a lambda that is followed to where
         it runs -- are each under an ``except Exception`` handler (around the call or around the call of the helper)
         that does not re-raise, substitutes a placeholder (or leaves the one stored right before the try) and does
         not index into the exception; the try statement is inside the loop over the peripherals; a generator helper
         is protected only where it is consumed; a placeholder stored in a plain local is read on the way on from the
         handler (not dropped by ``continue`` / by merging another name).  The same standard holds for every other
         method of the meta application that is installed in its route table (a second JSON endpoint, a renderer of
         its own) and runs peripheral code -- also when it calls the peripheral's method directly -- and for *every*
         method of a peripheral object a routed view calls (not only the three the views call today).  The handler is
         total as far as the shape tells: it reads from the exception only what every exception has (guarded by
         hasattr / a nested try otherwise), and every name that only the success path of the try statement binds and
         that is read -- outside any protection -- on the way on from the handler is bound by the handler or earlier in
         the same iteration (else: NameError for the first section, the previous section's data for the others) -- the
         handler itself reads no such name either and repeats no subscript lookup of the protected block.  Whether a
         peripheral call is made depends on the peripheral at hand alone (its attributes, the outcome of its own calls,
         configuration of the meta application): never on what other sections left in the shared context, on a flag or a
         counter that earlier iterations set (the contexts of one group are merged: a section that can be computed is
         computed, whatever happened to the others);
  R18.d  templates: every reference of the meta_*.html templates is escaped, except the allow-listed
         {content|s} of meta_base.html, whose value is an ashes render of a checked section template.  Table agreement
         for the resource listing: the template peripheral whose get_context reaches the listing renders a template with
         a {#<key>} section named by a key of that context, every reference inside the section is a text the listing
         code uses as a key, and -- where the shape tells -- the key under which the marker / the value is stored is
         referenced (else the page answers 200 and shows neither marker nor values); judged as far as the shape is read.
  R18.e  textual representations: the views print host objects they know nothing about (repr() of resource values,
         middlewares, endpoints -- the repr of a bound method contains the repr of its instance --, exceptions), so no
         ``__repr__`` / ``__str__`` / ``__format__`` of a class of the tree (R18.a's value flow, run over these methods and
         the methods they call on their own object), no repr generated by attrs / dataclass, and no method the views
         call on an application / route / middleware object (resolved by role over the call graph) prints the values
         of a resources mapping (the field ``resources`` or any field such a mapping was stored in), a field named
         like key material, ``vars()`` / ``__dict__`` / a run-time-chosen attribute of an object with such fields; the
         views themselves do not read ``vars()`` / ``__dict__`` / a run-time-chosen attribute of a host object;
  R18.f  kinds: over a small abstract domain (class object, function / bound method, exception object, lazy iterator,
         module, plain instance of a class of the tree -- everything else is "unknown / fine") no value the JSON encoder
         of the tree is certain to reject is put into a page context on any path (locals are followed through all
         their bindings and container stores, helpers through their return values); vacuous when the JSON view is
         provably rendered in dev mode.  Provenance: a value a routed method of the meta application takes *by name* through
         the injector is of unknown host kind when the host can supply it -- the name is not a built-in (RESERVED_ARGS), is not
         provided by one of the meta application's own middlewares (bound by the chain, below the name table), and the
         request-time layering read from ``BoundRoute.execute`` / ``Application.dispatch`` applies the dispatching
         application's resources over the bound route's own (so a host resource shadows the meta application's own of the
         same name); likewise the parameters of the peripheral methods that receive such a value through the dict handed to
         ``inject``.  Such a value is put into a page context only as a text made from it (repr / str / format / %), after
         being re-bound to one, or where an ``isinstance`` test on it is known to hold -- or the meta application's own
         attribute is read instead.
Declined: "200 for any host application" beyond R18.c / R18.f (code outside the protected calls other than calls of
peripheral methods, totality of the handlers beyond the clauses above, JSON encodability of attributes of host objects such as a route's render argument); secrets inside the repr
of non-secret-named resources whose class is not part of the tree.
"""
import ast
import os

from ..core import AnalysisError, norm, short
from ..cfg import expand_conds
from .c20 import check_template_escaping, autoescape_writes
from .. import dust
from ..layers import layers_of_value
from .common import (cfg_of, fkey, conds, has_cond, cond_texts, stmts_of, walk_body, call_tail, call_name, returns_of,
                     raises_of, stmt_of, kwarg, protected_by, names_loaded, enclosing_tries, handler_catches)

META = 'clastic.meta'
OBJECT_NAMES = {'_application', 'app', 'application', 'route', 'r', 'mw', 'request', '_route', '_meta_application', 'self'}
OWNERS = ('_meta_application', 'self')
FRAGMENT = 'secret'
# builtins that look at the *names* of a mapping only
KEY_ONLY = {'len', 'sorted', 'list', 'set', 'tuple', 'frozenset', 'bool', 'iter', 'reversed'}
# builtins that hand an iterable of pairs on unchanged (as far as the analysis is concerned)
SEQ_THROUGH = {'sorted', 'list', 'tuple', 'reversed', 'iter'}
COMPS = (ast.ListComp, ast.SetComp, ast.GeneratorExp, ast.DictComp)
MW_ATTRS = {'__class__', 'provides', 'requires', 'endpoint_provides', 'render_provides', 'name'}


# ------------------------------------------------------------------------------------------ generic helpers
def _local_names(fi):
    """Names bound inside the function (parameters, stores, comprehension targets, handler names)."""
    c = getattr(fi, '_c18_locals', None)
    if c is None:
        c = set(fi.params())
        a = fi.node.args
        for x in (a.vararg, a.kwarg):
            if x is not None:
                c.add(x.arg)
        for n in ast.walk(fi.node):
            if isinstance(n, ast.Name) and isinstance(n.ctx, (ast.Store, ast.Del)):
                c.add(n.id)
            elif isinstance(n, ast.ExceptHandler) and n.name:
                c.add(n.name)
        fi._c18_locals = c
    return c


def _walk(fi):
    """All nodes of the function body, lambdas included (their bodies run later, but they read the same locals);
    nested function / class definitions are functions of their own."""
    todo = list(reversed(fi.node.body))
    while todo:
        n = todo.pop()
        yield n
        if isinstance(n, (ast.FunctionDef, ast.AsyncFunctionDef, ast.ClassDef)):
            todo.extend(reversed(n.decorator_list))
            continue
        todo.extend(reversed(list(ast.iter_child_nodes(n))))


def _fold_str(repo, fi, expr):
    """Folded value of a constant-valued expression (literals and module-level constants); None when it reads a
    local or cannot be folded."""
    v = _fold_any(repo, fi, expr)
    return v if isinstance(v, str) else None


def _fold_any(repo, fi, expr):
    """Value of a constant-valued expression: literals, module-level constants, and class-level constants read as
    ``self.X`` / ``cls.X`` / ``Class.X`` (when no code of the module assigns that attribute)."""
    if expr is None:
        return None
    if isinstance(expr, ast.Attribute) and isinstance(expr.value, ast.Name) and isinstance(expr.ctx, ast.Load):
        ci = None
        if expr.value.id in ('self', 'cls'):
            ci = _class_of(fi)
        elif expr.value.id not in _local_names(fi):
            kind, m, obj = repo.resolve(fi.mod, expr.value.id)
            if kind == 'class' and m is not None and not m.external:
                ci = obj
        if ci is not None:
            dc, val = repo.class_attr(ci, expr.attr)
            if dc is not None and isinstance(val, ast.expr) and not any(
                    isinstance(n, ast.Attribute) and n.attr == expr.attr and isinstance(n.ctx, (ast.Store, ast.Del)) for n in ast.walk(dc.mod.tree)):
                # (a subclass of the analysed module may override it: all definitions must agree)
                vals = set()
                for c in dc.mod.classes.values():
                    if expr.attr in c.class_attrs and (c is dc or dc in repo.mro(c)):
                        v = repo.try_fold(c.class_attrs[expr.attr], c.mod) if c.class_attrs[expr.attr] is not None else None
                        vals.add(repr(v))
                        last = v
                if len(vals) == 1:
                    return last
            return None
    loc = _local_names(fi)
    for n in ast.walk(expr):
        if isinstance(n, ast.Name) and n.id in loc:
            return None
    return repo.try_fold(expr, fi.mod)


def resolve_callee(repo, fi, call):
    """(FuncInfo, number of leading parameters bound implicitly) of a call whose callee is a function of the analysed
    tree: ``helper(..)``, ``self.helper(..)`` / ``cls.helper(..)``, ``Class.helper(..)``; else (None, 0)."""
    f = call.func
    try:
        if isinstance(f, ast.Name):
            nested = nested_function(fi, f.id)
            if nested is not None:
                return nested, 0
            if f.id in _local_names(fi):
                return None, 0
            kind, m, obj = repo.resolve(fi.mod, f.id)
            if kind == 'func' and m is not None and not m.external:
                return obj, 0
            if kind == 'class' and m is not None and not m.external:
                # a constructor call runs the class's __init__ (when the tree defines one)
                init = repo.find_method(obj, '__init__')
                if init is not None and not init.mod.external and not init.node.decorator_list:
                    return init, 1
        elif isinstance(f, ast.Attribute) and isinstance(f.value, ast.Name):
            recv = f.value.id
            ci = None
            via_instance = False
            if recv in ('self', 'cls'):
                ci = _class_of(fi)
                via_instance = True
            elif recv not in _local_names(fi):
                kind, m, obj = repo.resolve(fi.mod, recv)
                if kind == 'class' and m is not None and not m.external:
                    ci = obj
                elif kind == 'module' and m is not None and not m.external:
                    # ``<module of the package>.helper(..)`` / ``<module>.Class(..)``
                    kind2, m2, obj2 = repo.resolve(m, f.attr)
                    if kind2 == 'func' and m2 is not None and not m2.external:
                        return obj2, 0
                    if kind2 == 'class' and m2 is not None and not m2.external:
                        init = repo.find_method(obj2, '__init__')
                        if init is not None and not init.mod.external and not init.node.decorator_list:
                            return init, 1
                    return None, 0
            if ci is None and recv in _local_names(fi):
                # a method call on a local of unknown class: followed when exactly one class of the module defines a
                # method of that name (``peri.safe_get_context(..)``)
                classes = list(fi.mod.classes.values())
                defs = [c.methods[f.attr] for c in classes if f.attr in c.methods]
                if not defs and not any(f.attr in c.class_attrs for c in classes) and f.attr not in _CONTAINER_METHODS:
                    # none in this module: the classes of the tree this module imports by name (the class of the object may
                    # have moved to another module of the package), with their subclasses and bases there
                    classes = _imported_class_family(repo, fi.mod)
                    defs = [c.methods[f.attr] for c in classes if f.attr in c.methods]
                if len(defs) == 1 and not any(f.attr in c.class_attrs for c in classes):
                    decos = [norm(d) for d in defs[0].node.decorator_list]
                    if not decos:
                        return defs[0], 1
                    if decos == ['staticmethod']:
                        return defs[0], 0
                return None, 0
            if ci is not None:
                meth = repo.find_method(ci, f.attr)
                if meth is not None and not meth.mod.external:
                    decos = [norm(d) for d in meth.node.decorator_list]
                    if 'staticmethod' in decos:
                        return meth, 0
                    if 'classmethod' in decos:
                        return meth, 1
                    if decos:
                        return None, 0
                    return meth, (1 if via_instance else 0)
    except AnalysisError:
        pass
    return None, 0


# (method names of the builtin containers / texts: a call ``x.add(..)`` on a local is never guessed to be a method of the tree)
_CONTAINER_METHODS = frozenset(n for t in (dict, list, set, frozenset, tuple, str, bytes) for n in dir(t))


def _imported_class_family(repo, mod):
    """The classes of the analysed tree ``mod`` imports by name, the classes of their modules that derive from them, and
    their bases within the tree."""
    c = getattr(mod, '_c18_imported_family', None)
    if c is None:
        c, seen = [], set()
        for local in sorted(mod.imports):
            if mod.imports[local][1] is None:
                continue
            try:
                kind, m, obj = repo.resolve(mod, local)
            except AnalysisError:
                continue
            if kind != 'class' or m is None or m.external:
                continue
            fam = [x for x in repo.mro(obj) if not isinstance(x, str) and not x.mod.external]
            fam += repo.subclasses(obj, [obj.mod])
            for x in fam:
                if x.key not in seen:
                    seen.add(x.key)
                    c.append(x)
        mod._c18_imported_family = c
    return c


def nested_function(fi, name):
    """The function ``name`` defined inside ``fi`` or inside a function enclosing it (a closure visible from ``fi``)."""
    mod = fi.mod
    q = fi.qualname
    while True:
        cand = mod.functions.get(q + '.' + name)
        if cand is not None and isinstance(mod.parents.get(cand.node), (ast.FunctionDef, ast.AsyncFunctionDef, ast.If, ast.Try, ast.With, ast.For)):
            # (not re-bound as a plain variable in the function that defines it)
            owner = mod.functions.get(q)
            if owner is None or not any(isinstance(n, ast.Name) and n.id == name and isinstance(n.ctx, (ast.Store, ast.Del))
                                        for n in ast.walk(owner.node)):
                return cand
            return None
        q = q.rpartition('.')[0]
        if not q or q not in mod.functions:
            return None


def free_names(fi):
    """Names a nested function reads from the enclosing scopes."""
    loc = _local_names(fi)
    return set(n.id for n in ast.walk(fi.node) if isinstance(n, ast.Name) and isinstance(n.ctx, ast.Load) and n.id not in loc)


def _class_of(fi):
    """ClassInfo of the class whose body defines the method ``fi`` (None for plain functions)."""
    if fi.cls is not None:
        return fi.cls
    par = fi.mod.parents.get(fi.node)
    if isinstance(par, ast.ClassDef):
        for c in fi.mod.classes.values():
            if c.node is par:
                return c
    return None


def bind_args(callee, skip, call):
    """{parameter name: argument expression} for the explicitly passed arguments; None when the call cannot be
    matched to the signature (star arguments, unknown keyword)."""
    a = callee.node.args
    params = [x.arg for x in a.posonlyargs + a.args][skip:]
    kwonly = [x.arg for x in a.kwonlyargs]
    if any(isinstance(x, ast.Starred) for x in call.args) or any(k.arg is None for k in call.keywords):
        return None
    if len(call.args) > len(params) and a.vararg is None:
        return None
    out = {}
    for p, x in zip(params, call.args):
        out[p] = x
    for k in call.keywords:
        if k.arg in out or (k.arg not in params and k.arg not in kwonly):
            if a.kwarg is None:
                return None
            continue
        out[k.arg] = k.value
    return out


def call_of_arg(mod, node):
    """The Call in which ``node`` is passed as a positional or keyword argument (else None)."""
    par = mod.parents.get(node)
    if isinstance(par, ast.Call) and any(node is x for x in par.args):
        return par
    if isinstance(par, ast.keyword) and par.value is node:
        gp = mod.parents.get(par)
        if isinstance(gp, ast.Call):
            return gp
    return None


def is_aliased(mod, n):
    """``n`` is the whole value bound to a plain local: ``x = n`` / ``x: T = n`` / ``(x := n)`` / ``a, x = .., n``."""
    par = mod.parents.get(n)
    if isinstance(par, (ast.Assign, ast.AnnAssign, ast.NamedExpr)) and par.value is n:
        return all(isinstance(x, ast.Name) for x in (par.targets if isinstance(par, ast.Assign) else [par.target]))
    if isinstance(par, (ast.Tuple, ast.List)):
        asg = mod.parents.get(par)
        if isinstance(asg, ast.Assign) and asg.value is par and len(asg.targets) == 1 and isinstance(asg.targets[0], (ast.Tuple, ast.List)) and \
                len(asg.targets[0].elts) == len(par.elts) and not any(isinstance(x, ast.Starred) for x in par.elts + asg.targets[0].elts):
            i = [j for j, x in enumerate(par.elts) if x is n]
            return bool(i) and isinstance(asg.targets[0].elts[i[0]], ast.Name)
    return False


def _stored_raw(fi, node):
    """The value of ``node`` itself -- not a text made from it (``repr(v)``, ``'%r' % v``, an f-string), not the result of a
    call it is handed to -- is put into a container / returned / yielded: the object, not a description of it, is listed."""
    mod = fi.mod
    cur = node
    while True:
        par = mod.parents.get(cur)
        if isinstance(par, (ast.IfExp, ast.BoolOp)):
            if isinstance(par, ast.IfExp) and par.test is cur:
                return False
        elif isinstance(par, (ast.Tuple, ast.List, ast.Set, ast.Starred)):
            pass
        elif isinstance(par, ast.Dict):
            if not any(cur is v for v in par.values):
                return False
        elif isinstance(par, ast.keyword):
            call = mod.parents.get(par)
            return isinstance(call, ast.Call) and (call_name(call) == 'dict' or call_tail(call) in ('update', 'setdefault'))
        elif isinstance(par, ast.Call):
            return par.func is not cur and call_tail(par) in ('append', 'add', 'insert', 'extend', 'setdefault', 'update') and \
                isinstance(par.func, ast.Attribute) and any(cur is a for a in par.args)
        elif isinstance(par, (ast.Assign, ast.AnnAssign, ast.AugAssign)):
            if par.value is not cur:
                return False
            if cur is node and is_aliased(mod, node):
                return False          # a plain alias: the new name carries the tag and is judged where it is used
            return True
        elif isinstance(par, (ast.Return, ast.Yield, ast.YieldFrom)):
            return True
        elif isinstance(par, (ast.ListComp, ast.SetComp, ast.GeneratorExp)):
            return par.elt is cur
        elif isinstance(par, ast.DictComp):
            return par.value is cur
        else:
            return False
        cur = par


def expr_conds(fi, node):
    """Conditions (test, polarity) known to hold whenever the expression ``node`` is evaluated: the path conditions of
    its statement (CFG: if / elif / guard clauses / named conditions) plus what the expression context adds --
    the arm of a conditional expression, the later operand of ``and`` / ``or``, the filters of the comprehension
    that produces the element.  Code in a lambda runs later: statement-level conditions do not carry over."""
    mod = fi.mod
    out = []
    cur = node
    deferred = False
    stmt = None
    while cur is not None and cur is not fi.node:
        if isinstance(cur, ast.stmt):
            stmt = cur
            break
        par = mod.parents.get(cur)
        if isinstance(par, ast.IfExp):
            if cur is par.body:
                out.append((par.test, True))
            elif cur is par.orelse:
                out.append((par.test, False))
        elif isinstance(par, ast.BoolOp):
            pol = isinstance(par.op, ast.And)
            for v in par.values:
                if v is cur:
                    break
                out.append((v, pol))
        elif isinstance(par, COMPS):
            # cur is the element (key / value): every filter of every generator passed
            for g in par.generators:
                for c in g.ifs:
                    out.append((c, True))
        elif isinstance(par, ast.comprehension):
            comp = mod.parents.get(par)
            gens = list(getattr(comp, 'generators', []))
            for g in gens:
                if g is par:
                    break
                for c in g.ifs:
                    out.append((c, True))
            if any(cur is c for c in par.ifs):
                for c in par.ifs:
                    if c is cur:
                        break
                    out.append((c, True))
            cur = comp       # (the comprehension node itself adds nothing more)
            continue
        elif isinstance(par, ast.Lambda):
            deferred = True
        elif isinstance(par, (ast.FunctionDef, ast.AsyncFunctionDef, ast.ClassDef)) and par is not fi.node:
            deferred = True
        cur = par
    if stmt is not None and not deferred:
        try:
            out.extend(conds(fi, stmt))
        except AnalysisError:
            pass
    return expand_conds(out)


def single_return_expr(fi):
    """The expression of a function whose body is (docstring +) one ``return <expr>``; else None."""
    body = list(fi.node.body)
    if body and isinstance(body[0], ast.Expr) and isinstance(body[0].value, ast.Constant) and isinstance(body[0].value.value, str):
        body = body[1:]
    if len(body) == 1 and isinstance(body[0], ast.Return) and body[0].value is not None:
        return body[0].value
    return None


def _names_only_key(kw):
    """Keyword of ``sorted(<pairs>, ...)`` that cannot look at the values: ``reverse=..`` or ``key=lambda p: p[0]``."""
    if kw.arg == 'reverse':
        return True
    if kw.arg == 'key' and isinstance(kw.value, ast.Call) and norm(kw.value.func) in ('itemgetter', 'operator.itemgetter') and \
            len(kw.value.args) == 1 and isinstance(kw.value.args[0], ast.Constant) and kw.value.args[0].value == 0 and not kw.value.keywords:
        return True
    if kw.arg != 'key' or not isinstance(kw.value, ast.Lambda):
        return False
    lam = kw.value
    ps = [a.arg for a in lam.args.posonlyargs + lam.args.args]
    if len(ps) != 1 or lam.args.vararg or lam.args.kwarg or lam.args.kwonlyargs:
        return False
    par = {}
    for x in ast.walk(lam.body):
        for ch in ast.iter_child_nodes(x):
            par[ch] = x
    for x in ast.walk(lam.body):
        if isinstance(x, ast.Name) and x.id == ps[0]:
            p = par.get(x)
            if not (isinstance(p, ast.Subscript) and p.value is x and isinstance(p.slice, ast.Constant) and p.slice.value == 0):
                return False
    return True


def _loops_around(fi, node):
    """For statements / comprehension generators of ``fi`` whose body (element) contains ``node``, innermost first."""
    out = []
    cur = node
    mod = fi.mod
    while cur is not None and cur is not fi.node:
        par = mod.parents.get(cur)
        if isinstance(par, ast.For) and not (cur is par.iter or cur is par.target):
            out.append(par)
        elif isinstance(par, COMPS) and not isinstance(cur, ast.comprehension):
            out.extend(reversed(par.generators))
        cur = par
    return out


def _iter_mentions(fi, it, word):
    """The iterated expression mentions attribute / name ``word``, directly or through a single-assignment local."""
    def mentions(e):
        return any((isinstance(x, ast.Attribute) and x.attr == word) or (isinstance(x, ast.Name) and x.id == word) for x in ast.walk(e))
    if mentions(it):
        return True
    for x in ast.walk(it):
        if isinstance(x, ast.Name):
            srcs = [s.value for s in stmts_of(fi.node) if isinstance(s, ast.Assign) and len(s.targets) == 1 and
                    isinstance(s.targets[0], ast.Name) and s.targets[0].id == x.id]
            if len(srcs) == 1 and mentions(srcs[0]):
                return True
    return False


def _secretish(name):
    """An attribute name that, by convention, holds key material (for classes in general; ``group_key`` / ``sort_key`` and the
    like are not meant -- R18.b is stricter for middlewares)."""
    a = name.lower()
    return 'secret' in a or 'password' in a or 'passwd' in a or a in ('signing_key', 'private_key', 'api_key', 'auth_key', 'hmac_key', 'sign_key')


# ------------------------------------------------------------------------------------------ R18.a: the taint engine
class _Site(object):
    """One place where resource values are bound together with their names: ``for <key>, <val> in <resources>.items()``
    (kind 'items'), ``<key>, <val> = <pair>`` for a pair taken from items() (kind 'pair'), ``<resources>[<key>]``
    (kind 'lookup')."""

    def __init__(self, fi, where, kname, vname, kind='items'):
        self.fi, self.where, self.kname, self.vname, self.kind = fi, where, kname, vname, kind
        self.binder = None      # the For / comprehension generator / unpacking assignment that binds key and value
        self.uses, self.bad, self.rebinds, self.markers, self.raw = [], [], [], [], []
        self.shown = False
        self._seen = set()

    def use(self, fi, node, ok):
        if id(node) in self._seen:
            return
        self._seen.add(id(node))
        self.uses.append((fi, node))
        if not ok:
            self.bad.append((fi, node))


class _Taint(object):
    """Value flow of the sensitive mappings of meta.py.

    Tags:  ('map', kind, own)   a mapping whose *values* are sensitive (kind: 'resources' | 'defaults')
           ('items', kind)      its items() view (or a sorted / listed copy)
           ('pair', kind)       one (name, value) pair of it
           ('enum', kind)       enumerate() of its items: (number, (name, value))
           ('val', key, site)   one value of a resources mapping; ``key`` is the local that holds its name
    """
    MAX_DEPTH = 4

    def __init__(self, repo, mod):
        self.repo, self.mod = repo, mod
        self.sites = []
        self._site_of = {}
        self.reads = []          # (fi, node, kind text or None, detail when bad)
        self._seen_reads = {}
        self.n_sources = 0
        self._source_ids = set()
        self._stack = []
        self._cur_fi = None
        self._classes = {}       # class key -> ClassInfo of the classes of the tree that hold a tagged value in a field
        self.class_fields = {}   # class key -> {field: tags stored by ``self.<field> = <tagged>``}

    def _lookup_site(self, fi, kname, node):
        key = (fi.key, 'lookup', kname)
        site = self._site_of.get(key)
        if site is None:
            site = self._site_of[key] = _Site(fi, node, kname, '<resources>[%s]' % kname, 'lookup')
            self.sites.append(site)
        return site

    # -- expression tags -------------------------------------------------------------------------------
    def tags(self, e, env):
        if isinstance(e, ast.Attribute) and e.attr == 'resources' and isinstance(e.ctx, ast.Load):
            return {('map', 'resources', norm(e.value) in OWNERS)}
        if isinstance(e, ast.Name) and isinstance(e.ctx, ast.Load):
            return set(env.get(e.id, ()))
        if isinstance(e, ast.Attribute) and isinstance(e.ctx, ast.Load):
            # a field of an object of the tree in which a sensitive mapping / value was stored
            out = set()
            if env or isinstance(e.value, ast.Call):
                for t in self.tags(e.value, env):
                    if t[0] == 'obj':
                        out |= set(ft for f, ft in t[2] if f == e.attr)
            return out
        if isinstance(e, ast.Subscript) and isinstance(e.ctx, ast.Load) and isinstance(e.slice, ast.Name) and self._cur_fi is not None and \
                e.slice.id in _local_names(self._cur_fi):
            if any(t[0] == 'map' and t[1] == 'resources' for t in self.tags(e.value, env)):
                return {('val', e.slice.id, self._lookup_site(self._cur_fi, e.slice.id, e))}
            return set()
        if isinstance(e, ast.BoolOp):
            # ``<mapping> or {}``: whichever operand it is, the result is (at most) the mapping
            out = set()
            for v in e.values:
                out |= set(t for t in self.tags(v, env) if t[0] != 'val')
            return out
        if isinstance(e, ast.Call):
            f = e.func
            if isinstance(f, ast.Attribute) and f.attr == 'get_defaults_dict':
                return {('map', 'defaults', False)}
            if self._getattr_resources(e) or self._glom_resources(e) == 'map':
                return {('map', 'resources', False)}
            if isinstance(f, ast.Attribute) and not e.args and not e.keywords:
                base = self.tags(f.value, env)
                if f.attr == 'items':
                    return set(('items', t[1]) for t in base if t[0] == 'map')
                if f.attr == 'copy':
                    return set(t for t in base if t[0] == 'map')
            if isinstance(f, ast.Name) and len(e.args) == 1 and f.id not in env:
                a = self.tags(e.args[0], env)
                if f.id == 'dict' and not e.keywords:
                    return set(t for t in a if t[0] == 'map')
                if f.id in SEQ_THROUGH:
                    return set(t for t in a if t[0] in ('items', 'enum'))
                if f.id == 'enumerate' and not e.keywords:
                    return set(('enum', t[1]) for t in a if t[0] == 'items')
            ot = self._object_tag(e, env)
            if ot is not None:
                return {ot}
        return set()

    # -- objects of the tree that hold a sensitive value in a field -----------------------------------------
    def _object_tag(self, call, env):
        """``Cls(.., <tagged>, ..)`` for a class of the tree whose ``__init__`` stores the tagged argument in a field:
        ('obj', class key, ((field, tag), ...)); None when nothing tagged is stored."""
        fi = self._cur_fi
        if fi is None or not isinstance(call.func, ast.Name) or not (call.args or call.keywords):
            return None
        if any(isinstance(a, ast.Starred) for a in call.args) or any(k.arg is None for k in call.keywords):
            return None
        if not any(self.tags(a, env) for a in list(call.args) + [k.value for k in call.keywords]):
            return None
        callee, skip = resolve_callee(self.repo, fi, call)
        if callee is None or callee.name != '__init__' or skip != 1:
            return None
        ci = _class_of(callee)
        b = bind_args(callee, 1, call)
        if ci is None or b is None:
            return None
        penv = {}
        for p, x in b.items():
            ts = set(('val', None, t[2]) if t[0] == 'val' else (('map', t[1], False) if t[0] == 'map' else t) for t in self.tags(x, env))
            if ts:
                penv[p] = ts
        fields = self._fields_stored(callee, penv)
        if not fields:
            return None
        self._classes[ci.key] = ci
        return ('obj', ci.key, fields, tuple(sorted(set(f for f, _ in fields))), 'held')

    def _fields_stored(self, init, penv):
        me = (init.params() or [None])[0]
        out = set()
        prev, self._cur_fi = self._cur_fi, init
        try:
            for n in _walk(init):
                if isinstance(n, (ast.Assign, ast.AnnAssign)) and n.value is not None:
                    for t in (n.targets if isinstance(n, ast.Assign) else [n.target]):
                        if isinstance(t, ast.Attribute) and isinstance(t.value, ast.Name) and t.value.id == me:
                            for tg in self.tags(n.value, penv):
                                out.add((t.attr, tg))
        finally:
            self._cur_fi = prev
        return tuple(sorted(out, key=lambda x: (x[0], x[1][0], str(x[1][1]), id(x[1][-1]))))

    def _stored_in_field(self, fi, n, tag):
        """``self.<field> = n`` in a method: the tagged value now lives in the object; every method of the class (and of
        its subclasses) is judged with that field tagged."""
        par = fi.mod.parents.get(n)
        ci = _class_of(fi)
        me = (fi.params() or [None])[0]
        if ci is None or me is None or not (isinstance(par, (ast.Assign, ast.AnnAssign)) and par.value is n):
            return None
        tgts = par.targets if isinstance(par, ast.Assign) else [par.target]
        if len(tgts) != 1 or not (isinstance(tgts[0], ast.Attribute) and isinstance(tgts[0].value, ast.Name) and tgts[0].value.id == me):
            return None
        if any(norm(d) in ('staticmethod', 'classmethod') for d in fi.node.decorator_list):
            return None
        if tag[0] == 'val':
            tag = ('val', None, tag[2])
        elif tag[0] == 'map':
            tag = ('map', tag[1], False)
        self._classes[ci.key] = ci
        self.class_fields.setdefault(ci.key, {}).setdefault(tgts[0].attr, set()).add(tag)
        return tgts[0].attr

    def methods_with_self(self, ci):
        """The methods that may run on an instance of ``ci``: its own, the inherited ones and those of its subclasses
        (within the tree); (method, name of the self parameter)."""
        out, seen = [], set()
        classes = [c for c in self.repo.mro(ci) if not isinstance(c, str) and not c.mod.external]
        classes += self.repo.subclasses(ci, [self.mod] if ci.mod is self.mod else None)
        for c in classes:
            for m in c.methods.values():
                if m.key in seen or any(norm(d) in ('staticmethod', 'classmethod') for d in m.node.decorator_list):
                    continue
                seen.add(m.key)
                ps = m.params()
                if ps:
                    out.append((m, ps[0]))
        return out

    def _const_strings(self, fi, e):
        """The finite set of strings ``e`` may denote: a constant, or a loop variable that runs over (a column of) a
        constant table (module level / class level); None when unknown."""
        v = _fold_any(self.repo, fi, e)
        if isinstance(v, str):
            return {v}
        if not isinstance(e, ast.Name) or e.id in fi.params():
            return None
        stores = [n for n in ast.walk(fi.node) if isinstance(n, ast.Name) and n.id == e.id and isinstance(n.ctx, (ast.Store, ast.Del))]
        if len(stores) != 1:
            return None
        child, path = stores[0], []
        par = fi.mod.parents.get(child)
        while isinstance(par, (ast.Tuple, ast.List)):
            if any(isinstance(x, ast.Starred) for x in par.elts):
                return None
            path.insert(0, [i for i, x in enumerate(par.elts) if x is child][0])
            child, par = par, fi.mod.parents.get(par)
        if not (isinstance(par, (ast.For, ast.comprehension)) and par.target is child):
            return None
        table = _fold_any(self.repo, fi, par.iter)
        if table is None:
            table = self._class_table(fi, par.iter)
        if not isinstance(table, (tuple, list)):
            return None
        out = set()
        for row in table:
            for i in path:
                if not isinstance(row, (tuple, list)) or i >= len(row):
                    return None
                row = row[i]
            if not isinstance(row, str):
                return None
            out.add(row)
        return out

    def _class_table(self, fi, e):
        """``self.X`` / ``cls.X`` for a class-level constant table that subclasses override: the rows of all definitions
        in the family of the class (bases and subclasses within the tree); None when one of them cannot be folded or
        the attribute is assigned on instances."""
        if not (isinstance(e, ast.Attribute) and isinstance(e.value, ast.Name) and e.value.id in ('self', 'cls') and e.value.id in fi.params()[:1]):
            return None
        ci = _class_of(fi)
        if ci is None:
            return None
        fam = [c for c in self.repo.mro(ci) if not isinstance(c, str)]
        if any(isinstance(c, str) and c != 'object' for c in self.repo.mro(ci)):
            return None          # a base class outside the tree may define it as well
        fam += self.repo.subclasses(ci)
        rows, found = [], False
        for c in fam:
            if e.attr in c.methods:
                return None
            if e.attr not in c.class_attrs:
                continue
            if any(isinstance(n, ast.Attribute) and n.attr == e.attr and isinstance(n.ctx, (ast.Store, ast.Del)) for n in ast.walk(c.mod.tree)):
                return None
            v = self.repo.try_fold(c.class_attrs[e.attr], c.mod) if c.class_attrs[e.attr] is not None else None
            if not isinstance(v, (tuple, list)):
                return None
            rows.extend(v)
            found = True
        return rows if found else None

    def _use_of_object(self, fi, n, tag, pending):
        mod = fi.mod
        par = mod.parents.get(n)
        gp = mod.parents.get(par)
        ci = self._classes.get(tag[1])
        held = sorted(set(f for f, _ in tag[2]))
        kind = None
        sensitive = tag[3]
        if isinstance(par, ast.Attribute) and par.value is n:
            if par.attr == '__dict__':
                if not sensitive:
                    kind = 'instance dictionary of an object without sensitive fields'
            else:
                kind = 'method call / field access on the object (the fields %s are judged where they are read)' % held
                if tag[4] == 'text':
                    return          # (not worth an obligation of its own)
        elif isinstance(par, ast.Call) and isinstance(par.func, ast.Name) and par.func.id in ('vars', 'dir') and par.func.id not in _local_names(fi) and \
                par.args and par.args[0] is n:
            if par.func.id == 'dir' or not sensitive:
                kind = '%s() of an object%s' % (par.func.id, '' if par.func.id == 'dir' else ' without sensitive fields')
        elif isinstance(par, ast.Call) and isinstance(par.func, ast.Name) and par.func.id in ('getattr', 'hasattr', 'isinstance', 'super', 'id', 'type') and \
                par.func.id not in _local_names(fi) and par.args and (par.args[0] is n or par.func.id == 'super'):
            if par.func.id != 'getattr':
                kind = '%s()' % par.func.id
            elif len(par.args) >= 2:
                names = self._const_strings(fi, par.args[1])
                if names and ci is not None and isinstance(gp, ast.Call) and gp.func is par and \
                        all(nm not in sensitive and self.repo.find_method(ci, nm) is not None for nm in names):
                    kind = 'call of one of the methods %s of its class (judged there)' % sorted(names)
                elif names and all(nm not in sensitive and nm != '__dict__' and not _secretish(nm) for nm in names):
                    kind = 'read of one of the fields %s' % sorted(names)
                elif not names and not sensitive:
                    kind = 'attribute chosen at run time of an object without sensitive fields'
        elif isinstance(par, ast.Compare) and all(isinstance(o, (ast.Is, ast.IsNot)) for o in par.ops):
            kind = 'identity test'
        elif isinstance(par, ast.Call) and par.func is n and ci is not None and self.repo.find_method(ci, '__call__') is not None:
            kind = 'call of the object (the __call__ of its class is judged with the fields tagged)'
        if kind is None and is_aliased(mod, n):
            kind = 'local alias (judged where it is used)'
        if kind is None and self._transfer(fi, n, tag, pending):
            kind = 'argument of a helper of the tree (judged there)'
        if kind is None and tag[4] == 'text' and not (isinstance(par, ast.Call) and isinstance(par.func, ast.Name) and par.func.id in ('vars', 'getattr')) \
                and not isinstance(par, ast.Attribute):
            kind = 'the object itself is passed on (its own textual representation is judged where it is defined)'
        kinds = sorted(set('resource' if t[1] == 'resources' or t[0] == 'val' else 'parameter default' for _, t in tag[2]))
        self._read(fi, n, kind, None if kind else
                   ('%s prints the instance dictionary / an attribute chosen at run time of an object with the sensitive fields %s (%s)'
                    % (fi.qualname, list(sensitive), short(par if isinstance(par, ast.AST) else n))) if tag[4] == 'text' else
                   '%s lets an object that holds %s *values* in %s escape (%s): its fields can no longer be followed'
                   % (fi.qualname, ' / '.join(kinds), held, short(par if isinstance(par, ast.AST) else n)))

    def is_source(self, e):
        return (isinstance(e, ast.Attribute) and e.attr == 'resources' and isinstance(e.ctx, ast.Load)) or \
            (isinstance(e, ast.Call) and isinstance(e.func, ast.Attribute) and e.func.attr == 'get_defaults_dict') or self._getattr_resources(e) or \
            bool(self._glom_resources(e))

    def _glom_resources(self, e):
        """``glom(x, 'resources')`` / ``glom(x, T.resources)`` (the spec possibly a module-level constant): the same read as
        ``x.resources`` -> 'map'; a path spec that goes *through* the mapping (``'resources.db_secret'``) reads one of its
        values -> 'value'; None otherwise."""
        if not (isinstance(e, ast.Call) and isinstance(e.func, ast.Name) and e.func.id == 'glom' and len(e.args) >= 2):
            return None
        fi = self._cur_fi
        if fi is None or 'glom' in _local_names(fi) or (fi.mod.imports.get('glom') or ('glom',))[0] != 'glom':
            return None
        spec = e.args[1]
        if isinstance(spec, ast.Attribute) and spec.attr == 'resources' and isinstance(spec.value, ast.Name) and spec.value.id == 'T' and \
                'T' not in _local_names(fi):
            return 'map'
        text = spec.value if isinstance(spec, ast.Constant) else (
            None if isinstance(spec, ast.Name) and spec.id in _local_names(fi) else _fold_str(self.repo, fi, spec))
        if not isinstance(text, str):
            return None
        segs = text.split('.')
        if segs == ['resources']:
            return 'map'
        return 'value' if 'resources' in segs[:-1] else None

    def _getattr_resources(self, e):
        """``getattr(x, 'resources'[, default])`` (the name possibly a module-level constant): the same read as ``x.resources``."""
        if not (isinstance(e, ast.Call) and isinstance(e.func, ast.Name) and e.func.id == 'getattr' and len(e.args) in (2, 3) and not e.keywords):
            return False
        if isinstance(e.args[1], ast.Constant):
            return e.args[1].value == 'resources'
        fi = self._cur_fi
        if fi is None or isinstance(e.args[1], ast.Name) and e.args[1].id in _local_names(fi):
            return False
        return _fold_str(self.repo, fi, e.args[1]) == 'resources'

    # -- the 'secret' test -------------------------------------------------------------------------------
    def _is_key_expr(self, fi, e, kname, depth=0):
        """``e`` denotes the resource name held by local ``kname``: the name itself, its lower-cased form, or a
        single-assignment local bound to one of these."""
        if kname is None or depth > 3:
            return False
        if isinstance(e, ast.Name):
            if e.id == kname:
                return True
            binds = [n for n in ast.walk(fi.node) if isinstance(n, ast.Name) and n.id == e.id and isinstance(n.ctx, (ast.Store, ast.Del))]
            if len(binds) == 1 and e.id not in fi.params():
                par = fi.mod.parents.get(binds[0])
                if isinstance(par, ast.Assign) and len(par.targets) == 1 and par.targets[0] is binds[0]:
                    return self._is_key_expr(fi, par.value, kname, depth + 1)
            return False
        if isinstance(e, ast.Call) and isinstance(e.func, ast.Attribute) and e.func.attr in ('lower', 'casefold') and \
                not e.args and not e.keywords:
            return self._is_key_expr(fi, e.func.value, kname, depth + 1)
        return False

    def secret_test(self, fi, t, kname, depth=0):
        """+1 when ``t`` is true exactly if the name held by ``kname`` contains 'secret' (``'secret' in key``, the
        fragment possibly a module-level constant, the key possibly lower-cased, the test possibly a one-expression
        predicate function applied to the key); -1 for the negated form; 0 otherwise."""
        if kname is None or depth > 3:
            return 0
        if isinstance(t, ast.UnaryOp) and isinstance(t.op, ast.Not):
            return -self.secret_test(fi, t.operand, kname, depth)
        if isinstance(t, ast.Name) and isinstance(t.ctx, ast.Load):
            # a local that names the test (``is_secret = 'secret' in key`` ... ``x if is_secret else y``): it is assigned
            # once, earlier in the same loop body, from the key the loop holds (the key itself is never re-bound: R18.a)
            v = self._named_test(fi, t)
            return self.secret_test(fi, v, kname, depth + 1) if v is not None else 0
        if isinstance(t, ast.Compare) and len(t.ops) == 1 and isinstance(t.ops[0], (ast.In, ast.NotIn)):
            if _fold_str(self.repo, fi, t.left) == FRAGMENT and self._is_key_expr(fi, t.comparators[0], kname):
                return 1 if isinstance(t.ops[0], ast.In) else -1
            return 0
        if isinstance(t, ast.Call):
            callee, skip = resolve_callee(self.repo, fi, t)
            if callee is not None:
                expr = single_return_expr(callee)
                b = bind_args(callee, skip, t)
                if expr is not None and b is not None:
                    kps = [p for p, x in b.items() if isinstance(x, ast.Name) and x.id == kname]
                    if len(kps) == 1:
                        return self.secret_test(callee, expr, kps[0], depth + 1)
        return 0

    def _named_test(self, fi, use):
        stores = [n for n in ast.walk(fi.node) if isinstance(n, ast.Name) and n.id == use.id and isinstance(n.ctx, (ast.Store, ast.Del))]
        if len(stores) != 1 or use.id in fi.params():
            return None
        asg = fi.mod.parents.get(stores[0])
        if not (isinstance(asg, ast.Assign) and len(asg.targets) == 1 and asg.targets[0] is stores[0]):
            return None
        ust = stmt_of(fi.mod, use)
        if ust is None or getattr(asg, 'lineno', 0) >= getattr(ust, 'lineno', 0):
            return None

        def loops(st):
            out, cur = [], st
            while cur is not None and cur is not fi.node:
                cur = fi.mod.parents.get(cur)
                if isinstance(cur, (ast.For, ast.While)):
                    out.append(id(cur))
            return out
        # same iteration: assignment and use sit in the same loop(s); the assignment is not in a conditional branch
        if loops(asg) != loops(ust):
            return None
        par = fi.mod.parents.get(asg)
        if not (isinstance(par, (ast.For, ast.While)) or par is fi.node):
            return None
        return asg.value

    def polarity(self, fi, node, kname):
        """+1: 'secret' is known to be in the name where ``node`` is evaluated; -1: known not to be; 0: unknown."""
        if kname is None:
            return 0
        cs = expr_conds(fi, node)
        for t, p in cs:
            s = self.secret_test(fi, t, kname)
            if s:
                return s if p else -s
        for t, p in cs:
            st = self._sentinel(fi, t, p)
            if st is not None:
                s = self.secret_test(fi, st[0], kname)
                if s:
                    return s if st[1] else -s
        return 0

    def _sentinel(self, fi, t, p):
        """``x is None`` (with polarity ``p``), where ``x`` is set by ``if T: x = <constant> / else: x = None`` and, apart
        from that, only where the test on ``x`` has been made: the test tells which branch of T was taken.
        Returns (T, polarity of T) or None."""
        if not (isinstance(t, ast.Compare) and len(t.ops) == 1 and isinstance(t.ops[0], (ast.Is, ast.IsNot)) and isinstance(t.left, ast.Name) and
                isinstance(t.comparators[0], ast.Constant) and t.comparators[0].value is None):
            return None
        is_none = p if isinstance(t.ops[0], ast.Is) else not p
        x = t.left.id
        if x in fi.params():
            return None
        mod = fi.mod
        stores = [n for n in _walk(fi) if isinstance(n, ast.Name) and n.id == x and isinstance(n.ctx, (ast.Store, ast.Del))]
        setter = None
        for n in stores:
            asg = mod.parents.get(n)
            iff = mod.parents.get(asg)
            if isinstance(asg, ast.Assign) and len(asg.targets) == 1 and asg.targets[0] is n and isinstance(iff, ast.If) and \
                    len(iff.body) == 1 and len(iff.orelse) == 1 and all(
                        isinstance(b, ast.Assign) and len(b.targets) == 1 and isinstance(b.targets[0], ast.Name) and b.targets[0].id == x and
                        isinstance(b.value, ast.Constant) for b in (iff.body[0], iff.orelse[0])):
                setter = iff
                break
        if setter is None:
            # the same in one statement: x = <constant> if T else None
            for n in stores:
                asg = mod.parents.get(n)
                if isinstance(asg, ast.Assign) and len(asg.targets) == 1 and asg.targets[0] is n and isinstance(asg.value, ast.IfExp) and \
                        isinstance(asg.value.body, ast.Constant) and isinstance(asg.value.orelse, ast.Constant):
                    setter = asg
                    break
        if setter is None:
            return None
        if isinstance(setter, ast.Assign):
            a, b, setter_test = setter.value.body.value, setter.value.orelse.value, setter.value.test
        else:
            a, b, setter_test = setter.body[0].value.value, setter.orelse[0].value.value, setter.test
        if (a is None) == (b is None):
            return None
        test_stmt = stmt_of(mod, t)
        if not isinstance(test_stmt, ast.If) or getattr(setter, 'lineno', 0) >= getattr(test_stmt, 'lineno', 0) or \
                mod.parents.get(setter) is not mod.parents.get(test_stmt):
            return None
        inner = set(id(y) for y in ast.walk(test_stmt)) | set(id(y) for y in ast.walk(setter))
        if any(id(n) not in inner for n in stores):
            return None          # set somewhere else as well
        none_branch_pol = a is None      # T true -> None
        return (setter_test, none_branch_pol if is_none else not none_branch_pol)

    # -- one function ------------------------------------------------------------------------------------
    def scan(self, fi, ptags, chain=()):
        """Classify every occurrence of a tagged expression in ``fi``.  ``ptags``: tags of the parameters (callee
        context); ``chain``: ((caller FuncInfo, call node), ...) from the outermost caller."""
        if len(chain) > self.MAX_DEPTH or fi.key in self._stack:
            raise AnalysisError('R18.a: helper chain through %s too deep / recursive to follow' % fi.qualname)
        self._stack.append(fi.key)
        prev = self._cur_fi
        try:
            self._scan(fi, ptags, chain)
        finally:
            self._stack.pop()
            self._cur_fi = prev

    def _scan(self, fi, ptags, chain):
        mod = fi.mod
        self._cur_fi = fi
        env = dict((p, set(ts)) for p, ts in ptags.items())
        nodes = list(_walk(fi))
        assigns, binders, unpacks = [], [], []
        for n in nodes:
            if isinstance(n, ast.Assign) and len(n.targets) == 1 and isinstance(n.targets[0], ast.Name):
                assigns.append((n.targets[0].id, n.value))
            elif isinstance(n, ast.Assign) and len(n.targets) == 1 and isinstance(n.targets[0], (ast.Tuple, ast.List)) and \
                    isinstance(n.value, (ast.Tuple, ast.List)) and len(n.value.elts) == len(n.targets[0].elts) and \
                    not any(isinstance(x, ast.Starred) for x in n.value.elts + n.targets[0].elts):
                for t, v in zip(n.targets[0].elts, n.value.elts):       # a, b = x, y
                    if isinstance(t, ast.Name):
                        assigns.append((t.id, v))
            elif isinstance(n, ast.Assign) and len(n.targets) == 1 and isinstance(n.targets[0], (ast.Tuple, ast.List)) and \
                    len(n.targets[0].elts) == 2 and all(isinstance(x, ast.Name) for x in n.targets[0].elts):
                unpacks.append(n)
            elif isinstance(n, ast.AnnAssign) and isinstance(n.target, ast.Name) and n.value is not None:
                assigns.append((n.target.id, n.value))
            elif isinstance(n, ast.NamedExpr) and isinstance(n.target, ast.Name):
                assigns.append((n.target.id, n.value))
            elif isinstance(n, (ast.For, ast.comprehension)):
                binders.append(n)
        sites = {}
        for _ in range(6):
            changed = False
            for name, value in assigns:
                for t in self.tags(value, env):
                    if t not in env.setdefault(name, set()):
                        env[name].add(t)
                        changed = True
            for b in binders + unpacks:
                tg = b.target if not isinstance(b, ast.Assign) else b.targets[0]
                src = b.iter if not isinstance(b, ast.Assign) else b.value
                want = 'pair' if isinstance(b, ast.Assign) else 'items'
                for t in self.tags(src, env):
                    tg2 = tg
                    if t[0] == 'enum' and not isinstance(b, ast.Assign) and isinstance(tg, (ast.Tuple, ast.List)) and len(tg.elts) == 2 and \
                            isinstance(tg.elts[0], ast.Name):
                        tg2 = tg.elts[1]          # for <number>, (<key>, <val>) in enumerate(<items>)
                    if (t[0] == want or (t[0] == 'enum' and tg2 is not tg)) and t[1] == 'resources' and \
                            isinstance(tg2, (ast.Tuple, ast.List)) and len(tg2.elts) == 2 and all(isinstance(x, ast.Name) for x in tg2.elts):
                        k, v = tg2.elts[0].id, tg2.elts[1].id
                        site = sites.get(id(b))
                        if site is None:
                            site = self._site_of.get(id(b))
                            if site is None:
                                site = self._site_of[id(b)] = _Site(fi, src, k, v, want)
                                site.binder = b
                                self.sites.append(site)
                            sites[id(b)] = site
                        vt = ('val', k, site)
                        if vt not in env.setdefault(v, set()):
                            env[v].add(vt)
                            changed = True
                    elif t[0] == 'items' and isinstance(tg, ast.Name) and not isinstance(b, ast.Assign):
                        pt = ('pair', t[1])
                        if pt not in env.setdefault(tg.id, set()):
                            env[tg.id].add(pt)
                            changed = True
            if not changed:
                break
        if not env and not any(self.is_source(n) for n in nodes):
            return
        site_targets = set()
        for b in binders + unpacks:
            if id(b) in sites:
                for x in ast.walk(b.target if not isinstance(b, ast.Assign) else b.targets[0]):
                    site_targets.add(id(x))
        # key variables must stay what the iteration bound them to
        keyed = {}
        for ts in env.values():
            for t in ts:
                if t[0] == 'val' and t[1] is not None:
                    keyed.setdefault((t[1], id(t[2])), t[2])
        for n in nodes:     # values looked up by name: <resources>[<key>]
            if isinstance(n, ast.Subscript):
                for t in self.tags(n, env):
                    if t[0] == 'val':
                        keyed.setdefault((t[1], id(t[2])), t[2])
        for (k, _), site in keyed.items():
            stores = [n for n in nodes if isinstance(n, ast.Name) and n.id == k and isinstance(n.ctx, (ast.Store, ast.Del))]
            if site.fi is not fi or k in ptags:
                pass                                    # the key arrived as a parameter: no store at all is expected
            elif site.kind == 'items' and site.binder is not None:
                region = set(id(x) for x in self._region(fi, site.binder))
                stores = [n for n in stores if id(n) in region and id(n) not in site_targets]
            elif site.kind == 'lookup':
                bad = []
                for n in nodes:
                    if isinstance(n, ast.Subscript) and any(t[0] == 'val' and t[2] is site for t in self.tags(n, env)):
                        b = self._binder_of(fi, n, k)
                        if b is not None:
                            region = set(id(x) for x in self._region(fi, b))
                            tg = set(id(x) for x in ast.walk(b.target))
                            bad.extend(x for x in stores if id(x) in region and id(x) not in tg)
                        else:
                            # a plain local / parameter: one binding (none for a parameter) in the whole function
                            bad.extend(stores if k in fi.params() else stores[1:])
                stores = list(dict((id(x), x) for x in bad).values())
            else:
                stores = [n for n in stores if id(n) not in site_targets]
            for n in stores:
                site.rebinds.append((fi, n))
        # occurrences
        pending = {}
        for n in nodes:
            if isinstance(n, ast.Call) and self._glom_resources(n) == 'value':
                self._read(fi, n, None, '%s reads a resource *value* by path (%s): secrets would be disclosed' % (fi.qualname, short(n, 60)))
                continue
            if not isinstance(n, ast.expr) or isinstance(getattr(n, 'ctx', None), (ast.Store, ast.Del)):
                continue
            ts = self.tags(n, env)
            if not ts:
                continue
            if self.is_source(n) and id(n) not in self._source_ids:
                self._source_ids.add(id(n))
                self.n_sources += 1
            for t in sorted(ts, key=lambda t: (t[0], str(t[1]))):
                if t[0] == 'val':
                    self._use_of_value(fi, n, t, pending)
                elif t[0] == 'obj':
                    self._use_of_object(fi, n, t, pending)
                else:
                    self._use_of_mapping(fi, n, t, sites, pending)
        # the redaction marker of each site this function takes part in
        for (k, _), site in keyed.items():
            self._markers(fi, k, site, chain, nodes)
        # closures: a function defined in here reads the tagged locals it does not bind itself
        closures = {}
        for n in nodes:
            if isinstance(n, (ast.FunctionDef, ast.AsyncFunctionDef)):
                g = mod.func_of_node(n)
                if g is None:
                    continue
                ct = dict((nm, set(env[nm])) for nm in free_names(g) if env.get(nm))
                if ct:
                    closures[g.key] = (g, n, ct)
        called = set()
        if closures:
            for n in nodes:
                if isinstance(n, ast.Call):
                    callee, _ = resolve_callee(self.repo, fi, n)
                    if callee is not None and callee.key in closures:
                        ent = pending.setdefault(id(n), (n, callee, {}))
                        for nm, ts in closures[callee.key][2].items():
                            for t in ts:
                                if t[0] == 'val' and self.polarity(fi, n, t[1]) == -1:
                                    t[2].use(fi, n, True)     # only called where 'secret' is not in the name
                                    continue
                                ent[2].setdefault(nm, set()).add(t)
                        called.add(callee.key)
        # follow tagged arguments into the helpers they are passed to
        for call, callee, ptags2 in pending.values():
            self.scan(callee, ptags2, chain + ((fi, call),))
        for key, (g, dn, ct) in closures.items():
            escapes = any(isinstance(x, ast.Name) and x.id == g.name and isinstance(x.ctx, ast.Load) and
                          not (isinstance(mod.parents.get(x), ast.Call) and mod.parents.get(x).func is x) for x in nodes)
            if key not in called or escapes:       # handed around as a callback: judged on its own
                self.scan(g, ct, chain + ((fi, dn),))

    def _region(self, fi, binder):
        """The nodes that run with the binder's targets bound: the loop body, or the comprehension around the generator."""
        if isinstance(binder, ast.For):
            return [x for st in binder.body for x in ast.walk(st)]
        if isinstance(binder, ast.comprehension):
            return list(ast.walk(fi.mod.parents.get(binder)))
        return list(_walk(fi))

    def _binder_of(self, fi, node, name):
        """Innermost loop / comprehension generator around ``node`` that binds ``name``."""
        for l in _loops_around(fi, node):
            if any(isinstance(x, ast.Name) and x.id == name for x in ast.walk(l.target)):
                return l
        return None

    def _transfer(self, fi, node, tag, pending):
        """``node`` is passed to a helper of the analysed tree: remember the parameter's tag.  False when it is not
        an argument of a resolvable call."""
        call = call_of_arg(fi.mod, node)
        if call is None:
            return False
        callee, skip = resolve_callee(self.repo, fi, call)
        if callee is None:
            return False
        b = bind_args(callee, skip, call)
        if b is None:
            return False
        ps = [p for p, x in b.items() if x is node]
        if len(ps) != 1:
            return False
        if tag[0] == 'val':
            kps = [p for p, x in b.items() if isinstance(x, ast.Name) and x.id == tag[1]] if tag[1] is not None else []
            tag = ('val', kps[0] if len(kps) == 1 else None, tag[2])
        elif tag[0] == 'map':
            tag = ('map', tag[1], False)
        ent = pending.setdefault(id(call), (call, callee, {}))
        ent[2].setdefault(ps[0], set()).add(tag)
        return True

    def _use_of_value(self, fi, n, tag, pending):
        _, k, site = tag
        par = fi.mod.parents.get(n)
        if self.polarity(fi, n, k) == -1:
            site.use(fi, n, True)
            if _stored_raw(fi, n):
                site.raw.append((fi, n))
        elif is_aliased(fi.mod, n) and isinstance(n, (ast.Name, ast.Subscript)):
            site.use(fi, n, True)      # alias: the new name carries the tag, its uses are judged
        elif isinstance(n, (ast.Name, ast.Subscript)) and self._stored_in_field(fi, n, tag) is not None:
            site.use(fi, n, True)      # stored in a field of the object: the methods of its class are judged with the field tagged
        elif self._transfer(fi, n, tag, pending):
            site.use(fi, n, True)      # handed to a helper: judged there
        else:
            site.use(fi, n, False)

    def _read(self, fi, n, kind, detail=None):
        i = self._seen_reads.get(id(n))
        if i is not None:
            if kind is None and self.reads[i][2] is not None:
                self.reads[i] = (fi, n, kind, detail)      # one node, several tags: the unrecognised use counts
            return
        self._seen_reads[id(n)] = len(self.reads)
        self.reads.append((fi, n, kind, detail))

    def _use_of_mapping(self, fi, n, tag, sites, pending):
        mod = fi.mod
        par = mod.parents.get(n)
        gp = mod.parents.get(par)
        what = 'resource' if tag[1] == 'resources' else 'parameter default'
        kind = None
        if tag[0] == 'map':
            if isinstance(par, ast.Compare) and len(par.ops) == 1 and isinstance(par.ops[0], (ast.In, ast.NotIn)) and \
                    any(n is c for c in par.comparators):
                kind = 'key membership'
            elif isinstance(par, ast.Attribute) and par.value is n and isinstance(gp, ast.Call) and gp.func is par:
                if par.attr == 'keys':
                    kind = 'keys()'
                elif par.attr == 'items' and tag[1] == 'resources' and not gp.args and not gp.keywords:
                    kind = 'items() (judged where it is iterated)'
                elif par.attr == 'copy' and not gp.args and not gp.keywords:
                    kind = 'copy (judged where it is used)'
            elif isinstance(par, ast.Call) and isinstance(par.func, ast.Name) and any(n is a for a in par.args) and \
                    par.func.id in KEY_ONLY and len(par.args) == 1:
                kind = '%s()' % par.func.id
            elif isinstance(par, ast.Call) and isinstance(par.func, ast.Name) and par.func.id == 'dict' and len(par.args) == 1 and \
                    par.args[0] is n and not par.keywords:
                kind = 'copy (judged where it is used)'
            elif isinstance(par, (ast.For, ast.comprehension)) and par.iter is n:
                kind = 'iteration over the names'
            elif isinstance(par, ast.Call) and isinstance(par.func, ast.Name) and par.func.id in ('zip', 'enumerate') and not par.keywords and \
                    any(n is a for a in par.args):
                kind = '%s() over the names' % par.func.id
            elif isinstance(par, ast.Subscript) and par.value is n and tag[2] and isinstance(par.ctx, ast.Load) and \
                    not isinstance(par.slice, ast.Slice) and _fold_str(self.repo, fi, par.slice) is not None:
                kind = 'own constant key %r of the meta application' % (_fold_str(self.repo, fi, par.slice),)
            elif isinstance(par, (ast.If, ast.While, ast.IfExp)) and par.test is n:
                kind = 'emptiness test'
            elif isinstance(par, ast.UnaryOp) and isinstance(par.op, ast.Not):
                kind = 'emptiness test'
            elif isinstance(par, ast.BoolOp):
                kind = 'operand of and / or (the result is judged where it is used)'
            elif isinstance(par, ast.Call) and isinstance(par.func, ast.Attribute) and par.func.attr == 'join' and len(par.args) == 1 and \
                    par.args[0] is n and not par.keywords and _fold_str(self.repo, fi, par.func.value) is not None:
                kind = 'join() over the names'
            elif isinstance(par, ast.Subscript) and par.value is n and isinstance(par.slice, ast.Name) and tag[1] == 'resources' and \
                    isinstance(par.ctx, ast.Load) and par.slice.id in _local_names(fi):
                kind = 'value looked up by name (judged per use of the value)'
        elif tag[0] == 'pair':
            if isinstance(par, ast.Assign) and par.value is n and id(par) in sites:
                kind = 'pair unpacked into (name, value) (judged per use of the value)'
            elif isinstance(par, ast.Subscript) and par.value is n and isinstance(par.slice, ast.Constant) and par.slice.value == 0 and \
                    type(par.slice.value) is int and isinstance(par.ctx, ast.Load):
                kind = 'name of the pair'
        else:   # items / enum
            if isinstance(par, (ast.For, ast.comprehension)) and par.iter is n:
                if id(par) in sites:
                    kind = 'iteration over (name, value) pairs (judged per use of the value)'
                elif isinstance(par.target, ast.Name) and tag[1] == 'resources' and tag[0] == 'items':
                    kind = 'iteration over pairs (judged where the pair is taken apart)'
            elif tag[0] == 'items' and isinstance(par, ast.Call) and isinstance(par.func, ast.Name) and par.func.id == 'enumerate' and \
                    len(par.args) == 1 and par.args[0] is n and not par.keywords:
                kind = 'enumerate() (judged where it is iterated)'
            elif isinstance(par, ast.Call) and isinstance(par.func, ast.Name) and len(par.args) == 1 and par.args[0] is n:
                if par.func.id in SEQ_THROUGH and (not par.keywords or (par.func.id == 'sorted' and
                                                                         all(_names_only_key(k) for k in par.keywords))):
                    kind = '%s() (judged where it is iterated)' % par.func.id
                elif par.func.id == 'len' and not par.keywords:
                    kind = 'len()'
        if kind is None and tag[0] == 'map' and isinstance(par, ast.Call) and len(par.args) >= 2 and par.args[1] is n and self._glom_resources(par) == 'map':
            kind = 'glom spec (the mapping it yields is judged where the result of the call is used)'
        if kind is None and is_aliased(mod, n):
            kind = 'local alias (judged where it is used)'
        if kind is None:
            fld = self._stored_in_field(fi, n, tag)
            if fld is not None:
                kind = 'stored in the field .%s of the object (judged where the field is read)' % fld
        if kind is None and self._transfer(fi, n, tag, pending):
            kind = 'argument of a helper of meta.py (judged there)'
        self._read(fi, n, kind, None if kind else
                   '%s reads %s *values* (%s): %s' % (fi.qualname, what, short(par if isinstance(par, ast.AST) else n),
                                                     'secrets would be disclosed' if tag[1] == 'resources' else
                                                     'an arbitrary host object reaches the JSON view (encoder failure => 500 for the whole '
                                                     'view, or disclosure)'))

    # -- the marker --------------------------------------------------------------------------------------
    def _markers(self, fi, k, site, chain, nodes):
        """Constant strings (literals, module-level constants) in value position that are produced exactly where
        'secret' is known to be in the name, and whether one of them reaches the listing."""
        mod = fi.mod
        for n in nodes:
            if not isinstance(n, (ast.Constant, ast.Name, ast.Attribute, ast.BinOp, ast.JoinedStr)) or \
                    isinstance(getattr(n, 'ctx', None), (ast.Store, ast.Del)):
                continue
            par = mod.parents.get(n)
            if isinstance(par, ast.Dict) and any(n is x for x in par.keys):
                continue
            if isinstance(par, (ast.Subscript, ast.Compare, ast.Attribute, ast.BinOp, ast.JoinedStr, ast.FormattedValue, ast.Expr)):
                continue
            if isinstance(par, ast.Call) and par.func is n:
                continue
            v = _fold_str(self.repo, fi, n)
            if not v:
                continue
            pol = self.polarity(fi, n, k)
            if pol != 1 and not (pol == 0 and self._default_marker(fi, n, k, site)):
                continue
            site.markers.append((fi, n, v))
            if self.flows_to_output(fi, n, chain):
                site.shown = True

    def _default_marker(self, fi, n, k, site):
        """``n`` is a constant stored unconditionally as the shown value and replaced only where 'secret' is known
        not to be in the name: ``shown = MARK`` ... ``if 'secret' not in key: shown = ...`` (in the same iteration), or
        ``table = dict.fromkeys(names, MARK)`` ... ``if 'secret' not in key: table[key] = ...``."""
        mod = fi.mod
        par = mod.parents.get(n)
        if isinstance(par, ast.Assign) and par.value is n and len(par.targets) == 1 and isinstance(par.targets[0], ast.Name):
            t = par.targets[0].id
            region = None
            if site.fi is fi and site.binder is not None and not isinstance(site.binder, ast.Assign):
                region = set(id(x) for x in self._region(fi, site.binder))
                if id(par) not in region:
                    return False          # set once before the loop: a later iteration would see the previous value
            elif any(isinstance(l, (ast.For, ast.While)) for l in self._stmt_loops(fi, par)) != \
                    any(isinstance(l, (ast.For, ast.While)) for l in self._stmt_loops(fi, site.where)):
                return False
            others = [x for x in _walk(fi) if isinstance(x, ast.Name) and x.id == t and isinstance(x.ctx, (ast.Store, ast.Del)) and
                      x is not par.targets[0] and (region is None or id(x) in region)]
            if not others:
                return False
            for x in others:
                st = stmt_of(mod, x)
                if not (isinstance(st, ast.Assign) and len(st.targets) == 1 and st.targets[0] is x) or self.polarity(fi, st.value, k) != -1:
                    return False
            return True
        if isinstance(par, ast.Call) and norm(par.func) == 'dict.fromkeys' and len(par.args) == 2 and par.args[1] is n and not par.keywords:
            asg = mod.parents.get(par)
            if not (isinstance(asg, ast.Assign) and asg.value is par and len(asg.targets) == 1 and isinstance(asg.targets[0], ast.Name)):
                return False
            d = asg.targets[0].id
            if len([x for x in _walk(fi) if isinstance(x, ast.Name) and x.id == d and isinstance(x.ctx, (ast.Store, ast.Del))]) != 1:
                return False
            writes = 0
            for x in _walk(fi):
                if isinstance(x, ast.Name) and x.id == d and isinstance(x.ctx, ast.Load):
                    up = mod.parents.get(x)
                    if isinstance(up, ast.Subscript) and up.value is x and isinstance(up.ctx, ast.Load):
                        continue          # read of one slot
                    if isinstance(up, ast.Subscript) and up.value is x and isinstance(up.ctx, ast.Store):
                        st = mod.parents.get(up)
                        if isinstance(st, ast.Assign) and len(st.targets) == 1 and st.targets[0] is up and isinstance(up.slice, ast.Name) and \
                                up.slice.id == k and self.polarity(fi, st.value, k) == -1:
                            writes += 1
                            continue
                    return False          # any other use (update(), a call, an alias): the slots can no longer be followed
            return writes >= 1
        return False

    def _stmt_loops(self, fi, node):
        out, cur = [], node
        while cur is not None and cur is not fi.node:
            cur = fi.mod.parents.get(cur)
            if isinstance(cur, (ast.For, ast.While)):
                out.append(cur)
        return out

    def _loads_flow(self, fi, names, skip_stmt, chain, depth):
        for n in _walk(fi):
            if isinstance(n, ast.Name) and n.id in names and isinstance(n.ctx, ast.Load) and \
                    stmt_of(fi.mod, n) is not skip_stmt and self.flows_to_output(fi, n, chain, depth + 1):
                return True
        return False

    def flows_to_output(self, fi, node, chain, depth=0):
        """The value of ``node`` becomes (part of) an element of the listing: it is appended / yielded / the element of
        a comprehension, possibly through a local, a container display or the return value of the helper."""
        if depth > 5:
            return False
        mod = fi.mod
        cur = node
        while cur is not None and cur is not fi.node:
            par = mod.parents.get(cur)
            if isinstance(par, ast.Call) and call_tail(par) in ('append', 'extend', 'add', 'insert') and any(cur is a for a in par.args):
                return True
            if isinstance(par, (ast.ListComp, ast.SetComp, ast.GeneratorExp)) and par.elt is cur:
                return True
            if isinstance(par, ast.DictComp) and par.value is cur:
                return True
            if isinstance(par, (ast.Yield, ast.YieldFrom)):
                return True
            if isinstance(par, (ast.Call, ast.keyword)):
                # stored into a local container: row.update(value=..) / row.setdefault('value', ..)
                c = par if isinstance(par, ast.Call) else mod.parents.get(par)
                if isinstance(c, ast.Call) and isinstance(c.func, ast.Attribute) and c.func.attr in ('update', 'setdefault') and \
                        isinstance(mod.parents.get(c), ast.Expr) and _root_name(c.func.value) is not None:
                    return self._loads_flow(fi, {_root_name(c.func.value)}, mod.parents.get(c), chain, depth)
            if isinstance(par, ast.stmt):
                if isinstance(par, (ast.Assign, ast.AnnAssign, ast.AugAssign)) and par.value is cur:
                    names = set()
                    for t in (par.targets if isinstance(par, ast.Assign) else [par.target]):
                        while isinstance(t, (ast.Subscript, ast.Attribute)):
                            t = t.value
                        if isinstance(t, ast.Name):
                            names.add(t.id)
                    return self._loads_flow(fi, names, par, chain, depth)
                if isinstance(par, ast.Return) and par.value is cur:
                    if chain:
                        cfi, call = chain[-1]
                        return self.flows_to_output(cfi, call, chain[:-1], depth + 1)
                    return True
                return False
            cur = par
        return False


class _LambdaInfo(object):
    """A lambda outside any function (module-level tables of predicates), presented like a function."""

    def __init__(self, mod, lam, qualname):
        self.mod, self.qualname, self.cls = mod, qualname, None
        self.node = ast.FunctionDef(name='<lambda>', args=lam.args, body=[ast.copy_location(ast.Return(value=lam.body), lam)],
                                    decorator_list=[], returns=None, type_comment=None)
        ast.copy_location(self.node, lam)
        self.name = '<lambda>'
        self.key = '%s::%s' % (mod.name, qualname)

    def params(self):
        a = self.node.args
        return [x.arg for x in a.posonlyargs + a.args + a.kwonlyargs]


def _toplevel_lambdas(mod):
    out, count = [], {}
    for st in mod.tree.body:
        if isinstance(st, (ast.FunctionDef, ast.AsyncFunctionDef)):
            continue
        for n in ast.walk(st):
            if isinstance(n, ast.Lambda) and mod.enclosing_function(n) is None:
                owner = norm(st.targets[0]) if isinstance(st, ast.Assign) else (st.name if isinstance(st, ast.ClassDef) else '<module>')
                i = count[owner] = count.get(owner, 0) + 1
                out.append(_LambdaInfo(mod, n, '%s.<lambda#%d>' % (owner, i)))
    return out


def _listing_conditions(tn, site):
    """[(condition, statement)]: conditions other than the 'secret' test on which -- inside the loop that binds the resource
    name -- a row is produced, the redaction marker is chosen or the iteration is left (``continue`` / ``break`` / ``return``;
    comprehension filters)."""
    fi = site.fi
    mod = fi.mod
    loop = site.binder if isinstance(site.binder, (ast.For, ast.comprehension)) else None
    if loop is None:
        anchor = site.binder if site.binder is not None else site.where
        loop = tn._binder_of(fi, anchor, site.kname)
    if loop is None:
        return []

    def is_secret(t, p):
        if tn.secret_test(fi, t, site.kname):
            return True
        st = tn._sentinel(fi, t, p)
        return st is not None and bool(tn.secret_test(fi, st[0], site.kname))
    out = []
    if isinstance(loop, ast.comprehension):
        comp = mod.parents.get(loop)
        for g in getattr(comp, 'generators', []):
            for c in g.ifs:
                if not all(is_secret(t, p) for t, p in expand_conds([(c, True)]) if not isinstance(t, ast.BoolOp)) or \
                        any(isinstance(t, ast.BoolOp) and not is_secret(t, p) and not all(is_secret(v, p) for v in t.values) for t, p in expand_conds([(c, True)])):
                    out.append((c, c))
        return out
    try:
        base = set((norm(t), p) for t, p in conds(fi, loop))
    except AnalysisError:
        return []
    returned = _returned_names(fi)
    marker_stmts = [stmt_of(mod, n) for f, n, _ in site.markers if f is fi]
    todo = list(loop.body)
    while todo:
        st = todo.pop(0)
        if isinstance(st, (ast.FunctionDef, ast.AsyncFunctionDef, ast.ClassDef)):
            continue
        for fld in ('body', 'orelse', 'finalbody', 'handlers'):
            todo.extend(x for x in getattr(st, fld, []) if isinstance(x, (ast.stmt, ast.ExceptHandler)))
        leaves = isinstance(st, (ast.Continue, ast.Break, ast.Return))
        lists = isinstance(st, ast.Expr) and (isinstance(st.value, (ast.Yield, ast.YieldFrom)) or (
            isinstance(st.value, ast.Call) and isinstance(st.value.func, ast.Attribute) and st.value.func.attr in ('append', 'add', 'insert', 'extend') and
            _root_name(st.value.func.value) in returned))
        if isinstance(st, ast.Break):
            # (a break that belongs to an inner loop does not leave the listing)
            inner = [l for l in _loops_around(fi, st) if isinstance(l, ast.For)]
            if inner and inner[0] is not loop:
                continue
        if not (leaves or lists or any(st is m for m in marker_stmts)):
            continue
        try:
            cs = conds(fi, st)
        except AnalysisError:
            continue
        for t, p in cs:
            if (norm(t), p) in base or isinstance(t, ast.BoolOp) and all(is_secret(v, p) for v in t.values):
                continue
            if not is_secret(t, p):
                out.append((t, st))
                break
    return out


def _report_taint(rep, rule, tn, note=''):
    """One obligation per occurrence of a sensitive mapping, three per place where names and values are bound together."""
    # every occurrence of a sensitive mapping (resources, endpoint parameter defaults): names only
    for i, (fi, n, kind, detail) in enumerate(tn.reads):
        rep.check(rule, fkey(fi, n) + '#' + str(i), kind is not None,
                  'read of %s is %s' % (short(n, 50), kind) if kind else detail + note, fi.mod, n)
    # every iteration over (name, value) pairs of a resources mapping
    per_fn = {}
    for site in tn.sites:
        fi = site.fi
        i = per_fn[fi.key] = per_fn.get(fi.key, -1) + 1
        sfx = '' if i == 0 else '#%d' % i
        kv, vv = site.kname, site.vname
        rb = site.rebinds
        rep.check(rule, fkey(fi, 'key variable intact') + sfx, not rb,
                  "the 'secret' test looks at the resource name itself" if not rb else
                  'the key variable %s is re-bound (truncated / transformed) in %s: the "secret" decision is made on '
                  'something else than the resource name' % (kv, rb[0][0].qualname), fi.mod, rb[0][1] if rb else site.where)
        ok = not site.bad and bool(site.markers) and bool(site.uses)
        rep.check(rule, fkey(fi, 'items() loop') + sfx, ok,
                  "the value variable %s is evaluated only where ('secret' in %s) is false (%d uses); the other branch yields the constant %r"
                  % (vv, kv, len(site.uses), site.markers[0][2] if site.markers else None) if ok else
                  'a resource value is used without the "secret" test being false (%d unguarded uses%s) or no redaction marker is produced'
                  % (len(site.bad), ', first in %s: %s' % (site.bad[0][0].qualname, short(fi.mod.parents.get(site.bad[0][1]), 60)) if site.bad else ''),
                  fi.mod, site.bad[0][1] if site.bad else site.where)
        rep.check(rule, fkey(fi, 'value shown as text') + sfx, not site.raw,
                  'where the value %s is listed it is turned into a text first (repr / str / format / a helper it is handed to)' % vv if not site.raw else
                  'the resource value itself (%s), not a text made from it, is put into the listing: an arbitrary host object reaches the JSON '
                  'encoder (TypeError => the whole view answers 500) and is never truncated' % short(site.raw[0][0].mod.parents.get(site.raw[0][1]), 60),
                  fi.mod, site.raw[0][1] if site.raw else site.where)
        skipped = _listing_conditions(tn, site)
        rep.check(rule, fkey(fi, 'every resource listed') + sfx, not skipped,
                  "inside the loop over the resources nothing but the 'secret' test decides what is listed" if not skipped else
                  'the listing depends on a condition other than the "secret" test (%s at %s): some resources are not listed / not listed with '
                  'their value' % (short(skipped[0][0], 50), short(skipped[0][1], 40)), fi.mod, skipped[0][1] if skipped else site.where)
        ok2 = site.shown and not site.bad
        rep.check(rule, fkey(fi, 'output value') + sfx, ok2,
                  'the listed value is the branch result (marker %r for secret names), never the raw value'
                  % (site.markers[0][2] if site.markers else None) if ok2 else
                  ('the raw resource value is put into the output' if site.bad else
                   'the redaction marker does not reach the listing'), fi.mod, site.bad[0][1] if site.bad else site.where)


def _r18a(rep, repo, meta):
    tn = _Taint(repo, meta)
    # (the views' code wherever it is defined: a helper / a peripheral may live in another module of the package)
    for fi in _view_functions(repo, meta) + _toplevel_lambdas(meta):
        tn.scan(fi, {})
    # objects of the tree in whose fields a sensitive mapping / value was stored: every method that may run on such an
    # object is judged with the field tagged
    judged = {}
    for _ in range(4):
        todo = []
        for ck, fields in sorted(tn.class_fields.items()):
            flat = tuple(sorted(((f, t) for f, ts in fields.items() for t in ts), key=lambda x: (x[0], x[1][0], str(x[1][1]), id(x[1][-1]))))
            if judged.get(ck) != flat:
                judged[ck] = flat
                todo.append((ck, flat))
        if not todo:
            break
        for ck, flat in todo:
            for m, me in tn.methods_with_self(tn._classes[ck]):
                tn.scan(m, {me: {('obj', ck, flat, tuple(sorted(set(f for f, _ in flat))), 'held')}})
    def reads_mapping(fi, n):
        tn._cur_fi = fi
        try:
            return (isinstance(n, ast.Attribute) and n.attr == 'resources') or tn._getattr_resources(n) or tn._glom_resources(n) == 'map'
        finally:
            tn._cur_fi = None
    n_res = sum(1 for fi, n, _, _ in tn.reads if reads_mapping(fi, n))
    if n_res < 3:
        raise AnalysisError('meta.py: only %d reads of .resources found (floor 3)' % n_res)
    seen = set(id(n) for _, n, _, _ in tn.reads)
    stray = [n for n in ast.walk(meta.tree) if tn.is_source(n) and id(n) not in seen]
    if stray:
        raise AnalysisError('meta.py: %d read(s) of a sensitive mapping outside the analysed function bodies (first: line %s, %s)'
                            % (len(stray), getattr(stray[0], 'lineno', '?'), short(stray[0], 60)))
    repo._c18_taint = tn
    _report_taint(rep, 'R18.a', tn)
    if not tn.sites and all(k is not None for _, _, k, _ in tn.reads):
        raise AnalysisError('meta.py: no iteration over the (name, value) pairs of a .resources mapping found (the resource listing '
                            'could not be located)')
    # contexts never hold framework objects themselves
    ctx = _context_functions(repo, meta)
    objs, colls = _object_names(repo, ctx, with_colls=True)
    n_vals = 0

    def object_list(fi, e):
        """``e`` is a list of host objects itself: ``<object>.routes`` / ``.middlewares`` / ``.peripherals``, a local that names
        one, or a list() / tuple() / sorted() / reversed() copy, a slice or an ``or`` / conditional choice of such."""
        while True:
            if isinstance(e, ast.Call) and isinstance(e.func, ast.Name) and e.func.id in SEQ_THROUGH | {'set', 'frozenset'} and e.args and \
                    e.func.id not in _local_names(fi):
                e = e.args[0]
            elif isinstance(e, ast.Subscript) and isinstance(e.slice, ast.Slice):
                e = e.value
            else:
                break
        if isinstance(e, ast.BoolOp):
            return any(object_list(fi, v) for v in e.values)
        if isinstance(e, ast.IfExp):
            return object_list(fi, e.body) or object_list(fi, e.orelse)
        if isinstance(e, ast.Attribute) and e.attr in ('routes', 'middlewares', 'peripherals') and isinstance(e.value, ast.Name) and \
                e.value.id in objs[fi.key]:
            return True
        return isinstance(e, ast.Name) and e.id in colls[fi.key]
    for fi in ctx:
        for n in walk_body(fi.node):
            vals = []
            if isinstance(n, ast.Dict):
                vals = list(n.values)
            elif isinstance(n, ast.Assign) and isinstance(n.targets[0], ast.Subscript):
                vals = [n.value]
            elif isinstance(n, ast.Assign) and isinstance(n.targets[0], (ast.Tuple, ast.List)) and isinstance(n.value, (ast.Tuple, ast.List)) and \
                    len(n.targets[0].elts) == len(n.value.elts):
                vals = [v for t, v in zip(n.targets[0].elts, n.value.elts) if isinstance(t, ast.Subscript)]
            elif isinstance(n, ast.Call) and call_name(n) == 'dict':
                vals = [k.value for k in n.keywords]
            elif isinstance(n, ast.Call) and isinstance(n.func, ast.Attribute) and n.func.attr in ('append', 'insert', 'add') and \
                    _root_name(n.func.value) in _returned_names(fi):
                vals = list(n.args[-1:])      # an element of a list (inside) what the function returns
            elif isinstance(n, (ast.ListComp, ast.SetComp, ast.GeneratorExp)) and _is_returned(fi, n):
                vals = [n.elt]
            elif isinstance(n, ast.DictComp) and _is_returned(fi, n):
                vals = [n.value]
            for v in vals:
                n_vals += 1
                if isinstance(v, ast.Name) and v.id in objs[fi.key]:
                    rep.fail('R18.a', fkey(fi, 'context value ' + v.id), 'the %s object itself is stored in a page context: the JSON view would '
                             'traverse it (resources, secret keys)' % v.id, fi.mod, v)
                elif object_list(fi, v):
                    rep.fail('R18.a', fkey(fi, 'context value ' + norm(v)), 'a list of application / route / middleware objects (%s) is stored in a '
                             'page context: the JSON encoder rejects the objects (TypeError => the JSON view answers 500), a template would print '
                             'their reprs' % short(v, 40), fi.mod, v)
    rep.ok('R18.a', '%s::context values' % META, '%d values stored in peripheral contexts (%d functions); none is an application/route/'
           'middleware/request object' % (n_vals, len(ctx)), meta)
    rep.floor('R18.a', 5)


def _root_name(e):
    """Root local of ``x.a[k].setdefault(..)``-style receiver chains."""
    while True:
        if isinstance(e, (ast.Attribute, ast.Subscript)):
            e = e.value
        elif isinstance(e, ast.Call):
            e = e.func
        else:
            return e.id if isinstance(e, ast.Name) else None


def _returned_names(fi):
    """Locals mentioned in a return / yield value of the function, and the locals whose value is stored in one of them
    (``out = tmp`` / ``out[k] = tmp`` / ``out.append(tmp)`` with ``out`` returned)."""
    c = getattr(fi, '_c18_returned', None)
    if c is None:
        c = set(x.id for r in walk_body(fi.node) if isinstance(r, (ast.Return, ast.Yield, ast.YieldFrom)) and r.value is not None
                for x in ast.walk(r.value) if isinstance(x, ast.Name))
        for _ in range(4):
            before = len(c)
            for st in stmts_of(fi.node):
                if isinstance(st, (ast.Assign, ast.AugAssign, ast.AnnAssign)) and st.value is not None:
                    tgts = st.targets if isinstance(st, ast.Assign) else [st.target]
                    if any(_root_name(t) in c for t in tgts):
                        c |= set(x.id for x in ast.walk(st.value) if isinstance(x, ast.Name))
            if len(c) == before:
                break
        fi._c18_returned = c
    return c


def _is_returned(fi, node):
    """The container built by ``node`` is (part of) what the function returns: directly, inside a display, through a
    list()/sorted()/... copy, or through a local that is returned."""
    mod = fi.mod
    cur = node
    while True:
        par = mod.parents.get(cur)
        if isinstance(par, (ast.Dict, ast.List, ast.Tuple, ast.Set, ast.Starred, ast.IfExp, ast.BoolOp)):
            cur = par
        elif isinstance(par, ast.Call) and isinstance(par.func, ast.Name) and par.func.id in ('list', 'tuple', 'sorted', 'dict', 'set', 'reversed') \
                and any(cur is a for a in par.args):
            cur = par
        elif isinstance(par, ast.keyword) and isinstance(mod.parents.get(par), ast.Call) and call_name(mod.parents.get(par)) == 'dict':
            cur = mod.parents.get(par)
        elif isinstance(par, ast.Return):
            return True
        elif isinstance(par, (ast.Assign, ast.AugAssign, ast.AnnAssign)):
            names = set()
            for t in (par.targets if isinstance(par, ast.Assign) else [par.target]):
                while isinstance(t, (ast.Subscript, ast.Attribute)):
                    t = t.value
                if isinstance(t, ast.Name):
                    names.add(t.id)
            return bool(names & _returned_names(fi))
        elif isinstance(par, ast.Call) and isinstance(par.func, ast.Attribute) and par.func.attr in ('append', 'extend', 'insert', 'add', 'update') and \
                isinstance(par.func.value, ast.Name) and any(cur is a for a in par.args):
            return par.func.value.id in _returned_names(fi)
        else:
            return False


LISTING_FUNCTIONS = ('get_route_infos', 'get_resource_info', 'get_mw_infos', 'get_endpoint_info', 'get_render_info', 'get_route_arg_info')


def _internal_func(repo, mod, name):
    """The function of the analysed tree the module-level name ``name`` of ``mod`` denotes -- defined there, or in the
    module of the package it is imported from (a definition that moved and is imported back); None otherwise."""
    try:
        kind, m, obj = repo.resolve(mod, name)
    except AnalysisError:
        return None
    if kind == 'func' and m is not None and not m.external:
        return obj
    return None


def _view_classes(repo, meta):
    """The classes the views are methods of, wherever they are defined: the peripheral family (``MetaPeripheral``, its
    subclasses, their bases within the tree) and the meta application with the bases it does not share with the plain
    ``Application`` (a mixin the views were moved into)."""
    out = []

    def add(c):
        if not isinstance(c, str) and not c.mod.external and not any(c is x for x in out):
            out.append(c)
    base = meta.cls('MetaPeripheral')
    for c in [base] + repo.subclasses(base):
        for x in repo.mro(c):
            add(x)
    for x in _meta_app_classes(repo, meta):
        add(x)
    return out


def _meta_app_classes(repo, meta):
    """The meta application, its subclasses, and the bases it does not share with the plain ``Application``."""
    mapp = meta.cls('MetaApplication')
    kind, m, app = repo.resolve(mapp.mod, 'Application')
    shared = repo.mro(app) if kind == 'class' else []
    out = [x for x in repo.mro(mapp) if not isinstance(x, str) and not x.mod.external and not any(x is y for y in shared)]
    return out + [c for c in repo.subclasses(mapp) if not any(c is x for x in out)]


def _installed_context_functions(repo, classes):
    """Functions installed as a peripheral's ``get_context`` by ``get_context = staticmethod(<function>)``."""
    out = []
    for c in classes:
        v = c.class_attrs.get('get_context')
        if isinstance(v, ast.Call) and call_name(v) in ('staticmethod', 'classmethod') and v.args and isinstance(v.args[0], ast.Name):
            f = _internal_func(repo, c.mod, v.args[0].id)
            if f is not None:
                out.append(f)
    return out


def _with_nested(fi):
    """``fi`` and the functions defined inside it."""
    pre = fi.qualname + '.'
    return [fi] + [g for q, g in fi.mod.functions.items() if q.startswith(pre)]


def _view_functions(repo, meta):
    """The code of the views, wherever it is defined.  Everything defined in meta.py (as before), and -- a helper / a class
    may move to another module of the package and be imported back -- the definitions the views reach outside it:
    the methods of the view classes, the functions installed as a ``get_context``, the listing functions meta.py still
    names, and, transitively, every function of the tree a view function hands a host object (application / route /
    middleware / request, see ``_object_names``) or a list of them to, with the helpers that live next to such a
    function in its module.  (The framework's own machinery -- the injector, the function builder -- is handed
    functions and dictionaries, never a host object itself: it is not part of the views.)"""
    c = getattr(repo, '_c18_view_functions', None)
    if c is not None:
        return c
    out, keys = [], set()

    def add(fi):
        new = False
        for g in _with_nested(fi):
            if g.key not in keys:
                keys.add(g.key)
                out.append(g)
                new = True
        return new
    for fi in meta.functions.values():
        add(fi)
    classes = _view_classes(repo, meta)
    for ci in classes:
        for m in ci.methods.values():
            add(m)
    for f in _installed_context_functions(repo, classes):
        add(f)
    for nm in LISTING_FUNCTIONS:
        f = _internal_func(repo, meta, nm)
        if f is not None:
            add(f)
    app_classes = _meta_app_classes(repo, meta)
    for _ in range(6):
        objs, colls = _object_names(repo, out, with_colls=True)
        grew = False
        for fi in list(out):
            cur, cl = objs[fi.key], colls[fi.key]
            if not any(_class_of(fi) is c for c in app_classes):
                cur = cur - {'self', 'cls'}       # (the ``self`` of a peripheral is not a host object)
            for n in walk_body(fi.node):
                if not isinstance(n, ast.Call):
                    continue
                callee, skip = resolve_callee(repo, fi, n)
                if callee is None or callee.key in keys or callee.mod.external:
                    continue
                if callee.mod is fi.mod and fi.mod is not meta:
                    grew |= add(callee)        # a helper next to a view function that moved
                    continue
                args = list(n.args) + [k.value for k in n.keywords]
                if any(isinstance(x, ast.Name) and (x.id in cur or x.id in cl) for x in args) or \
                        any(isinstance(x, ast.Attribute) and x.attr in ('routes', 'middlewares', 'peripherals') and isinstance(x.value, ast.Name) and
                            x.value.id in cur for x in args):
                    grew |= add(callee)
        if not grew:
            break
    repo._c18_view_functions = out
    return out


def _context_functions(repo, meta):
    """The functions that build peripheral contexts: every ``get_context`` (methods, and functions installed under
    that name), the listing functions, and the helpers among the view functions they call."""
    views = _view_functions(repo, meta)
    vkeys = set(f.key for f in views)
    out, todo = [], []
    for fi in views:
        if fi.name == 'get_context' or (fi.qualname in LISTING_FUNCTIONS and (fi.mod is meta or _internal_func(repo, meta, fi.qualname) is fi)):
            todo.append(fi)
    todo.extend(_installed_context_functions(repo, _view_classes(repo, meta)))
    seen = set()
    while todo:
        fi = todo.pop()
        if fi.key in seen:
            continue
        seen.add(fi.key)
        out.append(fi)
        for n in walk_body(fi.node):
            if isinstance(n, ast.Call):
                callee, _ = resolve_callee(repo, fi, n)
                if callee is not None and (callee.mod is meta or callee.key in vkeys) and callee.key not in seen:
                    todo.append(callee)
    return sorted(out, key=lambda f: f.key)


def _object_names(repo, ctx, with_colls=False):
    """Per context function: the locals that hold an application / route / middleware / request object itself -- the
    conventional names, plus aliases, loop variables over ``<object>.routes`` / ``.middlewares`` / ``.peripherals`` (also
    when that list is named first or handed to a helper) and the parameters of helpers such a local is passed to."""
    objs = dict((fi.key, set(OBJECT_NAMES)) for fi in ctx)
    colls = dict((fi.key, set()) for fi in ctx)       # locals that hold a list of such objects
    by_key = dict((fi.key, fi) for fi in ctx)

    def unwrap(e):
        while isinstance(e, ast.Call) and isinstance(e.func, ast.Name) and e.func.id in SEQ_THROUGH | {'enumerate'} and e.args:
            e = e.args[0]
        return e
    for _ in range(8):
        changed = False
        for fi in ctx:
            cur, cl = objs[fi.key], colls[fi.key]

            def is_coll(e):
                e = unwrap(e)
                return (isinstance(e, ast.Attribute) and e.attr in ('routes', 'middlewares', 'peripherals') and
                        isinstance(e.value, ast.Name) and e.value.id in cur) or (isinstance(e, ast.Name) and e.id in cl)
            for n in walk_body(fi.node):
                new = None
                if isinstance(n, ast.Assign) and len(n.targets) == 1 and isinstance(n.targets[0], ast.Name):
                    if isinstance(n.value, ast.Name) and n.value.id in cur:
                        new = n.targets[0].id
                    elif is_coll(n.value) and n.targets[0].id not in cl:
                        cl.add(n.targets[0].id)
                        changed = True
                elif isinstance(n, (ast.For, ast.comprehension)) and is_coll(n.iter):
                    tg = n.target
                    if isinstance(tg, (ast.Tuple, ast.List)) and len(tg.elts) == 2 and isinstance(n.iter, ast.Call) and call_name(n.iter) == 'enumerate':
                        tg = tg.elts[1]
                    if isinstance(tg, ast.Name):
                        new = tg.id
                elif isinstance(n, ast.Call):
                    callee, skip = resolve_callee(repo, fi, n)
                    if callee is not None and callee.key in by_key:
                        b = bind_args(callee, skip, n) or {}
                        for p, x in b.items():
                            if isinstance(x, ast.Name) and x.id in cur and p not in objs[callee.key]:
                                objs[callee.key].add(p)
                                changed = True
                            elif is_coll(x) and p not in colls[callee.key]:
                                colls[callee.key].add(p)
                                changed = True
                if new is not None and new not in cur:
                    cur.add(new)
                    changed = True
        if not changed:
            break
    return (objs, colls) if with_colls else objs


# ------------------------------------------------------------------------------------------ R18.e
TEXT_METHODS = ('__repr__', '__str__', '__format__', '__unicode__')
GENERATED_REPR = {'attr.s', 'attr.attrs', 'attr.attributes', 'attr.define', 'attr.frozen', 'attr.mutable', 'attrs.define', 'attrs.frozen',
                  'attrs.mutable', 'dataclasses.dataclass'}
FIELD_MAKERS = {'attr.ib', 'attr.attrib', 'attr.attr', 'attr.field', 'attrs.field', 'dataclasses.field'}
MAP_TAG = ('map', 'resources', False)


def _resourceish(name):
    """A name that, by the convention of the framework, denotes a resources mapping."""
    return name == 'resources' or name.endswith('_resources') or name.startswith('resources_')


def _imported_name(mod, e):
    """Dotted name of a decorator / callee expression with the module's import aliases resolved (``attr.s``, ``dataclasses.dataclass``)."""
    if isinstance(e, ast.Call):
        e = e.func
    if isinstance(e, ast.Name):
        imp = mod.imports.get(e.id)
        if imp is not None:
            return imp[0] if imp[1] is None else '%s.%s' % imp
        return e.id
    if isinstance(e, ast.Attribute) and isinstance(e.value, ast.Name):
        imp = mod.imports.get(e.value.id)
        if imp is not None and imp[1] is None:
            return '%s.%s' % (imp[0], e.attr)
        if imp is not None:
            return '%s.%s.%s' % (imp[0], imp[1], e.attr)
    return norm(e)


def _generated_repr_fields(ci):
    """The fields a class decorated with attrs / dataclass prints in its generated ``__repr__`` (None: no generated repr)."""
    deco = None
    for d in ci.node.decorator_list:
        if _imported_name(ci.mod, d) in GENERATED_REPR:
            deco = d
    if deco is None:
        return None
    if isinstance(deco, ast.Call) and any(k.arg == 'repr' and isinstance(k.value, ast.Constant) and k.value.value is False for k in deco.keywords):
        return None
    out = []
    for st in ci.node.body:
        if isinstance(st, ast.Assign) and len(st.targets) == 1 and isinstance(st.targets[0], ast.Name):
            name, value, annotated = st.targets[0].id, st.value, False
        elif isinstance(st, ast.AnnAssign) and isinstance(st.target, ast.Name):
            name, value, annotated = st.target.id, st.value, True
            if 'ClassVar' in norm(st.annotation):
                continue
        else:
            continue
        maker = isinstance(value, ast.Call) and _imported_name(ci.mod, value) in FIELD_MAKERS
        if not (maker or annotated):
            continue
        if maker and any(k.arg == 'repr' and isinstance(k.value, ast.Constant) and k.value.value is False for k in value.keywords):
            continue
        out.append((name, st))
    return out


class _Families(object):
    """For each class of the tree: the classes an instance may belong to as far as the tree tells (bases and subclasses),
    the instance fields they store, and which of these hold a resources mapping."""

    def __init__(self, repo, tn):
        self.repo, self.tn = repo, tn
        self.classes = [c for m in repo.all_internal_modules() for c in m.classes.values()]
        self._mro = dict((c.key, [x for x in repo.mro(c) if not isinstance(x, str) and not x.mod.external]) for c in self.classes)
        self._fam, self._fields = {}, {}

    def family(self, ci):
        f = self._fam.get(ci.key)
        if f is None:
            f = list(self._mro.get(ci.key, [ci]))
            f += [c for c in self.classes if c is not ci and any(x is ci for x in self._mro[c.key])]
            self._fam[ci.key] = f
        return f

    def fields(self, ci):
        """(all instance fields, {field: tags} of the fields a resources mapping is stored in)."""
        r = self._fields.get(ci.key)
        if r is not None:
            return r
        names, derived = set(), {}
        for c in self.family(ci):
            for nm, _ in (_generated_repr_fields(c) or []):
                names.add(nm)
            for m in c.methods.values():
                me = (m.params() or [None])[0]
                if me is None:
                    continue
                penv = dict((x, {MAP_TAG}) for x in _local_names(m) if _resourceish(x))
                for n in _walk(m):
                    if isinstance(n, ast.Attribute) and isinstance(n.ctx, ast.Store) and isinstance(n.value, ast.Name) and n.value.id == me:
                        names.add(n.attr)
                for f, t in self.tn._fields_stored(m, penv):
                    if t[0] in ('map', 'items', 'pair', 'enum'):
                        derived.setdefault(f, set()).add(t)
        r = self._fields[ci.key] = (names, derived)
        return r

    def text_tag(self, ci):
        names, derived = self.fields(ci)
        sens = sorted(f for f in names if _resourceish(f) or _secretish(f) or f in derived)
        flat = tuple(sorted(((f, t) for f, ts in derived.items() for t in ts), key=lambda x: (x[0], x[1][0], str(x[1][1]))))
        self.tn._classes[ci.key] = ci
        return ('obj', ci.key, flat, tuple(sens), 'text')

    def self_closure(self, ci, root):
        """``root`` and the methods of the family it calls on its own object (transitively)."""
        out, todo = [], [root]
        fam = self.family(ci)
        while todo:
            m = todo.pop()
            if any(m is x for x in out) or any(norm(d) in ('staticmethod', 'classmethod') for d in m.node.decorator_list):
                continue
            out.append(m)
            me = (m.params() or [None])[0]
            for n in _walk(m):
                f = n.func if isinstance(n, ast.Call) else (n if isinstance(n, ast.Attribute) and isinstance(n.ctx, ast.Load) else None)
                if isinstance(f, ast.Attribute) and isinstance(f.value, ast.Name) and f.value.id == me:
                    for c in fam:
                        t = c.methods.get(f.attr)
                        if t is not None and (isinstance(n, ast.Call) or any(norm(d) in ('property', 'cached_property') for d in t.node.decorator_list)):
                            todo.append(t)
        return out


def _r18e(rep, repo, meta):
    """No textual representation of an object of the tree is secret-bearing.

    The meta views print host objects they know nothing about -- ``repr()`` of resource values, middlewares, endpoints
    (the repr of a bound method contains the repr of its instance), exceptions -- so whatever a ``__repr__`` / ``__str__`` /
    ``__format__`` of a class of the tree (hand-written or generated by attrs / dataclass) prints can end up on the
    page: it must not print the values of a resources mapping (the field ``resources``, any field such a mapping was
    stored in), a field named like key material, or the whole instance dictionary of an object that has such fields.
    The same holds for the methods the views call on an application / route / middleware object, and for the views
    themselves reading ``vars()`` / ``__dict__`` / a run-time-chosen attribute of such an object."""
    tn = _Taint(repo, meta)
    fams = _Families(repo, tn)
    mwbase = repo.mod('clastic.middleware.core').cls('Middleware')
    n_text = 0
    judged = set()

    def judge(c, r, why):
        if r.key in judged:
            return
        judged.add(r.key)
        tag = fams.text_tag(c)
        for m in fams.self_closure(c, r):
            tn.scan(m, {m.params()[0]: {tag}} if m.params() else {})
        me = (r.params() or ['self'])[0]
        read, wide = _self_reads(repo, r, me)
        bad = sorted(a for a in read if _secretish(a))
        rep.check('R18.e', fkey(r, 'attributes shown'), not bad, '%s.%s (%s) reads %s' % (c.name, r.name, why, sorted(read)) if not bad else
                  '%s.%s (%s) reads %s: key material would be shown on the meta page' % (c.name, r.name, why, bad), r.mod, r.node)

    for c in fams.classes:
        for nm in TEXT_METHODS:
            r = c.methods.get(nm)
            if r is not None and r.params():
                n_text += 1
                judge(c, r, 'printed wherever an instance is printed')
            elif r is None and nm in c.class_attrs:
                # ``__str__ = <function>`` in the class body
                v = c.class_attrs[nm]
                if isinstance(v, ast.Name) and v.id in c.methods:
                    continue
                if isinstance(v, ast.Attribute) and norm(v) in ('object.__repr__', 'object.__str__'):
                    continue
                g = None
                if isinstance(v, ast.Name):
                    kind, m, obj = repo.resolve(c.mod, v.id)
                    if kind == 'func' and m is not None and not m.external and obj.params():
                        g = obj
                if g is None:
                    raise AnalysisError('%s.%s is assigned (%s), not defined: what it prints cannot be followed' % (c.name, nm, short(v, 40) if v is not None else None))
                n_text += 1
                judge(c, g, 'installed as %s.%s' % (c.name, nm))
        gen = _generated_repr_fields(c)
        if gen is not None and '__repr__' not in c.methods:
            n_text += 1
            _, derived = fams.fields(c)
            bad = [(f, st) for f, st in gen if _resourceish(f) or _secretish(f) or f in derived]
            rep.check('R18.e', '%s::generated repr' % c.key, not bad, 'the generated repr of %s prints the fields %s' % (c.name, [f for f, _ in gen]) if not bad else
                      'the generated repr of %s prints the field(s) %s (every field without repr=False is printed): resource values / key '
                      'material would be shown wherever an instance is printed' % (c.name, [f for f, _ in bad]), c.mod, bad[0][1] if bad else c.node)
    if n_text < 6:
        raise AnalysisError('only %d textual representations (__repr__ / __str__ / generated) found in the tree (floor 6)' % n_text)
    # the views: methods they call on an application / route / middleware object, and wide reads of such an object
    ctx = _context_functions(repo, meta)
    objs = _object_names(repo, ctx)
    from ..callgraph import CallGraph
    from ..loader import FuncInfo
    cg = CallGraph(repo)
    n_calls = 0
    for fi in ctx:
        names = objs[fi.key] - {'self'}
        for e in cg.callees(fi):
            if isinstance(e.callee, FuncInfo) and e.kind in ('role', 'cha') and isinstance(e.node.func, ast.Attribute) and \
                    _root_name(e.node.func.value) in names and not e.callee.mod.external:
                c = _class_of(e.callee)
                if c is not None and e.callee.params() and e.callee.name not in TEXT_METHODS:
                    n_calls += 1
                    judge(c, e.callee, 'called by %s, the result goes to the page' % fi.qualname)
        for n in walk_body(fi.node):
            x, how = None, None
            if isinstance(n, ast.Attribute) and n.attr == '__dict__' and isinstance(n.value, ast.Name):
                x, how = n.value.id, '.__dict__'
            elif isinstance(n, ast.Call) and call_name(n) == 'vars' and len(n.args) == 1 and isinstance(n.args[0], ast.Name) and 'vars' not in _local_names(fi):
                x, how = n.args[0].id, 'vars()'
            elif isinstance(n, ast.Call) and call_name(n) == 'getattr' and len(n.args) >= 2 and isinstance(n.args[0], ast.Name) and 'getattr' not in _local_names(fi):
                cs = tn._const_strings(fi, n.args[1])
                if cs == {'resources'} and _fold_str(repo, fi, n.args[1]) == 'resources':
                    continue          # the plain read of the mapping: a source of R18.a's value flow
                if not cs or any(_resourceish(a) or _secretish(a) or a == '__dict__' for a in cs):
                    x, how = n.args[0].id, 'getattr(.., %s)' % short(n.args[1], 30)
            if x is not None and x in names:
                rep.fail('R18.e', fkey(fi, n), '%s reads %s of the %s object: the instance dictionary (resources mapping, keys) / an attribute '
                         'chosen at run time reaches the page' % (fi.qualname, how, x), fi.mod, n)
    _report_taint(rep, 'R18.e', tn, ' (printed wherever such an object is printed: repr() of an endpoint, a bound method, a resource value, ..)')
    rep.ok('R18.e', '%s::textual representations' % META, '%d textual representations of classes of the tree and %d methods called by the views on '
           'application / route / middleware objects judged' % (n_text, n_calls), meta)
    rep.floor('R18.e', 8)


# ------------------------------------------------------------------------------------------ R18.f
# Abstract kinds of the values the views put into the page context.  Only kinds the JSON encoder of the tree is *certain*
# to reject are tracked (everything else -- texts, numbers, containers of those, attributes of host objects, results of
# external calls -- is "unknown / fine"):
K_CLASS, K_CALLABLE, K_EXC, K_LAZY, K_MODULE, K_INSTANCE = 'a class object', 'a function / bound method', 'an exception object', \
    'a lazy iterator (generator / map / zip ..)', 'a module object', 'an instance of a class of the tree without a JSON form'
# provenance: a value the views take *by name* through the injector can be an object of the host (see _host_params)
K_HOST = 'a value injected by name that the host application can supply -- an object of unknown kind, never converted to text'
SCALAR_CALLS = {'repr', 'str', 'unicode', 'ascii', 'len', 'int', 'float', 'bool', 'format', 'hex', 'oct', 'bin', 'id', 'round', 'sum', 'min', 'max',
                'abs', 'ord', 'chr', 'hash', 'isinstance', 'issubclass', 'callable', 'hasattr', 'any', 'all', 'bytes2human'}
MATERIALISE = {'list', 'tuple', 'sorted', 'set', 'frozenset', 'dict'}
LAZY_CALLS = {'map', 'filter', 'zip', 'iter', 'reversed', 'enumerate'}
LAZY_ITERTOOLS = {'chain', 'islice', 'starmap', 'groupby', 'takewhile', 'dropwhile', 'count', 'cycle', 'repeat', 'accumulate', 'product', 'zip_longest',
                  'chain.from_iterable'}
STORING = ('update', 'append', 'extend', 'insert', 'add', 'setdefault')
JSON_FORM_METHODS = ('to_dict', 'asdict', 'isoformat')
CALLABLE_ATTRS = {'endpoint', '__func__', '__call__', '__init__', 'func', 'fget'}
TEXT_ATTRS = {'__name__', '__module__', '__doc__', '__qualname__'}


class _Kinds(object):
    def __init__(self, repo):
        self.repo = repo
        self._busy = set()
        self.host_params = {}          # function key -> names of the parameters the host can supply (K_HOST)

    def _host_value(self, fi, e):
        """The occurrence ``e`` of a host-suppliable parameter still holds whatever the host supplied: the name is not
        re-bound by a statement of the function body in front of it, and no ``isinstance(<name>, ..)`` test is known to
        hold where it is evaluated (then its kind is no longer unknown)."""
        if e.id not in self.host_params.get(fi.key, ()):
            return False
        for st in fi.node.body:
            if getattr(st, 'end_lineno', st.lineno) >= e.lineno:
                break
            if isinstance(st, (ast.Assign, ast.AnnAssign)) and st.value is not None and \
                    any(isinstance(t, ast.Name) and t.id == e.id for t in (st.targets if isinstance(st, ast.Assign) else [st.target])):
                return False
        try:
            known = expr_conds(fi, e)
        except AnalysisError:
            known = []
        for test, pol in known:
            if pol and isinstance(test, ast.Call) and call_name(test) == 'isinstance' and len(test.args) == 2 and \
                    isinstance(test.args[0], ast.Name) and test.args[0].id == e.id:
                return False
        return True

    def of(self, fi, e, depth=0):
        """{kind: node} for the rejected kinds the value of ``e`` may have (or contain)."""
        out = {}
        if e is None or depth > 12:
            return out

        def add(d):
            for k, v in d.items():
                out.setdefault(k, v)
        if isinstance(e, (ast.Constant, ast.JoinedStr, ast.Compare, ast.UnaryOp, ast.BinOp, ast.Subscript, ast.Await)):
            return out
        if isinstance(e, ast.Lambda):
            return {K_CALLABLE: e}
        if isinstance(e, ast.GeneratorExp):
            out[K_LAZY] = e
            add(self.of(fi, e.elt, depth + 1))
            return out
        if isinstance(e, (ast.ListComp, ast.SetComp)):
            return self.of(fi, e.elt, depth + 1)
        if isinstance(e, ast.DictComp):
            return self.of(fi, e.value, depth + 1)
        if isinstance(e, ast.Dict):
            for v in e.values:
                add(self.of(fi, v, depth + 1))
            return out
        if isinstance(e, (ast.List, ast.Tuple, ast.Set)):
            for v in e.elts:
                add(self.of(fi, v, depth + 1))
            return out
        if isinstance(e, ast.Starred):
            return self.of(fi, e.value, depth + 1)
        if isinstance(e, ast.IfExp):
            add(self.of(fi, e.body, depth + 1))
            add(self.of(fi, e.orelse, depth + 1))
            return out
        if isinstance(e, ast.BoolOp):
            for v in e.values:
                add(self.of(fi, v, depth + 1))
            return out
        if isinstance(e, ast.NamedExpr):
            return self.of(fi, e.value, depth + 1)
        if isinstance(e, ast.Attribute):
            if e.attr == '__class__':
                return {K_CLASS: e}
            if e.attr in TEXT_ATTRS:
                return out
            if e.attr in CALLABLE_ATTRS:
                return {K_CALLABLE: e}
            if isinstance(e.value, ast.Name) and e.value.id in ('self', 'cls') and e.value.id in fi.params()[:1]:
                ci = _class_of(fi)
                if ci is not None and e.attr not in ci.class_attrs:
                    m = self.repo.find_method(ci, e.attr)
                    if m is not None and not any(norm(d) in ('property', 'cached_property') for d in m.node.decorator_list):
                        return {K_CALLABLE: e}
            return out
        if isinstance(e, ast.Call):
            return self._call(fi, e, depth)
        if isinstance(e, ast.Name):
            return self._name(fi, e, depth)
        return out

    def _call(self, fi, e, depth):
        f = e.func
        nm = call_name(e) if isinstance(f, ast.Name) else None
        loc = _local_names(fi)
        if nm is not None and nm not in loc:
            if nm == 'type' and len(e.args) == 1:
                return {K_CLASS: e}
            if nm in SCALAR_CALLS:
                return {}
            if nm in MATERIALISE:
                out = {}
                for a in e.args:
                    for k, v in self.of(fi, a, depth + 1).items():
                        if not (k == K_LAZY and v is a):
                            out.setdefault(k, v)
                for k in e.keywords:
                    for kk, v in self.of(fi, k.value, depth + 1).items():
                        out.setdefault(kk, v)
                return out
            if nm in LAZY_CALLS:
                return {K_LAZY: e}
        d = norm(f)
        if d.startswith('itertools.') and d[len('itertools.'):] in LAZY_ITERTOOLS:
            return {K_LAZY: e}
        if nm is not None and nm in LAZY_ITERTOOLS and nm not in loc and (fi.mod.imports.get(nm) or ('',))[0] == 'itertools':
            return {K_LAZY: e}
        callee, skip = resolve_callee(self.repo, fi, e)
        if callee is None:
            return {}
        if callee.name == '__init__' and skip == 1 and isinstance(f, ast.Name):
            ci = _class_of(callee)
            fam = [c for c in self.repo.mro(ci)] if ci is not None else []
            if ci is not None and all(not isinstance(c, str) or c == 'object' for c in fam):
                have = set(m for c in fam if not isinstance(c, str) for m in c.methods)
                if not (have & set(JSON_FORM_METHODS)) and not ({'__len__', '__iter__'} <= have):
                    return {K_INSTANCE: e}
            return {}
        if (callee.key, 'ret') in self._busy:
            return {}
        self._busy.add((callee.key, 'ret'))
        try:
            if _is_generator(callee):
                return {K_LAZY: e}
            out = {}
            for r in returns_of(callee):
                for k, v in self.of(callee, r.value, depth + 1).items():
                    out.setdefault(k, v)
            return out
        finally:
            self._busy.discard((callee.key, 'ret'))

    def _name(self, fi, e, depth):
        name = e.id
        out = {}
        if self._host_value(fi, e):
            out[K_HOST] = e
        if name not in _local_names(fi):
            nested = nested_function(fi, name)
            if nested is not None:
                return {K_CALLABLE: e}
            if name in fi.mod.imports and fi.mod.imports[name][1] is None:
                return {K_MODULE: e}
            kind, m, obj = self.repo.resolve(fi.mod, name)
            if kind == 'func':
                return {K_CALLABLE: e}
            if kind == 'class':
                return {K_CLASS: e}
            if kind == 'module':
                return {K_MODULE: e}
            return out
        key = (fi.key, name)
        if key in self._busy:
            return out
        self._busy.add(key)
        try:
            for n in _walk(fi):
                vals = []
                if isinstance(n, (ast.Assign, ast.AnnAssign, ast.AugAssign)) and n.value is not None:
                    for t in (n.targets if isinstance(n, ast.Assign) else [n.target]):
                        if isinstance(t, ast.Name) and t.id == name:
                            vals.append(n.value)
                        elif isinstance(t, ast.Subscript) and _root_name(t) == name:
                            vals.append(n.value)          # name[k] = value
                        elif isinstance(t, (ast.Tuple, ast.List)) and isinstance(n.value, (ast.Tuple, ast.List)) and len(t.elts) == len(n.value.elts):
                            for tt, vv in zip(t.elts, n.value.elts):
                                if (isinstance(tt, ast.Name) and tt.id == name) or (isinstance(tt, ast.Subscript) and _root_name(tt) == name):
                                    vals.append(vv)
                elif isinstance(n, ast.NamedExpr) and isinstance(n.target, ast.Name) and n.target.id == name:
                    vals.append(n.value)
                elif isinstance(n, ast.ExceptHandler) and n.name == name:
                    out.setdefault(K_EXC, n)
                elif isinstance(n, (ast.FunctionDef, ast.AsyncFunctionDef)) and n.name == name:
                    out.setdefault(K_CALLABLE, n)
                elif isinstance(n, ast.ClassDef) and n.name == name:
                    out.setdefault(K_CLASS, n)
                elif isinstance(n, (ast.Import, ast.ImportFrom)) and any((a.asname or a.name.split('.')[0]) == name for a in n.names) and isinstance(n, ast.Import):
                    out.setdefault(K_MODULE, n)
                elif isinstance(n, ast.Call) and isinstance(n.func, ast.Attribute) and n.func.attr in STORING and _root_name(n.func.value) == name:
                    vals.extend(n.args[-1:] if n.func.attr in ('insert', 'setdefault') else n.args)
                    vals.extend(k.value for k in n.keywords)
                for v in vals:
                    for k, x in self.of(fi, v, depth + 1).items():
                        if k == K_LAZY and isinstance(n, ast.Call) and n.func.attr in ('extend', 'update') and any(x is a for a in n.args):
                            continue          # consumed on the spot
                        out.setdefault(k, x)
        finally:
            self._busy.discard(key)
        return out


def _json_dev_mode(repo, meta, init):
    """True only when every renderer named in the route table of the meta application is provably a JSON renderer in
    'dev mode' (which falls back to repr() instead of rejecting a value)."""
    found = []
    for n in _walk(init):
        if isinstance(n, ast.Tuple) and len(n.elts) == 3 and isinstance(n.elts[2], ast.Name):
            kind, m, obj = repo.resolve(init.mod, n.elts[2].id)
            if kind != 'value' or len(obj) != 1 or not isinstance(obj[0], ast.Call):
                continue
            call = obj[0]
            c = repo.resolve_class(m, call.func)
            if isinstance(c, str) or repo.find_method(c, '__init__') is None:
                continue
            b = bind_args(repo.find_method(c, '__init__'), 1, call)
            if b is None:
                found.append(False)
                continue
            v = b.get('dev_mode')
            if v is None:
                a = repo.find_method(c, '__init__').node.args
                names = [x.arg for x in a.posonlyargs + a.args]
                dflt = dict(zip(names[len(names) - len(a.defaults):], a.defaults))
                v = dflt.get('dev_mode')
            found.append(isinstance(v, ast.Constant) and v.value is True)
    return bool(found) and all(found)


def _resource_layering(repo):
    """How the injector's name table is layered at request time, read from ``BoundRoute.execute`` (the dict handed to
    ``inject``: which layer is applied last wins) and ``Application.dispatch`` (what the dispatching application passes to
    ``execute``): 'host' when the call-time keyword arguments -- which carry the resources of the dispatching (host)
    application -- are applied over the bound route's own resources, 'own' when provably the route's own resources are
    applied last or the dispatching application hands no resources on, None when the shape is not read (then the host is
    taken to be able to supply a name: nothing shows that it cannot)."""
    try:
        route = repo.mod('clastic.route')
        ex = route.func('BoundRoute.execute')
        kw = ex.node.args.kwarg.arg if ex.node.args.kwarg is not None else None
        inj = [c for c in walk_body(ex.node) if isinstance(c, ast.Call) and call_name(c) == 'inject' and len(c.args) >= 2]
        if len(inj) != 1 or kw is None:
            return None
        ls = layers_of_value(ex.node, inj[0].args[1])
        i_res = [i for i, l in enumerate(ls) if l.kind == 'source' and isinstance(l.node, ast.Attribute) and l.node.attr == 'resources']
        i_kw = [i for i, l in enumerate(ls) if l.kind == 'source' and isinstance(l.node, ast.Name) and l.node.id == kw]
        if not i_kw:
            return 'own' if i_res and all(l.kind == 'literal' or i in i_res for i, l in enumerate(ls)) else None
        if not i_res:
            return 'host'
        order = 'host' if max(i_kw) > max(i_res) else 'own'
        if order == 'host':
            # does the dispatching application hand its resources on at all?
            app = repo.mod('clastic.application')
            dp = app.func('Application.dispatch')
            if not any(isinstance(n, ast.Attribute) and n.attr == 'resources' for n in ast.walk(dp.node)):
                exe = [c for c in walk_body(dp.node) if isinstance(c, ast.Call) and isinstance(c.func, ast.Attribute) and c.func.attr == 'execute']
                if len(exe) == 1:
                    return 'own'
        return order
    except (AnalysisError, KeyError, AttributeError):
        return None


def _own_tables(repo, meta):
    """(constant keys of the meta application's own resources or None, names its own middlewares provide, whether every one
    of its middlewares was read) -- from the arguments of the base-class ``__init__`` call in the meta application's
    constructor.  A middleware's ``provides`` is its class attribute, or the ``self.provides = ..`` of its constructor with
    the constructor's parameters bound to the constants of the call / their defaults."""
    mapp = meta.cls('MetaApplication')
    init = repo.find_method(mapp, '__init__')
    kind, m, app = repo.resolve(mapp.mod, 'Application')
    base_init = repo.find_method(app, '__init__') if kind == 'class' else None
    if init is None or base_init is None:
        return None, set(), False
    calls = [c for c in _walk(init) if isinstance(c, ast.Call) and isinstance(c.func, ast.Attribute) and c.func.attr == '__init__']
    if len(calls) != 1:
        return None, set(), False
    call = calls[0]
    explicit_self = not (isinstance(call.func.value, ast.Call) and call_name(call.func.value) == 'super')
    b = bind_args(base_init, 0 if explicit_self else 1, call)
    if b is None:
        return None, set(), False
    keys = None
    if b.get('resources') is not None:
        try:
            ls = layers_of_value(init.node, b['resources'])
            if ls and all(l.kind == 'literal' for l in ls):
                keys = set(k for l in ls for k in l.keys)
        except AnalysisError:
            keys = None
    mws = b.get('middlewares')
    if mws is None:
        return keys, set(), True
    if isinstance(mws, ast.Name):
        mws = _single_assignment(init, mws.id)
        if mws is not None and any(isinstance(n, ast.Call) and isinstance(n.func, ast.Attribute) and n.func.attr in STORING and
                                   isinstance(n.func.value, ast.Name) and n.func.value.id == b['middlewares'].id for n in _walk(init)):
            mws = None
    if not isinstance(mws, (ast.List, ast.Tuple)):
        return keys, set(), False
    provided, complete = set(), True
    for el in mws.elts:
        got = _provides_of(repo, init, el)
        if got is None:
            complete = False
        else:
            provided |= got
    return keys, provided, complete


def _provides_of(repo, fi, el):
    """Names the middleware constructed by ``el`` provides to the endpoint (None when that is not read)."""
    if not isinstance(el, ast.Call):
        return None
    try:
        ci = repo.resolve_class(fi.mod, el.func)
    except AnalysisError:
        return None
    if ci is None or isinstance(ci, str):
        return None
    out = set()
    for attr in ('provides', 'endpoint_provides'):
        cinit = repo.find_method(ci, '__init__')
        stores = [n for c in repo.mro(ci) if not isinstance(c, str) for mm in c.methods.values() for n in _walk(mm)
                  if isinstance(n, ast.Attribute) and n.attr == attr and isinstance(n.ctx, ast.Store)]
        if not stores:
            dc, val = repo.class_attr(ci, attr)
            if dc is None:
                return None
            v = repo.try_fold(val, dc.mod) if val is not None else None
            if not isinstance(v, (tuple, list)) or not all(isinstance(x, str) for x in v):
                return None
            out |= set(v)
            continue
        if cinit is None or cinit.mod.external or len(stores) != 1:
            return None
        st = cinit.mod.parents.get(stores[0])
        if not (isinstance(st, ast.Assign) and st in cinit.node.body and len(st.targets) == 1 and isinstance(st.value, (ast.Tuple, ast.List))):
            return None
        b = bind_args(cinit, 1, el)
        if b is None:
            return None
        a = cinit.node.args
        names = [x.arg for x in a.posonlyargs + a.args]
        dflt = dict(zip(names[len(names) - len(a.defaults):], a.defaults))
        rebound = set(n.id for n in ast.walk(cinit.node) if isinstance(n, ast.Name) and isinstance(n.ctx, ast.Store))
        for x in st.value.elts:
            if isinstance(x, ast.Name) and x.id in names and x.id not in rebound:
                x = b.get(x.id, dflt.get(x.id))
            v = repo.try_fold(x, cinit.mod) if isinstance(x, ast.expr) and not any(isinstance(n, ast.Name) and n.id in names for n in ast.walk(x)) else None
            if not isinstance(v, str):
                return None
            out.add(v)
    return out


def _host_params(rep, repo, meta, kinds, ctx):
    """Fills ``kinds.host_params``: the parameters of the views that the *host* application can supply.

    A routed method of the meta application is called by the injector: every parameter is looked up by name.  The built-in
    names (RESERVED_ARGS of route.py) are bound by the framework and refused as resource names; a name one of the meta
    application's own middlewares provides is bound by the middleware chain, inside the name table; every other name is
    looked up in the layered resources -- and the layering (``_resource_layering``) decides whose value wins: with the
    dispatching application's resources applied last, a resource of the *host* shadows the meta application's own of the
    same name.  The parameters of the peripheral methods called through ``inject(<peripheral>.<method>, <dict>)`` are
    what the routed method puts into that dict: host-suppliable where the entry is."""
    route = repo.mod('clastic.route')
    reserved = repo.try_fold(ast.Name(id='RESERVED_ARGS', ctx=ast.Load()), route)
    if not isinstance(reserved, (tuple, list)) or not all(isinstance(x, str) for x in reserved):
        raise AnalysisError('R18.f: the built-in names of the injector (RESERVED_ARGS of route.py) were not read')
    reserved = set(reserved)
    layering = _resource_layering(repo)
    own_keys, provided, complete = _own_tables(repo, meta)
    mapp = meta.cls('MetaApplication')
    routed = _routed_methods(repo, meta, mapp)
    views = set(f.key for f in _view_functions(repo, meta))
    n = 0
    for r in routed:
        hp = set()
        for p in r.params()[1:]:
            if p in reserved or p in provided:
                continue
            if own_keys is not None and p in own_keys:
                if layering != 'own':
                    hp.add(p)
            elif complete:
                hp.add(p)
        kinds.host_params[r.key] = hp
        n += len(hp)
    # what the routed methods hand to the peripherals through the injector
    wanted = set(f.name for f in ctx if _class_of(f) is not None) | {'get_context', 'get_general_items', 'render_main_page_html'}
    for r in routed:
        for cf, call, chain in _inject_calls(repo, r, wanted, views=views):
            if not _is_inject(cf, call) or len(call.args) < 2:
                continue
            target = call.args[0]
            if isinstance(target, ast.Name):
                target = _single_assignment(cf, target.id)
            if not isinstance(target, ast.Attribute):
                continue
            try:
                ls = layers_of_value(cf.node, call.args[1])
            except AnalysisError:
                continue
            values = {}
            for l in ls:
                if l.kind == 'literal':
                    values.update(l.values or {})
            for t in ctx:
                if t.name != target.attr or _class_of(t) is None:
                    continue
                for p in t.params()[1:]:
                    v = values.get(p)
                    if v is not None and K_HOST in kinds.of(cf, v):
                        kinds.host_params.setdefault(t.key, set()).add(p)
                        n += 1
    rep.ok('R18.f', '%s::injected names' % META, 'request-time layering of the resources: %s; built-in names %s; names the meta application\'s own '
           'middlewares provide: %s%s; host-suppliable parameters of the views: %d'
           % ({'host': 'the dispatching application\'s resources are applied last', 'own': 'the bound route\'s own resources win',
               None: 'not read (the host is taken to be able to supply a name)'}[layering], sorted(reserved), sorted(provided),
              '' if complete else ' (not all read)', n), meta)


def _r18f(rep, repo, meta):
    """Whatever the views return is fed to the JSON encoder (and to the templates): no value the encoder is certain to
    reject -- a class, a function / bound method, an exception object, a lazy iterator, a module, a plain instance of
    a class of the tree -- is put into a page context, on any path."""
    gmn = meta.func('MetaApplication.get_main')
    init = meta.func('MetaApplication.__init__')
    if _json_dev_mode(repo, meta, init):
        rep.ok('R18.f', '%s::json renderer' % META, 'the JSON view is rendered in dev mode: values the encoder does not know are shown by repr()', meta)
        return
    ctx = _context_functions(repo, meta)
    kinds = _Kinds(repo)
    _host_params(rep, repo, meta, kinds, ctx)
    n = 0
    for fi in ctx + [gmn]:
        gen = _is_generator(fi)
        outs = [r.value for r in returns_of(fi) if r.value is not None]
        if gen:
            outs += [y.value for y in walk_body(fi.node) if isinstance(y, (ast.Yield, ast.YieldFrom)) and y.value is not None]
        bad = {}
        for v in outs:
            for k, x in kinds.of(fi, v).items():
                bad.setdefault(k, x)
        n += 1
        first = sorted(bad.items(), key=lambda kv: kv[0])[0] if bad else None
        rep.check('R18.f', fkey(fi, 'kinds of the context values'), not bad,
                  '%d returned value(s): texts, numbers, containers, attributes of host objects, results of calls' % len(outs) if not bad else
                  '%s puts %s (%s) into the page context: the JSON encoder rejects it (TypeError => the JSON view answers 500)'
                  % (fi.qualname, first[0], short(first[1], 50)), fi.mod, first[1] if bad else fi.node)
    rep.floor('R18.f', 8)


# ------------------------------------------------------------------------------------------ R18.b
def _mw_reads(repo, fi, scope_nodes, mv, attrs, depth=0):
    """What is read from the middleware held by local ``mv`` in the given nodes (followed into helpers of the tree
    the middleware is handed to)."""
    for n in scope_nodes:
        if isinstance(n, ast.Attribute) and isinstance(n.value, ast.Name) and n.value.id == mv:
            attrs.add(n.attr)
        if isinstance(n, ast.Call) and call_name(n) in ('vars', 'getattr', 'dir') and n.args and norm(n.args[0]) == mv:
            attrs.add('<%s>' % call_name(n))
        if isinstance(n, ast.Call) and depth < 3:
            callee, skip = resolve_callee(repo, fi, n)
            if callee is None:
                continue
            b = bind_args(callee, skip, n)
            if b is None:
                if any(isinstance(x, ast.Name) and x.id == mv for x in ast.walk(n)):
                    attrs.add('<%s(...)>' % short(n.func, 30))
                continue
            for p, x in b.items():
                if isinstance(x, ast.Name) and x.id == mv:
                    _mw_reads(repo, callee, list(walk_body(callee.node)), p, attrs, depth + 1)


def _single_assignment(fi, name):
    """The value of local ``name`` when it is assigned exactly once in the function (and is not a parameter)."""
    if name in fi.params():
        return None
    srcs = [s.value for s in stmts_of(fi.node) if isinstance(s, ast.Assign) and len(s.targets) == 1 and
            isinstance(s.targets[0], ast.Name) and s.targets[0].id == name]
    stores = [n for n in ast.walk(fi.node) if isinstance(n, ast.Name) and n.id == name and isinstance(n.ctx, (ast.Store, ast.Del))]
    return srcs[0] if len(srcs) == 1 and len(stores) == 1 else None


def _mw_scopes(repo, fi, coll_names, depth=0, seen=None):
    """[(function, nodes, local)]: the places where one middleware of the application's list is held by ``local`` --
    the body of a loop / the element of a comprehension over the list, the function mapped over it, followed into the
    helpers of the tree the list is handed to."""
    def unwrap(e):
        while True:
            if isinstance(e, ast.Call) and isinstance(e.func, ast.Name) and e.func.id in ('enumerate', 'list', 'tuple', 'reversed', 'sorted', 'iter') and e.args:
                e = e.args[0]
            elif isinstance(e, ast.Subscript) and isinstance(e.slice, ast.Slice):
                e = e.value
            else:
                return e

    def is_coll(e, d=0):
        e = unwrap(e)
        if isinstance(e, ast.Attribute) and e.attr == 'middlewares':
            return True
        if isinstance(e, ast.Name):
            if e.id in coll_names:
                return True
            v = _single_assignment(fi, e.id) if d < 3 else None
            return v is not None and is_coll(v, d + 1)
        return False

    def element_name(b):
        if isinstance(b.target, ast.Name):
            return b.target.id
        if isinstance(b.target, (ast.Tuple, ast.List)) and len(b.target.elts) == 2 and isinstance(b.target.elts[1], ast.Name) and \
                isinstance(b.iter, ast.Call) and call_name(b.iter) == 'enumerate':
            return b.target.elts[1].id
        return None
    out = []
    seen = set() if seen is None else seen
    if depth > 3 or (fi.key, tuple(sorted(coll_names))) in seen:
        return out
    seen.add((fi.key, tuple(sorted(coll_names))))
    mod = fi.mod
    for n in walk_body(fi.node):
        if isinstance(n, (ast.For, ast.comprehension)) and is_coll(n.iter):
            mv = element_name(n)
            if mv is None:
                raise AnalysisError('%s: loop over the middlewares with an unrecognised target (%s)' % (fi.qualname, short(n.target, 40)))
            if isinstance(n, ast.For):
                scope = [x for s in n.body + n.orelse for x in ast.walk(s)]
            else:
                comp = mod.parents.get(n)
                scope = [x for x in ast.walk(comp) if not any(x is y for y in ast.walk(n.iter))]
            out.append((fi, scope, mv))
        elif isinstance(n, ast.Call) and call_name(n) == 'map' and len(n.args) == 2 and not n.keywords and is_coll(n.args[1]):
            f = n.args[0]
            if isinstance(f, ast.Lambda) and len(f.args.args) == 1:
                out.append((fi, list(ast.walk(f.body)), f.args.args[0].arg))
                continue
            if isinstance(f, ast.Name) and f.id in _local_names(fi):     # a local that names the function
                v = _single_assignment(fi, f.id)
                f = v if v is not None else f
            callee, skip = resolve_callee(repo, fi, ast.Call(func=f, args=[], keywords=[]))
            ps = callee.params()[skip:] if callee is not None else []
            if not ps:
                raise AnalysisError('%s: function mapped over the middlewares cannot be resolved (%s)' % (fi.qualname, short(f, 40)))
            out.append((callee, list(walk_body(callee.node)), ps[0]))
        elif isinstance(n, ast.Call):
            callee, skip = resolve_callee(repo, fi, n)
            if callee is None:
                continue
            b = bind_args(callee, skip, n)
            passed = [p for p, x in (b or {}).items() if is_coll(x)]
            for p in passed:
                out.extend(_mw_scopes(repo, callee, {p}, depth + 1, seen))
            if not passed and (callee.mod is mod or (not callee.mod.external and any(
                    isinstance(x, ast.Name) and (x.id in fi.params() or x.id in OBJECT_NAMES) for x in list(n.args) + [k.value for k in n.keywords]))):
                # the helper may be handed the application and iterate its middlewares itself (a helper of the same module,
                # or one of another module of the package that is handed the application / a parameter of this function)
                out.extend(_mw_scopes(repo, callee, set(), depth + 1, seen))
    return out


def _self_reads(repo, fi, me, depth=0):
    """(attribute names read from the object held by ``me``, reads whose name is not known statically) in ``fi`` and in
    the methods / functions of the tree the object is handed to."""
    attrs, wide = set(), []
    for n in walk_body(fi.node):
        if isinstance(n, ast.Attribute) and isinstance(n.value, ast.Name) and n.value.id == me:
            if n.attr == '__dict__':
                wide.append('__dict__')
            else:
                attrs.add(n.attr)
        elif isinstance(n, ast.Call) and call_name(n) in ('vars', 'dir') and n.args and norm(n.args[0]) == me:
            wide.append('%s()' % call_name(n))
        elif isinstance(n, ast.Call) and call_name(n) in ('getattr', 'hasattr') and len(n.args) >= 2 and norm(n.args[0]) == me:
            nm = repo.try_fold(n.args[1], fi.mod)
            if isinstance(nm, str) and not (isinstance(n.args[1], ast.Name) and n.args[1].id in _local_names(fi)):
                attrs.add(nm)
            elif call_name(n) == 'getattr':
                wide.append('getattr(%s, %s)' % (me, short(n.args[1], 30)))
        if isinstance(n, ast.Call) and depth < 2:
            callee, skip = resolve_callee(repo, fi, n)
            if callee is None or callee.name in ('__repr__', '__str__', '__init__'):
                continue
            if skip == 1 and isinstance(n.func, ast.Attribute) and isinstance(n.func.value, ast.Name) and n.func.value.id == me:
                a, w = _self_reads(repo, callee, (callee.params() or [me])[0], depth + 1)
                attrs |= a
                wide += w
            b = bind_args(callee, skip, n) or {}
            for p, x in b.items():
                if isinstance(x, ast.Name) and x.id == me:
                    a, w = _self_reads(repo, callee, p, depth + 1)
                    attrs |= a
                    wide += w
    return attrs, wide


def _r18b(rep, repo, meta):
    gm = meta.func('get_mw_infos')
    seen_scopes = set()
    scopes = _mw_scopes(repo, gm, set(), seen=seen_scopes)
    if len(scopes) != 1:
        raise AnalysisError('get_mw_infos: %d iterations over the middlewares found (one expected)' % len(scopes))
    sf, scope, mv = scopes[0]
    attrs = set()
    _mw_reads(repo, sf, scope, mv, attrs)
    ok = attrs <= MW_ATTRS
    rep.check('R18.b', fkey(gm, 'attributes read'), ok, 'only %s (and repr(mw)) are read from a middleware' % sorted(attrs) if ok else
              'get_mw_infos reads %s from middlewares' % sorted(attrs - MW_ATTRS), gm.mod, gm.node)
    # the same standard wherever else a view holds one middleware of the host (the middlewares of a route in the route
    # listing, a second listing in a peripheral's context, ..)
    per_fn = {}
    for fi in _context_functions(repo, meta):
        if fi is gm:
            continue
        for sf, scope, mv in _mw_scopes(repo, fi, set(), seen=seen_scopes):
            attrs = set()
            _mw_reads(repo, sf, scope, mv, attrs)
            i = per_fn[sf.key] = per_fn.get(sf.key, -1) + 1
            ok = attrs <= MW_ATTRS
            rep.check('R18.b', fkey(sf, 'middleware attributes read') + ('' if i == 0 else '#%d' % i), ok,
                      '%s reads only %s from the middleware held by %s' % (sf.qualname, sorted(attrs), mv) if ok else
                      '%s reads %s from the middlewares it iterates over (shown on the meta page for every visitor)' % (sf.qualname, sorted(attrs - MW_ATTRS)),
                      sf.mod, sf.node)
    # .. and no view reads an attribute named like key material from any object (``<mw>.secret_key`` reached by index, by
    # getattr with a constant name, through the request, ..)
    n_views = 0
    for fi in _view_functions(repo, meta):
        n_views += 1
        for n in _walk(fi):
            nm = None
            if isinstance(n, ast.Attribute) and isinstance(n.ctx, ast.Load) and _secretish(n.attr):
                if _fold_any(repo, fi, n) is None:      # (a class-level / module-level constant -- the 'secret' fragment, the marker -- is no key)
                    nm = n.attr
            elif isinstance(n, ast.Call) and call_name(n) == 'getattr' and len(n.args) >= 2 and 'getattr' not in _local_names(fi):
                v = _fold_str(repo, fi, n.args[1])
                if v is not None and _secretish(v):
                    nm = v
            if nm is not None:
                rep.fail('R18.b', fkey(fi, n), '%s reads the attribute %s (%s): key material would be shown on the meta page'
                         % (fi.qualname, nm, short(n, 50)), fi.mod, n)
    rep.ok('R18.b', '%s::key material' % META, 'no attribute named like key material is read in the %d view functions' % n_views, meta)
    mwbase = repo.mod('clastic.middleware.core').cls('Middleware')
    n_repr = 0
    for m in repo.all_internal_modules():
        for c in m.classes.values():
            if mwbase not in repo.mro(c):
                continue
            gen = _generated_repr_fields(c) if '__repr__' not in c.methods else None
            if gen is not None:
                # a middleware declared with attrs / dataclass: the generated repr prints every field
                n_repr += 1
                bad = [f for f, _ in gen if 'secret' in f.lower() or f.lower() in ('key', 'password') or f.lower().endswith('_key')]
                rep.check('R18.b', '%s::generated repr' % c.key, not bad, 'the generated repr of %s shows %s' % (c.name, [f for f, _ in gen]) if not bad else
                          'the generated repr of %s exposes %s (shown on the meta page for every visitor)' % (c.name, bad), m, c.node)
            for nm in TEXT_METHODS:
                r = c.methods.get(nm)
                if r is None:
                    continue
                n_repr += 1
                me = (r.params() or ['self'])[0]
                read, wide = _self_reads(repo, r, me)
                read = sorted(read)
                bad = [a for a in read if 'secret' in a.lower() or a.lower() in ('key', 'secret_key', 'signing_key', 'password') or a.lower().endswith('_key')]
                rep.check('R18.b', fkey(r), not bad and not wide, '%s.%s shows %s' % (c.name, nm, read) if not bad and not wide else
                          '%s.%s exposes %s (shown on the meta page for every visitor)' % (c.name, nm, bad or sorted(set(wide))), m, r.node)
    if n_repr < 3:
        raise AnalysisError('only %d middleware __repr__ methods found (floor 3)' % n_repr)
    rep.floor('R18.b', 4)


# ------------------------------------------------------------------------------------------ R18.c
def _is_inject(fi, call):
    """``inject(..)``, or a call of a local that names it: ``call = inject`` / ``call = partial(inject, ..)``."""
    f = call.func
    if call_name(call) == 'inject':
        return True
    if isinstance(f, ast.Name) and f.id in _local_names(fi):
        v = _single_assignment(fi, f.id)
        if isinstance(v, ast.Name) and v.id == 'inject':
            return True
        if isinstance(v, ast.Call) and norm(v.func) in ('partial', 'functools.partial') and v.args and norm(v.args[0]) == 'inject':
            return True
    return False


def _callees_of(repo, fi, call):
    """The functions of the tree a call may run: the callee itself, or -- for a call of a local that holds a function --
    every function the local is bound to (``f = self.a if cond else self.b`` ... ``f(x)``)."""
    callee, _ = resolve_callee(repo, fi, call)
    if callee is not None:
        return [callee]
    f = call.func
    out = []
    if isinstance(f, ast.Name) and f.id in _local_names(fi) and f.id not in fi.params():
        vals = [s.value for s in stmts_of(fi.node) if isinstance(s, ast.Assign) and len(s.targets) == 1 and
                isinstance(s.targets[0], ast.Name) and s.targets[0].id == f.id]
        todo = list(vals)
        while todo:
            v = todo.pop()
            if isinstance(v, ast.IfExp):
                todo += [v.body, v.orelse]
            elif isinstance(v, (ast.Name, ast.Attribute)):
                g, _ = resolve_callee(repo, fi, ast.Call(func=v, args=[], keywords=[]))
                if g is not None:
                    out.append(g)
    return out


def _run_sites(repo, fi, node, chain, depth=0):
    """[(function, node, chain)]: where the code at ``node`` effectively runs.  Code in a lambda runs where the lambda is
    called: on the spot for ``(lambda: ..)()``, or in the helper of the tree the lambda is handed to, at each call of
    the parameter that receives it.  [] when that cannot be told."""
    mod = fi.mod
    cur = node
    while cur is not None and cur is not fi.node:
        par = mod.parents.get(cur)
        if isinstance(par, ast.Lambda):
            up = mod.parents.get(par)
            if isinstance(up, ast.Call) and up.func is par:
                cur = up
                continue
            if isinstance(up, ast.Assign) and up.value is par and len(up.targets) == 1 and isinstance(up.targets[0], ast.Name) and depth < 3 and \
                    _single_assignment(fi, up.targets[0].id) is par:
                # the lambda is named first: it runs where the name is called
                out, t = [], up.targets[0].id
                uses = [x for x in _walk(fi) if isinstance(x, ast.Name) and x.id == t and isinstance(x.ctx, ast.Load)]
                for x in uses:
                    c2 = mod.parents.get(x)
                    if not (isinstance(c2, ast.Call) and c2.func is x):
                        return []         # handed on: not followed
                    out.extend(_run_sites(repo, fi, c2, chain, depth + 1))
                return out
            call = call_of_arg(mod, par)
            if call is not None and depth < 3:
                callee, skip = resolve_callee(repo, fi, call)
                b = bind_args(callee, skip, call) if callee is not None else None
                ps = [p for p, x in (b or {}).items() if x is par]
                if ps:
                    out = []
                    for c2 in walk_body(callee.node):
                        if isinstance(c2, ast.Call) and isinstance(c2.func, ast.Name) and c2.func.id == ps[0]:
                            out.extend(_run_sites(repo, callee, c2, chain + ((fi, call),), depth + 1))
                    return out
            return []
        cur = par
    return [(fi, node, chain)]


def _inject_calls(repo, fi, wanted, chain=(), seen=None, views=()):
    """[(function, inject call, chain of (caller, call))] for the ``inject(<peripheral>.<method>, ..)`` calls (method in
    ``wanted``) in ``fi`` and in the functions of the tree it calls (helpers of the same module, and the view functions
    -- keys in ``views`` -- that live in another module of the package)."""
    seen = set() if seen is None else seen
    if fi.key in seen or len(chain) > 3:
        return []
    seen.add(fi.key)
    out = []
    for c in _walk(fi):
        if not isinstance(c, ast.Call):
            continue
        if _is_inject(fi, c) and c.args:
            target = c.args[0]
            if isinstance(target, ast.Name):     # the bound method may be named first
                srcs = [s.value for s in stmts_of(fi.node) if isinstance(s, ast.Assign) and len(s.targets) == 1 and
                        isinstance(s.targets[0], ast.Name) and s.targets[0].id == target.id]
                if len(srcs) == 1:
                    target = srcs[0]
            if isinstance(target, ast.Attribute) and target.attr in wanted:
                out.append((fi, c, chain))
                continue
        if isinstance(c.func, ast.Attribute) and c.func.attr in wanted and isinstance(c.func.value, ast.Name) and \
                c.func.value.id not in ('self', 'cls') and c.func.value.id in _local_names(fi) and fi.name not in wanted:
            # the peripheral's method called directly (no injection): the same call as far as failing is concerned
            out.append((fi, c, chain))
            continue
        for callee in _callees_of(repo, fi, c):
            if (callee.mod is fi.mod or callee.key in views) and callee.name not in ('get_main', 'render_main_page_html'):
                out.extend(_inject_calls(repo, callee, wanted, chain + ((fi, c),), seen, views))
    return out


def _indexes_into(repo, fi, nodes, name, depth=0):
    """Subscript loads whose base is the object held by local ``name`` or an attribute of it (``e.args[0]``), in the given
    nodes and in the helpers of the tree the object is handed to."""
    out = []
    for n in nodes:
        if isinstance(n, ast.Subscript) and isinstance(n.ctx, ast.Load):
            b = n.value
            while isinstance(b, ast.Attribute):
                b = b.value
            if isinstance(b, ast.Name) and b.id == name:
                out.append(n)
        elif isinstance(n, ast.Call) and depth < 2:
            callee, skip = resolve_callee(repo, fi, n)
            if callee is None:
                continue
            for p, x in (bind_args(callee, skip, n) or {}).items():
                if isinstance(x, ast.Name) and x.id == name:
                    out.extend(_indexes_into(repo, callee, list(walk_body(callee.node)), p, depth + 1))
    return out


# what every exception object has, whatever its class (3.11's notes are not universal)
EXCEPTION_ATTRS = frozenset(dir(BaseException)) - {'add_note', '__notes__'}


def _partial_exception_reads(repo, fi, nodes, name, depth=0):
    """Attribute loads ``<exc>.<attr>`` on the exception held by local ``name`` -- in the given nodes and in the helpers of the
    tree the exception is handed to -- for an attribute that not every exception has (``message``, ``errno``, ``code``, ..),
    unless the read is guarded: ``hasattr(<exc>, '<attr>')`` known to hold, or inside a nested ``try`` that catches
    AttributeError.  (``getattr(<exc>, '<attr>', <default>)`` is total and is not an attribute load.)"""
    out = []
    for n in nodes:
        if isinstance(n, ast.Attribute) and isinstance(n.ctx, ast.Load) and isinstance(n.value, ast.Name) and n.value.id == name and \
                n.attr not in EXCEPTION_ATTRS:
            guarded = False
            for tr, part in enclosing_tries(fi.mod, n, fi.node):
                if part == 'body' and any(handler_catches(hh, 'AttributeError') for hh in tr.handlers) and any(nn is tr for nn in nodes):
                    guarded = True          # (a try statement nested in the handler / in the helper)
            if not guarded:
                for t, pol in expr_conds(fi, n):
                    if pol and isinstance(t, ast.Call) and call_name(t) == 'hasattr' and len(t.args) == 2 and norm(t.args[0]) == name and \
                            isinstance(t.args[1], ast.Constant) and t.args[1].value == n.attr:
                        guarded = True
            if not guarded:
                out.append(n)
        elif isinstance(n, ast.Call) and depth < 2:
            callee, skip = resolve_callee(repo, fi, n)
            if callee is None:
                continue
            for p, x in (bind_args(callee, skip, n) or {}).items():
                if isinstance(x, ast.Name) and x.id == name:
                    out.extend(_partial_exception_reads(repo, callee, list(walk_body(callee.node)), p, depth + 1))
    return out


def _is_generator(fi):
    return any(isinstance(n, (ast.Yield, ast.YieldFrom)) for n in walk_body(fi.node))


def _consumed_in_place(fi, call):
    """The iterable made by ``call`` is exhausted right where it is made: ``list(call)``, ``d.update(call)``, ``for .. in call``."""
    par = fi.mod.parents.get(call)
    if isinstance(par, ast.For) and par.iter is call:
        return False      # (the body of the loop is then inside the iteration, but the try has to be around the loop)
    if isinstance(par, ast.Call) and any(call is a for a in par.args):
        if isinstance(par.func, ast.Name) and par.func.id in ('list', 'tuple', 'dict', 'set', 'sorted', 'frozenset', 'sum', 'any', 'all', 'max', 'min'):
            return True
        if isinstance(par.func, ast.Attribute) and par.func.attr in ('update', 'extend', 'join'):
            return True
    return False


def _substitutes(fi, h, in_helper):
    """The handler records something in place of the failed result: it binds / updates a local (``x = ..``, ``x[k] = ..``,
    ``x.update(..)``, ...) or, in a helper, returns the placeholder; or it does nothing because the placeholder was
    stored right before the try statement (``items = []`` / ``try: items = ..`` / ``except Exception: pass``)."""
    if all(isinstance(s, ast.Pass) for s in h.body):
        mod = fi.mod
        tr = mod.parents.get(h)
        holder = mod.parents.get(tr)
        set_in_try = set(n.id for st in tr.body + tr.orelse for n in ast.walk(st) if isinstance(n, ast.Name) and isinstance(n.ctx, ast.Store))
        for fld in ('body', 'orelse', 'finalbody'):
            block = getattr(holder, fld, None)
            if isinstance(block, list) and any(tr is x for x in block):
                for st in block:
                    if st is tr:
                        break
                    if isinstance(st, ast.Assign) and any(isinstance(t, ast.Name) and t.id in set_in_try for t in st.targets):
                        return True
        return False
    for s in h.body:
        if isinstance(s, (ast.Assign, ast.AugAssign, ast.AnnAssign)):
            return True
        if isinstance(s, ast.Expr) and isinstance(s.value, ast.Call) and isinstance(s.value.func, ast.Attribute) and \
                s.value.func.attr in ('update', 'setdefault', 'append', 'extend', 'insert', 'add') and (s.value.args or s.value.keywords):
            return True
        if in_helper and isinstance(s, ast.Return) and s.value is not None and not (isinstance(s.value, ast.Constant) and s.value.value is None):
            return True
    return False


def _placeholder_dropped(fi, h):
    """The handler records its placeholder in plain locals only, and nothing on the way on from the handler reads one of
    them (the handler leaves the iteration with ``continue``, or the statements that follow the try statement inside the
    loop read other names): the names; None when the placeholder is used (or recorded in a container / returned)."""
    mod = fi.mod
    names = set()
    for s in h.body:
        if isinstance(s, (ast.Assign, ast.AnnAssign, ast.AugAssign)):
            for t in (s.targets if isinstance(s, ast.Assign) else [s.target]):
                for x in ([t] if not isinstance(t, (ast.Tuple, ast.List)) else t.elts):
                    if isinstance(x, ast.Name):
                        names.add(x.id)
                    else:
                        return None
        elif isinstance(s, ast.Expr) and isinstance(s.value, ast.Call) and isinstance(s.value.func, ast.Attribute) and \
                s.value.func.attr in ('update', 'setdefault', 'append', 'extend', 'insert', 'add'):
            return None
        elif isinstance(s, ast.Return) and s.value is not None:
            return None
    if not names:
        return None

    def own(stmts, kinds):      # statements of these kinds that belong to this level of looping
        out, todo = [], list(stmts)
        while todo:
            x = todo.pop()
            if isinstance(x, kinds):
                out.append(x)
            if isinstance(x, (ast.For, ast.While, ast.FunctionDef, ast.AsyncFunctionDef, ast.ClassDef, ast.Lambda)):
                continue
            todo.extend(ast.iter_child_nodes(x))
        return out
    if own(h.body, (ast.Continue,)):
        return names
    tr = mod.parents.get(h)
    following = list(tr.finalbody)
    cur = tr
    while cur is not None and cur is not fi.node:
        holder = mod.parents.get(cur)
        for fld in ('body', 'orelse', 'finalbody'):
            block = getattr(holder, fld, None)
            if isinstance(block, list) and any(cur is x for x in block):
                i = [j for j, x in enumerate(block) if x is cur][0]
                following.extend(block[i + 1:])
        if isinstance(holder, (ast.For, ast.While)) or holder is fi.node:
            break
        cur = holder
    for st in following:
        for x in ast.walk(st):
            if isinstance(x, ast.Name) and x.id in names and isinstance(x.ctx, ast.Load):
                return None
    return names


PERIPHERAL_CALLS = ('get_context', 'render_main_page_html', 'get_general_items')


def _routed_methods(repo, meta, ci):
    """The methods of the meta application that are installed as an endpoint or a renderer of one of its routes:
    ``self.<m>`` inside a route tuple ``('/path', ..)`` or a ``Route('/path', ..)`` / ``GET('/path', ..)`` call, anywhere in the class."""
    out = []
    family = _meta_app_classes(repo, meta)      # (a view may have moved into a base / mixin defined in another module)
    for m in [m for c in [ci] + [c for c in family if c is not ci] for m in c.methods.values()]:
        me = (m.params() or [None])[0]
        for n in _walk(m):
            elts = None
            if isinstance(n, (ast.Tuple, ast.List)) and 2 <= len(n.elts) <= 4:
                elts = list(n.elts)
            elif isinstance(n, ast.Call) and n.args:
                elts = list(n.args) + [k.value for k in n.keywords]
            if not elts:
                continue
            path = _fold_str(repo, m, elts[0])
            if path is None or not path.startswith('/'):
                continue
            for x in elts[1:]:
                if isinstance(x, ast.Attribute) and isinstance(x.value, ast.Name) and x.value.id == me:
                    t = repo.find_method(ci, x.attr)
                    if t is not None and (t.mod is meta or any(_class_of(t) is c for c in family)) and not any(t is y for y in out):
                        out.append(t)
    return out


def _peripheral_elements(fi, inherited=()):
    """Locals of ``fi`` that hold one peripheral: the targets of the loops / comprehension generators whose iterable mentions
    ``peripherals`` (``for peri in self.peripherals``, ``for i, peri in enumerate(..)``), plus the ``inherited`` parameters."""
    out = set(inherited)
    for n in _walk(fi):
        if isinstance(n, (ast.For, ast.comprehension)) and _iter_mentions(fi, n.iter, 'peripherals'):
            tg = n.target
            if isinstance(tg, (ast.Tuple, ast.List)) and len(tg.elts) == 2 and isinstance(n.iter, ast.Call) and call_name(n.iter) == 'enumerate':
                tg = tg.elts[1]
            out |= set(x.id for x in ast.walk(tg) if isinstance(x, ast.Name))
    return out


def _fail_soft_wrapper(fi):
    """The body of the function is one ``try`` statement with an ``except Exception`` handler (plus, at most, the return of a
    plain name / constant after it): whatever it runs, it does not raise."""
    body = list(fi.node.body)
    if body and isinstance(body[0], ast.Expr) and isinstance(body[0].value, ast.Constant) and isinstance(body[0].value.value, str):
        body = body[1:]
    if not body or not isinstance(body[0], ast.Try) or not any(handler_catches(h, 'Exception') for h in body[0].handlers):
        return False
    if any(isinstance(x, ast.Raise) for h in body[0].handlers for x in ast.walk(h)) or body[0].finalbody:
        return False
    return all(isinstance(st, ast.Return) and (st.value is None or isinstance(st.value, (ast.Name, ast.Constant))) for st in body[1:])


def _other_peripheral_calls(repo, fi, judged, views, inherited=(), chain=(), seen=None):
    """[(function, call, chain)]: every *other* call of a method of a peripheral object -- ``<peripheral>.<m>(..)`` or
    ``inject(<peripheral>.<m>, ..)`` with ``m`` not among the ``judged`` names -- in ``fi`` and in the helpers of the views it
    calls (the peripheral handed on as an argument, or the helper looping over the peripherals itself)."""
    seen = set() if seen is None else seen
    key = (fi.key, tuple(sorted(inherited)))
    if key in seen or len(chain) > 3:
        return []
    seen.add(key)
    pn = _peripheral_elements(fi, inherited)
    out = []
    for c in _walk(fi):
        if not isinstance(c, ast.Call):
            continue
        attr = None
        if isinstance(c.func, ast.Attribute) and isinstance(c.func.value, ast.Name) and c.func.value.id in pn:
            attr = c.func.attr
        elif _is_inject(fi, c) and c.args:
            target = c.args[0]
            if isinstance(target, ast.Name):
                v = _single_assignment(fi, target.id)
                target = v if v is not None else target
            if isinstance(target, ast.Attribute) and isinstance(target.value, ast.Name) and target.value.id in pn:
                attr = target.attr
        if attr is not None:
            if attr not in judged:
                wrapper, wskip = resolve_callee(repo, fi, c) if c.func.__class__ is ast.Attribute and not _is_inject(fi, c) else (None, 0)
                if wrapper is not None and wskip == 1 and _fail_soft_wrapper(wrapper):
                    # a method the tree defines for all peripherals whose body *is* the fail-soft handler: judged inside
                    out.extend(_other_peripheral_calls(repo, wrapper, judged, views, tuple(wrapper.params()[:1]), chain + ((fi, c),), seen))
                else:
                    out.append((fi, c, chain))
            continue
        callee, skip = resolve_callee(repo, fi, c)
        if callee is None or not (callee.mod is fi.mod or callee.key in views) or callee.name in ('get_main', 'render_main_page_html'):
            continue
        b = bind_args(callee, skip, c) or {}
        passed = tuple(sorted(p for p, x in b.items() if isinstance(x, ast.Name) and x.id in pn))
        out.extend(_other_peripheral_calls(repo, callee, judged, views, passed, chain + ((fi, c),), seen))
    return out


def _own_stores(stmts):
    """Plain names stored by these statements at this level of the function (nested definitions / lambdas / comprehensions
    have scopes of their own)."""
    out, todo = set(), list(stmts)
    while todo:
        x = todo.pop()
        if isinstance(x, (ast.FunctionDef, ast.AsyncFunctionDef, ast.ClassDef)):
            out.add(x.name)
            continue
        if isinstance(x, (ast.Lambda,) + COMPS):
            continue
        if isinstance(x, ast.Name) and isinstance(x.ctx, ast.Store):
            out.add(x.id)
        elif isinstance(x, ast.ExceptHandler) and x.name:
            out.add(x.name)
        todo.extend(ast.iter_child_nodes(x))
    return out


def _success_only_reads(fi, h):
    """Names that only the *success path* of the try statement of handler ``h`` binds and that are read, outside any fail-soft
    protection, on the way on from the handler (the rest of the iteration / of the function): on the failure path such a
    read raises NameError for the first section (the page answers 500) and shows what the previous section left behind
    for the others.  [(name, the reading node)]; [] when the handler leaves the iteration itself."""
    mod = fi.mod
    tr = mod.parents.get(h)
    if not isinstance(tr, ast.Try) or not h.body:
        return []
    leaves = isinstance(h.body[-1], (ast.Continue, ast.Return, ast.Raise, ast.Break))
    in_try = _own_stores(tr.body + tr.orelse)
    bound = set()
    following = [list(tr.finalbody)]
    cur, in_loop = tr, False
    while cur is not None and cur is not fi.node:
        holder = mod.parents.get(cur)
        for fld in ('body', 'orelse', 'finalbody'):
            block = getattr(holder, fld, None)
            if isinstance(block, list) and any(cur is x for x in block):
                i = [j for j, x in enumerate(block) if x is cur][0]
                bound |= _own_stores(block[:i])          # bound earlier in the same iteration / call
                following.append(block[i + 1:])
        if isinstance(holder, (ast.For, ast.While)):
            in_loop = True
            if isinstance(holder, ast.For):
                bound |= _own_stores([holder.target])
            # a name that exists before the loop and that the protected block only *updates* (``n += 1``, ``seen = seen | {k}``) is
            # an accumulator, not the result of this iteration
            pre, up = set(fi.params()), holder
            while up is not None and up is not fi.node:
                outer = mod.parents.get(up)
                for fld in ('body', 'orelse', 'finalbody'):
                    block = getattr(outer, fld, None)
                    if isinstance(block, list) and any(up is x for x in block):
                        pre |= _own_stores(block[:[j for j, x in enumerate(block) if x is up][0]])
                up = outer
            for name in pre & in_try:
                stores = [x for st in tr.body + tr.orelse for x in ast.walk(st) if isinstance(x, ast.Name) and x.id == name and isinstance(x.ctx, ast.Store)]
                if stores and all(isinstance(mod.parents.get(x), ast.AugAssign) or (
                        isinstance(mod.parents.get(x), ast.Assign) and any(isinstance(y, ast.Name) and y.id == name and isinstance(y.ctx, ast.Load)
                                                                           for y in ast.walk(mod.parents.get(x).value))) for x in stores):
                    bound.add(name)
            break
        if isinstance(holder, ast.With):
            bound |= _own_stores([i.optional_vars for i in holder.items if i.optional_vars is not None])
        cur = holder
    if not in_loop:
        bound |= set(fi.params())
        a = fi.node.args
        bound |= set(x.arg for x in (a.vararg, a.kwarg) if x is not None)
    cand = in_try - bound
    if not cand:
        return []
    out, rebound = [], set([h.name] if h.name else [])
    # (the handler itself runs first: what it reads before binding it may not exist yet either)
    for block in [list(h.body)] + ([] if leaves else following):
        for st in block:
            todo = [st]
            while todo:
                x = todo.pop()
                if isinstance(x, (ast.FunctionDef, ast.AsyncFunctionDef, ast.ClassDef, ast.Lambda)):
                    continue
                if isinstance(x, ast.Name) and isinstance(x.ctx, ast.Load) and x.id in cand and x.id not in rebound and \
                        protected_by(fi, x, 'Exception') in (None, h):
                    out.append((x.id, x))
                todo.extend(ast.iter_child_nodes(x))
            if isinstance(st, (ast.Assign, ast.AnnAssign)):
                rebound |= _own_stores(st.targets if isinstance(st, ast.Assign) else [st.target])
        if block and block[0] is h.body[0]:
            rebound |= _own_stores(h.body)          # on the way on, everything the handler binds is bound
    return sorted(out, key=lambda t: (getattr(t[1], 'lineno', 0), getattr(t[1], 'col_offset', 0)))


def _depends_on_peripheral_only(fi, e, pn, region=None, depth=0):
    """The first local read by ``e`` that may carry something else than the peripheral at hand; None when there is none.
    Harmless are: the peripheral itself (names in ``pn``) and the results of calls of its methods (its own outcome), fields
    of the meta application this function never assigns (configuration), the exception a handler of this iteration holds,
    and locals that name such things -- bound once anywhere, or only inside the current iteration (``region``: ids of the
    nodes of the loop body; None: the whole function is one iteration), and never changed afterwards."""
    mod = fi.mod

    def peripheral_call(c):
        if not isinstance(c, ast.Call):
            return False
        f = c.func
        if isinstance(f, ast.Attribute) and isinstance(f.value, ast.Name) and f.value.id in pn:
            return True
        return _is_inject(fi, c) and bool(c.args) and isinstance(c.args[0], ast.Attribute) and isinstance(c.args[0].value, ast.Name) and c.args[0].value.id in pn

    def check(x):
        if x.id not in _local_names(fi) or x.id in pn:
            return None
        par = mod.parents.get(x)
        if x.id in ('self', 'cls') and x.id in fi.params()[:1] and isinstance(par, ast.Attribute) and par.value is x and not any(
                isinstance(y, ast.Attribute) and y.attr == par.attr and isinstance(y.ctx, (ast.Store, ast.Del)) for y in ast.walk(fi.node)):
            return None
        if any(isinstance(y, ast.ExceptHandler) and y.name == x.id and (region is None or id(y) in region) for y in ast.walk(fi.node)) and \
                not any(isinstance(y, ast.Name) and y.id == x.id and isinstance(y.ctx, ast.Store) for y in ast.walk(fi.node)):
            return None
        stores = [y for y in ast.walk(fi.node) if isinstance(y, ast.Name) and y.id == x.id and isinstance(y.ctx, (ast.Store, ast.Del))]
        if depth < 3 and stores and x.id not in fi.params() and not _maybe_mutated(fi, x.id) and \
                (len(stores) == 1 or (region is not None and all(id(y) in region for y in stores))):
            vals = []
            for y in stores:
                asg = mod.parents.get(y)
                if isinstance(asg, ast.Assign) and len(asg.targets) == 1 and asg.targets[0] is y:
                    vals.append(asg.value)
                else:
                    return x
            if all(_depends_on_peripheral_only(fi, v, pn, region, depth + 1) is None for v in vals):
                return None
        return x

    def first_bad(n):
        if peripheral_call(n):
            return None
        if isinstance(n, ast.Name):
            return check(n) if isinstance(n.ctx, ast.Load) else None
        if isinstance(n, (ast.Lambda, ast.FunctionDef, ast.AsyncFunctionDef)):
            return None
        for ch in ast.iter_child_nodes(n):
            r = first_bad(ch)
            if r is not None:
                return r
        return None
    return first_bad(e)


def _section_conditions(links):
    """[(condition, function, the local it reads)]: the conditions -- inside the loop over the peripherals, down to the
    protected call -- under which the call is made and that read something else than the peripheral at hand (what an
    earlier section left in the shared context, a flag, a counter).  ``links``: (function, node) from the view down to the
    call, through the helpers that make it."""
    out = []
    pn, started = set(), False
    for j, (lf, ln) in enumerate(links):
        loops = [l for l in _loops_around(lf, ln) if _iter_mentions(lf, l.iter, 'peripherals')]
        pn = _peripheral_elements(lf, pn)
        base, region = set(), None
        if loops and not started:
            started = True
            outer = loops[-1]
            anchor_stmt = outer if isinstance(outer, ast.For) else stmt_of(lf.mod, outer)
            holder = outer if isinstance(outer, ast.For) else lf.mod.parents.get(outer)
            region = set(id(x) for x in ast.walk(holder)) - (set(id(x) for x in ast.walk(outer.iter)) if isinstance(outer, ast.For) else set())
            try:
                base = set((norm(t), p) for t, p in conds(lf, anchor_stmt))
            except AnalysisError:
                base = set()
        if started:
            # (what the framework injects into the routed view itself -- the request, arguments of the URL, resources -- is the same
            # for every section; ``context``, by the framework's convention, is what the endpoint returned: the shared state)
            given = set(p for p in lf.params() if p != 'context' and not _maybe_mutated(lf, p)) if j == 0 else set()
            for t, p in expr_conds(lf, ln):
                if (norm(t), p) in base or isinstance(t, ast.BoolOp):
                    continue
                x = _depends_on_peripheral_only(lf, t, pn | given, region)
                if x is not None:
                    out.append((t, lf, x))
        # the peripheral handed on to the helper of the next link
        if j + 1 < len(links) and isinstance(ln, ast.Call):
            nxt = links[j + 1][0]
            passed = set()
            for skip in (1, 0):
                b = bind_args(nxt, skip, ln)
                if b is not None:
                    passed = set(p for p, x in b.items() if isinstance(x, ast.Name) and x.id in pn)
                    if passed or skip == 0:
                        break
            if isinstance(ln.func, ast.Attribute) and isinstance(ln.func.value, ast.Name) and ln.func.value.id in pn and nxt.params():
                passed.add(nxt.params()[0])          # ``<peripheral>.method(..)``: its ``self``
            pn = passed
        else:
            pn = set()
    return out


_READ_ONLY_METHODS = {'get', 'keys', 'items', 'values', 'copy', 'index', 'count', 'startswith', 'endswith', 'lower', 'upper', 'strip', 'split', 'join',
                      'format', 'isdisjoint', 'issubset', 'issuperset', 'union', 'intersection', 'difference'}


def _maybe_mutated(fi, name):
    """The object the local ``name`` holds may change after it was bound: a method other than the read-only ones of the builtin
    containers / texts is called on it, one of its slots / attributes is stored, it is the target of an augmented
    assignment, or it is handed to a call (which may keep / change it)."""
    mod = fi.mod
    for x in ast.walk(fi.node):
        if not (isinstance(x, ast.Name) and x.id == name):
            continue
        par = mod.parents.get(x)
        if isinstance(x.ctx, ast.Store):
            if isinstance(par, ast.AugAssign):
                return True
            continue
        if isinstance(par, ast.Attribute) and par.value is x:
            gp = mod.parents.get(par)
            if isinstance(par.ctx, (ast.Store, ast.Del)):
                return True
            if isinstance(gp, ast.Call) and gp.func is par and par.attr not in _READ_ONLY_METHODS:
                return True
        elif isinstance(par, ast.Subscript) and par.value is x and isinstance(par.ctx, (ast.Store, ast.Del)):
            return True
        elif isinstance(par, ast.Call) and any(x is a for a in par.args) and not (
                isinstance(par.func, ast.Name) and par.func.id in KEY_ONLY | SCALAR_CALLS | {'dict', 'getattr', 'hasattr', 'isinstance', 'callable', 'type'}):
            return True
        elif isinstance(par, ast.keyword):
            return True
    return False


def _repeated_lookups(fi, h):
    """Subscript loads in the handler that repeat, letter for letter, a subscript load of the protected block (what failed
    there fails again here, now outside any protection), unless a ``try`` nested in the handler catches the lookup error."""
    tr = fi.mod.parents.get(h)
    if not isinstance(tr, ast.Try):
        return []
    tried = set(norm(n) for st in tr.body for n in ast.walk(st) if isinstance(n, ast.Subscript) and isinstance(n.ctx, ast.Load) and
                not isinstance(n.slice, ast.Slice))
    inner = [x for st in h.body for x in ast.walk(st)]
    out = []
    for n in inner:
        if isinstance(n, ast.Subscript) and isinstance(n.ctx, ast.Load) and norm(n) in tried:
            hh = protected_by(fi, n, 'KeyError')
            if hh is not None and any(hh is x for x in inner):
                continue
            out.append(n)
    return out


def _r18c(rep, repo, meta):
    gmn = meta.func('MetaApplication.get_main')
    rmp = meta.func('MetaApplication.render_main_page_html')
    anchors = [(gmn, ('get_context',), 1), (rmp, ('render_main_page_html', 'get_general_items'), 2)]
    # sibling views: every other method of the meta application that is routed (a second JSON endpoint, a renderer of its
    # own) and runs peripheral code is held to the same standard
    routed = _routed_methods(repo, meta, meta.cls('MetaApplication'))
    if not any(r is gmn for r in routed):
        raise AnalysisError('MetaApplication: get_main is not found among the routed methods (%s): the route table was not recognised'
                            % [r.qualname for r in routed])
    for r in routed:
        if r is not gmn and r is not rmp:
            anchors.append((r, PERIPHERAL_CALLS, 0))
    rep.ok('R18.c', '%s::routed methods' % META, 'methods of the meta application installed in its routes: %s' % sorted(r.name for r in routed), meta)
    views = set(f.key for f in _view_functions(repo, meta))

    def judge(anchor, fi, c, node, chain):
        # the handler may sit around the call itself or around the call of the helper that makes it
        links = list(chain) + [(fi, node)]          # outermost first
        h, hj, hf = None, None, None
        for j in range(len(links) - 1, -1, -1):
            if j < len(links) - 1 and _is_generator(links[j + 1][0]) and not _consumed_in_place(links[j][0], links[j][1]):
                break      # the call only creates the generator: its body runs wherever it is consumed
            h = protected_by(links[j][0], links[j][1], 'Exception')
            if h is not None:
                hj, hf = j, links[j][0]
                break
        in_helper = hf is not anchor
        ok = h is not None and not any(isinstance(r, ast.Raise) for r in ast.walk(h)) and _substitutes(hf, h, in_helper)
        if ok and not in_helper and any(isinstance(s, (ast.Return, ast.Break)) for s in ast.walk(h)):
            ok = False      # leaving the loop from the handler drops the remaining sections
        rep.check('R18.c', fkey(anchor, c), ok, 'a failing peripheral is replaced by a placeholder (handler: except %s%s)'
                  % (norm(h.type) if h else None, ' in %s' % hf.qualname if h is not None and in_helper else '') if ok else
                  'a failing peripheral call %s fails the whole meta page' % short(c), fi.mod, c)
        if ok and not in_helper:
            dropped = _placeholder_dropped(hf, h)
            rep.check('R18.c', fkey(anchor, c) + '::placeholder reported', not dropped, 'the placeholder is read after the handler' if not dropped else
                      'the placeholder stored in %s by the handler is never read (the handler leaves the iteration / the code after the try '
                      'statement reads other names): the failing section is not reported, or shows what the previous one left behind'
                      % sorted(dropped), hf.mod, h)
        if ok:
            # what the code after the try statement reads is bound on the failure path as well
            stale = _success_only_reads(hf, h)
            rep.check('R18.c', fkey(anchor, c) + '::result bound on the failure path', not stale,
                      'every name read after the try statement is bound by the handler (or earlier in the same iteration)' if not stale else
                      '%s is bound only where the protected block succeeds, and is read on the failure path -- in the handler or after the try statement (%s): when the section fails '
                      'the read raises NameError (the page answers 500) or shows what the previous section left behind'
                      % (stale[0][0], short(stmt_of(hf.mod, stale[0][1]), 50)), hf.mod, stale[0][1] if stale else h)
        if h is not None and h.name:
            # the placeholder is built from the repr / type of the exception, never by indexing into it (``e.args``
            # may be empty): the handler itself must not be able to fail on the exception it reports
            hnodes = [x for s in h.body for x in ast.walk(s)]
            idx = _indexes_into(repo, hf, hnodes, h.name)
            rep.check('R18.c', fkey(anchor, c) + '::handler total', not idx, 'the handler does not index into the exception' if not idx else
                      'the handler indexes into the caught exception (%s): an exception without arguments makes the handler itself '
                      'fail and the page answers 500' % short(idx[0], 50), hf.mod, idx[0] if idx else h)
            again = _repeated_lookups(hf, h)
            rep.check('R18.c', fkey(anchor, c) + '::handler does not repeat a lookup', not again,
                      'the handler repeats no lookup of the protected block' if not again else
                      'the handler repeats the lookup %s of the protected block: when that lookup is what failed it fails again, inside the '
                      'handler, and the page answers 500' % short(again[0], 50), hf.mod, again[0] if again else h)
            # .. and reads from it only what every exception has: the handler catches exceptions of any class
            part = _partial_exception_reads(repo, hf, hnodes, h.name)
            rep.check('R18.c', fkey(anchor, c) + '::handler reads universal attributes', not part,
                      'the handler reads from the exception only what every exception has' if not part else
                      'the handler reads %s from the caught exception: not every exception has that attribute (the handler catches all of them), '
                      'the AttributeError is raised inside the handler and the page answers 500' % short(part[0], 50), hf.mod, part[0] if part else h)
        # the protected call runs once per peripheral (one bad section does not hide the others): on the way from the
        # anchor to the handler there is a loop over the peripherals, and the try statement is inside it
        ok = False
        for j, (lf, ln) in enumerate(links):
            if hj is not None and j > hj:
                break
            for l in _loops_around(lf, ln):
                if not _iter_mentions(lf, l.iter, 'peripherals'):
                    continue
                if j == hj:
                    tr = lf.mod.parents.get(h)
                    holder = l if isinstance(l, ast.For) else lf.mod.parents.get(l)
                    if not any(tr is x for x in ast.walk(holder)):
                        continue
                ok = True
        rep.check('R18.c', fkey(anchor, c) + '::per section', ok, 'handled per peripheral' if ok else 'not handled per peripheral', fi.mod, c)
        # .. and whether it runs depends on the peripheral alone: a section that can be computed is computed, whatever
        # happened to the others (the contexts of one group are merged: "this one failed" there means "some of them did")
        dep = _section_conditions(links)
        rep.check('R18.c', fkey(anchor, c) + '::computed for every peripheral', not dep,
                  'inside the loop over the peripherals the call is unconditional (or depends on the peripheral at hand only)' if not dep else
                  'the peripheral call %s is made only under the condition %s, which reads %s -- not the peripheral at hand but what other '
                  'sections left behind: a section that can be computed is dropped because another one could not'
                  % (short(c, 40), short(dep[0][0], 40), dep[0][2].id), dep[0][1].mod if dep else fi.mod, dep[0][0] if dep else c)

    for anchor, wanted, floor in anchors:
        inj = _inject_calls(repo, anchor, wanted, views=views)
        if len(inj) < floor:
            raise AnalysisError('%s: %d inject calls of %s found (floor %d)' % (anchor.qualname, len(inj), '/'.join(wanted), floor))
        # every other method of a peripheral the view calls is peripheral code just the same
        done = set(id(c) for _, c, _ in inj)
        inj += [(fi, c, chain) for fi, c, chain in _other_peripheral_calls(repo, anchor, wanted, views) if id(c) not in done]
        placed = []
        for fi, c, chain in inj:
            sites = _run_sites(repo, fi, c, chain)
            if not sites:
                raise AnalysisError('%s: %s is made from a lambda whose place of execution cannot be followed' % (anchor.qualname, short(c, 60)))
            placed.extend((sfi, c, snode, schain) for sfi, snode, schain in sites)
        for fi, c, node, chain in placed:
            judge(anchor, fi, c, node, chain)
    rep.floor('R18.c', 6)


# ------------------------------------------------------------------------------------------ R18.d
def _with_locals(fi, expr, depth=0):
    """``expr`` and, for every single-assignment local it mentions, the expression that local names (transitively)."""
    out = [expr]
    if depth > 3:
        return out
    for x in ast.walk(expr):
        if isinstance(x, ast.Name) and isinstance(x.ctx, ast.Load):
            srcs = [s.value for s in stmts_of(fi.node) if isinstance(s, ast.Assign) and len(s.targets) == 1 and
                    isinstance(s.targets[0], ast.Name) and s.targets[0].id == x.id]
            if len(srcs) == 1:
                out.extend(_with_locals(fi, srcs[0], depth + 1))
    return out


def _reached_views(repo, fi, vkeys, depth=0, seen=None):
    """The view functions ``fi`` reaches through calls the tree resolves (itself included), with the functions nested in them."""
    seen = {} if seen is None else seen
    if fi.key in seen or depth > 4:
        return seen
    for g in _with_nested(fi):
        seen[g.key] = g
    for g in _with_nested(fi):
        for n in walk_body(g.node):
            if isinstance(n, ast.Call):
                callee, _ = resolve_callee(repo, g, n)
                if callee is not None and callee.key in vkeys:
                    _reached_views(repo, callee, vkeys, depth + 1, seen)
    return seen


def _strings_of(repo, fi):
    """Every text the function can use as a key (a liberal superset): its string constants (whole, and the identifiers inside
    them: ``namedtuple('Row', 'key value')``), the keyword names of the calls it makes, the module- / class-level
    constants it names (the texts inside the expressions that define them), and the fields of the classes of the tree it
    names (class attributes, annotated fields, ``self.<field>`` stores)."""
    import re
    out = set()

    def texts(expr):
        for n in ast.walk(expr):
            if isinstance(n, ast.Constant) and isinstance(n.value, str):
                out.add(n.value)
                out.update(re.findall(r'[A-Za-z_][A-Za-z_0-9]*', n.value) if len(n.value) < 200 else [])
            elif isinstance(n, ast.Call):
                out.update(k.arg for k in n.keywords if k.arg is not None)
    texts(fi.node)
    loc = _local_names(fi)
    for n in ast.walk(fi.node):
        if not (isinstance(n, ast.Name) and isinstance(n.ctx, ast.Load)) or n.id in loc:
            continue
        try:
            kind, m, obj = repo.resolve(fi.mod, n.id)
        except AnalysisError:
            continue
        if m is None or m.external:
            continue
        if kind == 'value':
            for v in obj:
                if isinstance(v, ast.AST):
                    texts(v)
        elif kind == 'class':
            for c in [x for x in repo.mro(obj) if not isinstance(x, str) and not x.mod.external]:
                out.update(c.class_attrs)
                for st in c.node.body:
                    if isinstance(st, ast.AnnAssign) and isinstance(st.target, ast.Name):
                        out.add(st.target.id)
                for mth in c.methods.values():
                    out.update(x.attr for x in ast.walk(mth.node) if isinstance(x, ast.Attribute) and isinstance(x.ctx, ast.Store))
                    texts(mth.node)
    return out


def _key_of_value(fi, node, depth=0):
    """The constant key under which the value of ``node`` is stored in a row -- ``{'k': node}``, ``dict(k=node)`` / ``.update(k=node)``,
    ``row['k'] = node`` -- directly or through the one local it is assigned to; None when that cannot be told."""
    mod = fi.mod
    cur = node
    while True:
        par = mod.parents.get(cur)
        if isinstance(par, ast.IfExp) and par.test is not cur:
            cur = par
            continue
        break
    if isinstance(par, ast.Dict):
        for k, v in zip(par.keys, par.values):
            if v is cur and isinstance(k, ast.Constant) and isinstance(k.value, str):
                return k.value
        return None
    if isinstance(par, ast.keyword) and par.arg is not None:
        call = mod.parents.get(par)
        if isinstance(call, ast.Call) and (call_name(call) == 'dict' or call_tail(call) == 'update'):
            return par.arg
        return None
    if isinstance(par, ast.Assign) and par.value is cur and len(par.targets) == 1:
        t = par.targets[0]
        if isinstance(t, ast.Subscript) and isinstance(t.slice, ast.Constant) and isinstance(t.slice.value, str):
            return t.slice.value
        if isinstance(t, ast.Name) and depth < 2:
            found = set()
            for x in _walk(fi):
                if isinstance(x, ast.Name) and x.id == t.id and isinstance(x.ctx, ast.Load):
                    k = _key_of_value(fi, x, depth + 1)
                    if k is not None:
                        found.add(k)
            return found.pop() if len(found) == 1 else None
    return None


def _listing_agreement(rep, repo, meta, files, pkg_dir):
    """What the resource listing produces is what its section template shows (table agreement).  The template peripheral
    whose ``get_context`` reaches the listing stores it under a constant key; its template has a ``{#<key>}`` section; every
    reference inside that section is a text the listing code can use as a row key; and -- where the shape tells under
    which key the redaction marker is stored -- that key is referenced.  Else the page answers 200 and lists nothing
    (neither the redaction marker nor the values of the other resources).  Judged as far as the shape can be read."""
    tn = getattr(repo, '_c18_taint', None)
    if tn is None:
        tn = _Taint(repo, meta)
        for fi in _view_functions(repo, meta) + _toplevel_lambdas(meta):
            tn.scan(fi, {})
    sites = [st for st in tn.sites if st.markers and st.uses]
    if not sites:
        return
    site = sites[0]
    vkeys = set(f.key for f in _view_functions(repo, meta))
    shown = []
    for c in _view_classes(repo, meta):
        gc = repo.find_method(c, 'get_context')
        tp = c.class_attrs.get('template_path')
        if gc is None or tp is None or _class_of(gc) is not c:
            continue
        reached = _reached_views(repo, gc, vkeys)
        if site.fi.key in reached and site.fi is not gc:
            shown.append((c, gc, repo.try_fold(tp, c.mod), reached))
    if len(shown) != 1:
        rep.decline('R18.d table agreement: the peripheral that shows the resource listing was not identified (%d candidates)' % len(shown))
        return
    c, gc, tp, reached = shown[0]
    if tp not in files:
        return          # (judged above: not a shipped template)
    listing = [f for k, f in reached.items() if k != gc.key and not any(f is g for g in _with_nested(gc))]
    strings = set()
    for f in listing:
        strings |= _strings_of(repo, f)
    ctx_keys = _strings_of(repo, gc)
    with open(os.path.join(pkg_dir, tp), encoding='utf-8') as fh:
        tags = dust.tokenize(repo, fh.read())
    sections = {}          # name of a {#..} section named by a context key -> names referenced inside it
    stack = []
    for t in tags:
        name = (t.refpath or '').lstrip('.').split('.')[0]
        if t.kind == 'close':
            if stack:
                stack.pop()
            continue
        opener = t.kind == 'section' and not t.selfclosing
        for sec, depth in [(sec, len(stack) - i - 1) for i, sec in enumerate(stack) if sec in sections]:
            if depth == 0 and name and (t.kind == 'ref' or (opener and t.symbol in '#?^')):
                sections[sec].add(name)
        if opener:
            if t.symbol == '#' and (t.refpath or '').lstrip('.') in ctx_keys and not any(s2 in sections for s2 in stack):
                sections.setdefault((t.refpath or '').lstrip('.'), set())
                stack.append((t.refpath or '').lstrip('.'))
            else:
                stack.append(None)
    key = '%s::%s::resource listing' % (META, c.name)
    rep.check('R18.d', key + '::section', bool(sections), '%s iterates over %s, stored by %s.get_context' % (tp, sorted(sections), c.name) if sections else
              '%s.get_context stores the resource listing under %s, but %s has no {#..} section of that name: the page lists no resource at all'
              % (c.name, sorted(ctx_keys), tp), gc.mod, gc.node)
    if not sections:
        return
    refs = set(x for v in sections.values() for x in v)
    unknown = sorted(refs - strings)
    rep.check('R18.d', key + '::references are row keys', not unknown, 'every reference inside {#%s} (%s) is a key the listing code uses'
              % ('/'.join(sorted(sections)), sorted(refs)) if not unknown else
              '%s references %s inside {#%s}, which the code of the listing (%s) never uses as a key: the column stays empty -- neither the '
              'redaction marker nor the values of the other resources are on the page'
              % (tp, unknown, '/'.join(sorted(sections)), ', '.join(sorted(f.qualname for f in listing))[:80]), site.fi.mod, site.fi.node)
    vkeys_found = set()
    for f, n, _ in site.markers:
        k = _key_of_value(f, n)
        if k is not None:
            vkeys_found.add(k)
    if len(vkeys_found) == 1:
        vk = sorted(vkeys_found)[0]
        rep.check('R18.d', key + '::value column shown', vk in refs, 'the key %r, under which the marker / the value is stored, is referenced by %s' % (vk, tp)
                  if vk in refs else 'the rows store the marker / the value under %r, which %s never references inside {#%s} (it shows %s): the page '
                  'answers 200 but neither the redaction marker nor the values of the other resources are on it'
                  % (vk, tp, '/'.join(sorted(sections)), sorted(refs)), site.fi.mod, site.fi.node)


def _r18d(rep, repo, meta):
    pkg_dir = os.path.join(repo.root, 'clastic')
    files = sorted(f for f in os.listdir(pkg_dir) if f.startswith('meta_') and f.endswith('.html'))
    if len(files) < 8:
        raise AnalysisError('only %d meta templates found (floor 8)' % len(files))
    # which template does each ashes peripheral render?
    sect = {}
    amp = meta.cls('AshesMetaPeripheral')
    # (the template peripherals wherever they are defined: a peripheral may live in another module of the package)
    for c in sorted(dict((c.key, c) for c in list(meta.classes.values()) + repo.subclasses(amp)).values(), key=lambda c: (c.mod is not meta, c.key)):
        if c is not amp and amp in repo.mro(c):
            tp = c.class_attrs.get('template_path')
            sect[c.name] = repo.try_fold(tp, c.mod) if tp is not None else None
    rend = amp.methods.get('render_main_page_html')
    init = amp.methods.get('__init__')
    if rend is None or init is None:
        raise AnalysisError('AshesMetaPeripheral: __init__ / render_main_page_html not found')
    ok = all(isinstance(r.value, ast.Call) and isinstance(r.value.func, ast.Attribute) and r.value.func.attr == 'render' and
             any(norm(x) == 'self.loaded_template' for x in _with_locals(rend, r.value.func.value)) for r in returns_of(rend)) and returns_of(rend)
    rep.check('R18.d', fkey(rend), bool(ok), 'section HTML is an ashes render of the peripheral\'s own template' if ok else
              'AshesMetaPeripheral.render_main_page_html does not return self.loaded_template.render(...)', rend.mod, rend.node)
    loads = [s for s in stmts_of(init.node) if isinstance(s, ast.Assign) and any(norm(t) == 'self.loaded_template' for t in s.targets)]
    if not loads:
        raise AnalysisError('AshesMetaPeripheral.__init__: assignment of self.loaded_template not found')
    ok = all(any('self.template_path' in norm(x) for x in _with_locals(init, s.value)) for s in loads)
    rep.check('R18.d', fkey(init), ok, 'loaded_template is loaded from self.template_path' if ok else 'loaded_template does not come from template_path', init.mod, init.node)
    for cname, tp in sorted(sect.items()):
        rep.check('R18.d', '%s::%s.template_path' % (META, cname), tp in files, '%s renders %s' % (cname, tp) if tp in files else
                  '%s renders %r, which is not a shipped meta template' % (cname, tp), meta)
    base_render = meta.cls('MetaPeripheral').methods.get('render_main_page_html')
    if base_render is None:
        raise AnalysisError('MetaPeripheral.render_main_page_html not found')
    ok = all(isinstance(r.value, ast.Constant) and r.value.value is None for r in returns_of(base_render))
    rep.check('R18.d', fkey(base_render), ok, 'non-template peripherals contribute no raw content' if ok else
              'MetaPeripheral.render_main_page_html returns raw content', base_render.mod, base_render.node)

    class _F(object):
        def __init__(self, name):
            self.name = 'clastic/' + name
            self.relpath = 'clastic/' + name
    for f in files:
        with open(os.path.join(pkg_dir, f), encoding='utf-8') as fh:
            text = fh.read()
        allow = ('{content|s}',) if f == 'meta_base.html' else ()
        check_template_escaping(rep, 'R18.d', repo, _F(f), f, text, allow=allow)
    aw = autoescape_writes(repo)
    rep.check('R18.d', 'clastic::autoescape_filter', not aw, 'no code in clastic assigns autoescape_filter' if not aw else
              'autoescape_filter is assigned somewhere in clastic', meta)
    mi = meta.func('MetaApplication.__init__')

    def names_base(e):
        return any(_fold_any(repo, mi, y) == 'meta_base.html' for x in _with_locals(mi, e) for y in ast.walk(x)
                   if isinstance(y, (ast.Constant, ast.Name, ast.Attribute)))
    renders = [s for s in stmts_of(mi.node) if isinstance(s, ast.Assign) and any(norm(t) == 'self._main_page_render' for t in s.targets)]
    if not renders:
        raise AnalysisError('MetaApplication.__init__: assignment of self._main_page_render not found')
    ok = all(names_base(s.value) for s in renders)
    rep.check('R18.d', fkey(mi, 'main template'), ok, 'the main page is rendered from meta_base.html' if ok else 'the main page template changed', meta, mi.node)
    _listing_agreement(rep, repo, meta, files, pkg_dir)
    rep.floor('R18.d', 40)


def run(rep):
    repo = rep.repo
    meta = repo.mod(META)
    rep.decide('R18.a resource values only on the non-secret branch / no object leaks into contexts; R18.b middleware info '
               'and reprs; R18.c per-section fail-soft handlers in every routed view; R18.d meta templates escape; R18.e no '
               'textual representation of a class of the tree prints resource values / key material; R18.f no value of a kind '
               'the JSON encoder is certain to reject is put into a page context')
    rep.decline('"200 for any host application" beyond the fail-soft handlers and the kinds of R18.f (JSON encodability of attributes of '
                'host objects); secrets inside the repr of resources whose name does not contain "secret" and whose class is not part of the tree')
    rep.rule('R18.a', 'taint: .resources values reach output only under ("secret" in key) == False')
    rep.rule('R18.b', 'attribute reads in get_mw_infos and in middleware __repr__ methods')
    rep.rule('R18.c', 'must-catch around each peripheral call')
    rep.rule('R18.d', 'Dust reference escaping of the meta templates')
    rep.rule('R18.f', 'abstract kinds: no class / callable / exception / lazy iterator / module / plain instance / unconverted host-suppliable injected value is put into a page context')
    rep.rule('R18.e', 'taint: no __repr__ / __str__ / generated repr of a class of the tree, no method the views call on a host object, prints resource values / key material / the instance dictionary')

    def group(fn):
        def rule_group():
            try:
                return fn(rep, repo, meta)
            except AnalysisError:
                raise
            except RecursionError as e:
                raise AnalysisError('%s: construct too deep to analyse (%s)' % (fn.__name__.strip('_'), e))
            except (AttributeError, KeyError, IndexError, TypeError, ValueError) as e:
                raise AnalysisError('%s: unexpected shape (%s: %s)' % (fn.__name__.strip('_'), type(e).__name__, e))
        rule_group.__name__ = fn.__name__.strip('_')
        return rule_group
    for fn in (_r18a, _r18b, _r18c, _r18d, _r18e, _r18f):
        rep.guard(group(fn))
