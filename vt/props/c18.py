"""C18 -- The meta application never reveals secrets and always renders.

Decided:
  R18.a  who may read resource values: every read of a ``.resources`` attribute in meta.py is key-only
         (``in``, ``.keys()``, ``len``), a constant-key subscript on the meta application's own resources,
         or the items() loop of get_resource_info, in which the *value* variable is used only on the branch
         where ``'secret' in key`` is false, and the true branch stores a constant marker; no peripheral
         context stores an Application / route / middleware / request object itself (so the JSON encoder
         cannot reach a value by traversal);
  R18.b  middleware info: get_mw_infos reads only the class name, provides, requires and repr(mw); no
         ``__repr__`` of a Middleware subclass in clastic reads an attribute whose name contains 'secret'
         or 'key' (SignedCookieMiddleware.__repr__ shows arg_name and cookie_name only);
  R18.c  sections fail soft: in get_main the inject(peri.get_context, ...) call, and in
         render_main_page_html both inject calls, are each under ``except Exception`` handlers that
         substitute a placeholder and do not re-raise;
  R18.d  templates: every reference of the meta_*.html templates is escaped, except the allow-listed
         {content|s} of meta_base.html, whose value is an ashes render of a checked section template.
Declined: "200 for any host application" beyond R18.c; secrets inside the repr of non-secret-named resources.
"""
import ast
import os

from ..core import AnalysisError, norm, short
from .c20 import check_template_escaping, autoescape_writes
from .common import (cfg_of, fkey, conds, has_cond, cond_texts, stmts_of, walk_body, call_tail, call_name, returns_of,
                     raises_of, stmt_of, kwarg, protected_by, names_loaded)

META = 'clastic.meta'
OBJECT_NAMES = {'_application', 'app', 'application', 'route', 'r', 'mw', 'request', '_route', '_meta_application', 'self'}


def run(rep):
    repo = rep.repo
    meta = repo.mod(META)
    rep.decide('R18.a resource values only on the non-secret branch / no object leaks into contexts; R18.b middleware info '
               'and reprs; R18.c per-section fail-soft handlers; R18.d meta templates escape')
    rep.decline('"200 for any host application" beyond the fail-soft handlers (JSON encodability of arbitrary contexts); '
                'secrets inside the repr of resources whose name does not contain "secret"')
    rep.rule('R18.a', 'taint: .resources values reach output only under ("secret" in key) == False')
    rep.rule('R18.b', 'attribute reads in get_mw_infos and in middleware __repr__ methods')
    rep.rule('R18.c', 'must-catch around each peripheral call')
    rep.rule('R18.d', 'Dust reference escaping of the meta templates')

    # ---- R18.a -----------------------------------------------------------
    reads = []
    for fi in meta.functions.values():
        for n in walk_body(fi.node):
            if isinstance(n, ast.Attribute) and n.attr == 'resources' and isinstance(n.ctx, ast.Load):
                reads.append((fi, n))
    if len(reads) < 3:
        raise AnalysisError('meta.py: only %d reads of .resources found (floor 3)' % len(reads))
    for fi, n in reads:
        par = meta.parents.get(n)
        gp = meta.parents.get(par)
        kind = None
        if isinstance(par, ast.Compare) and n in par.comparators and isinstance(par.ops[0], (ast.In, ast.NotIn)):
            kind = 'key membership'
        elif isinstance(par, ast.Attribute) and par.attr == 'keys':
            kind = 'keys()'
        elif isinstance(par, ast.Call) and call_name(par) == 'len':
            kind = 'len()'
        elif isinstance(par, ast.Subscript) and isinstance(par.slice, ast.Constant) and norm(n.value) in ('_meta_application', 'self'):
            kind = 'own constant key %r of the meta application' % par.slice.value
        elif isinstance(par, ast.Attribute) and par.attr == 'items' and isinstance(gp, ast.Call):
            loop = meta.parents.get(gp)
            if isinstance(loop, ast.For) and isinstance(loop.target, ast.Tuple) and len(loop.target.elts) == 2:
                kv, vv = [norm(x) for x in loop.target.elts]
                is_secret = lambda t: norm(t) == "'secret' in %s" % kv or norm(t) == "'secret' in %s.lower()" % kv
                uses = [x for x in ast.walk(loop) if isinstance(x, ast.Name) and x.id == vv and isinstance(x.ctx, ast.Load)]
                bad = [x for x in uses if not has_cond(conds(fi, x), is_secret, False)]
                marks = [s for s in ast.walk(loop) if isinstance(s, ast.Assign) and isinstance(s.value, ast.Constant) and
                         has_cond(conds(fi, s), is_secret, True)]
                # the name that is tested is the resource's real name: the key variable is never re-bound in the loop
                rebinds = [x for x in ast.walk(loop) if isinstance(x, ast.Name) and x.id == kv and isinstance(x.ctx, ast.Store) and
                           not any(x is y for y in ast.walk(loop.target))]
                rep.check('R18.a', fkey(fi, 'key variable intact'), not rebinds,
                          "the 'secret' test looks at the resource name itself" if not rebinds else
                          'the key variable %s is re-bound inside the loop (truncated / transformed) before the "secret" test: the decision is '
                          'made on something else than the resource name' % kv, meta, rebinds[0] if rebinds else loop)
                ok = not bad and len(marks) >= 1 and bool(uses)
                rep.check('R18.a', fkey(fi, 'items() loop'), ok,
                          "the value variable %s is read only where ('secret' in %s) is false; the other branch stores the constant %r"
                          % (vv, kv, marks[0].value.value if marks else None) if ok else
                          'a resource value is used without the "secret" test being false (%d unguarded uses) or no redaction marker is stored'
                          % len(bad), meta, (bad or [loop])[0])
                # what is appended uses the branch variable
                tv = norm(marks[0].targets[0]) if marks else None
                outs = [c for c in ast.walk(loop) if isinstance(c, ast.Call) and call_tail(c) == 'append']
                ok2 = bool(outs) and all(vv not in names_loaded(c) for c in outs) and tv is not None and all(tv in names_loaded(c) for c in outs)
                rep.check('R18.a', fkey(fi, 'output value'), ok2, 'the listed value is the branch result (%s), never the raw value' % tv if ok2 else
                          'the raw resource value is put into the output', meta, outs[0] if outs else loop)
                continue
        rep.check('R18.a', fkey(fi, n) + '#' + str(reads.index((fi, n))), kind is not None,
                  'read of .resources is %s' % kind if kind else
                  '%s reads resource *values* (%s): secrets would be disclosed' % (fi.qualname, short(par)), meta, n)
    # arbitrary host objects reachable through signatures: the defaults of endpoint parameters are used by *name* only
    # (their values are user objects the non-dev JSON view cannot be assumed to encode, and may be sensitive)
    n_def = 0
    for fi in meta.functions.values():
        dvars = set(norm(s.targets[0]) for s in stmts_of(fi.node) if isinstance(s, ast.Assign) and isinstance(s.value, ast.Call)
                    and call_tail(s.value) == 'get_defaults_dict')
        for n in walk_body(fi.node):
            if isinstance(n, ast.Name) and n.id in dvars and isinstance(n.ctx, ast.Load):
                n_def += 1
                par = meta.parents.get(n)
                key_only = (isinstance(par, ast.Compare) and n in par.comparators and isinstance(par.ops[0], (ast.In, ast.NotIn))) or \
                    (isinstance(par, ast.Attribute) and par.attr == 'keys') or (isinstance(par, ast.Call) and call_name(par) in ('len', 'sorted', 'list', 'set'))
                rep.check('R18.a', fkey(fi, 'defaults use ' + norm(par)[:50]), key_only, 'parameter defaults are consulted by name only' if key_only else
                          '%s reads the *value* of an endpoint parameter default (%s) into the meta context: an arbitrary host object reaches the '
                          'JSON view (encoder failure => 500 for the whole view, or disclosure)' % (fi.qualname, short(par)), meta, n)
    # contexts never hold framework objects themselves
    ctx_funcs = [fi for q, fi in meta.functions.items() if fi.name in ('get_context',) or q in
                 ('get_route_infos', 'get_resource_info', 'get_mw_infos', 'get_endpoint_info', 'get_render_info', 'get_route_arg_info')]
    n_vals = 0
    for fi in ctx_funcs:
        for n in walk_body(fi.node):
            vals = []
            if isinstance(n, ast.Dict):
                vals = list(n.values)
            elif isinstance(n, ast.Assign) and isinstance(n.targets[0], ast.Subscript):
                vals = [n.value]
            for v in vals:
                n_vals += 1
                if isinstance(v, ast.Name) and v.id in OBJECT_NAMES:
                    rep.fail('R18.a', fkey(fi, 'context value ' + v.id), 'the %s object itself is stored in a page context: the JSON view would '
                             'traverse it (resources, secret keys)' % v.id, meta, v)
    rep.ok('R18.a', '%s::context values' % META, '%d values stored in peripheral contexts; none is an application/route/middleware/request object' % n_vals, meta)
    rep.floor('R18.a', 5)

    # ---- R18.b -----------------------------------------------------------
    gm = meta.func('get_mw_infos')
    loop = [s for s in stmts_of(gm.node) if isinstance(s, ast.For)]
    if len(loop) != 1:
        raise AnalysisError('get_mw_infos: loop not found')
    mv = norm(loop[0].target)
    attrs = set()
    for n in ast.walk(loop[0]):
        if isinstance(n, ast.Attribute) and isinstance(n.value, ast.Name) and n.value.id == mv:
            attrs.add(n.attr)
        if isinstance(n, ast.Call) and call_name(n) in ('vars', 'getattr') and n.args and norm(n.args[0]) == mv:
            attrs.add('<%s>' % call_name(n))
        if isinstance(n, ast.Attribute) and n.attr == '__dict__' and norm(n.value) == mv:
            attrs.add('__dict__')
    ok = attrs <= {'__class__', 'provides', 'requires', 'endpoint_provides', 'render_provides', 'name'}
    rep.check('R18.b', fkey(gm, 'attributes read'), ok, 'only %s (and repr(mw)) are read from a middleware' % sorted(attrs) if ok else
              'get_mw_infos reads %s from middlewares' % sorted(attrs), meta, gm.node)
    mwbase = repo.mod('clastic.middleware.core').cls('Middleware')
    n_repr = 0
    for m in repo.all_internal_modules():
        for c in m.classes.values():
            if c is mwbase or mwbase not in repo.mro(c):
                continue
            for nm in ('__repr__', '__str__'):
                r = c.methods.get(nm)
                if r is None:
                    continue
                n_repr += 1
                read = sorted(set(n.attr for n in ast.walk(r.node) if isinstance(n, ast.Attribute) and isinstance(n.value, ast.Name) and n.value.id == 'self'))
                bad = [a for a in read if 'secret' in a.lower() or a.lower() in ('key', 'secret_key', 'signing_key', 'password') or a.lower().endswith('_key')]
                wide = any(isinstance(n, ast.Call) and call_name(n) == 'vars' for n in ast.walk(r.node)) or \
                    any(isinstance(n, ast.Attribute) and n.attr == '__dict__' for n in ast.walk(r.node))
                rep.check('R18.b', fkey(r), not bad and not wide, '%s.%s shows %s' % (c.name, nm, read) if not bad and not wide else
                          '%s.%s exposes %s (shown on the meta page for every visitor)' % (c.name, nm, bad or '__dict__'), m, r.node)
    if n_repr < 3:
        raise AnalysisError('only %d middleware __repr__ methods found (floor 3)' % n_repr)
    rep.floor('R18.b', 4)

    # ---- R18.c -----------------------------------------------------------
    gmn = meta.func('MetaApplication.get_main')
    rmp = meta.func('MetaApplication.render_main_page_html')
    n_inj = 0
    for fi, floor in ((gmn, 1), (rmp, 2)):
        inj = [c for c in walk_body(fi.node) if isinstance(c, ast.Call) and call_name(c) == 'inject']
        if len(inj) < floor:
            raise AnalysisError('%s: %d inject calls (floor %d)' % (fi.qualname, len(inj), floor))
        for c in inj:
            n_inj += 1
            h = protected_by(fi, c, 'Exception')
            ok = h is not None and not any(isinstance(r, ast.Raise) for r in ast.walk(h)) and \
                any(isinstance(s, ast.Assign) for s in h.body)
            rep.check('R18.c', fkey(fi, c), ok, 'a failing peripheral is replaced by a placeholder (handler: except %s)' % (norm(h.type) if h else None) if ok else
                      'a failing peripheral call %s fails the whole meta page' % short(c), meta, c)
            # the protected call is inside the per-peripheral loop (one bad section does not hide the others)
            loop_ = [s for s in stmts_of(fi.node) if isinstance(s, ast.For) and any(c is x for x in ast.walk(s))]
            ok = len(loop_) >= 1 and 'peripherals' in norm(loop_[0].iter)
            rep.check('R18.c', fkey(fi, c) + '::per section', ok, 'handled per peripheral' if ok else 'not handled per peripheral', meta, c)
    ok = any(isinstance(c, ast.Call) and norm(c.func).endswith('setdefault') for c in walk_body(gmn.node))
    # (the update of full_ctx happens after the handler, so a placeholder is merged like a real context)
    rep.floor('R18.c', 6)

    # ---- R18.d -----------------------------------------------------------
    pkg_dir = os.path.join(repo.root, 'clastic')
    files = sorted(f for f in os.listdir(pkg_dir) if f.startswith('meta_') and f.endswith('.html'))
    if len(files) < 8:
        raise AnalysisError('only %d meta templates found (floor 8)' % len(files))
    # which template does each ashes peripheral render?
    sect = {}
    amp = meta.cls('AshesMetaPeripheral')
    for c in meta.classes.values():
        if c is not amp and amp in repo.mro(c):
            tp = c.class_attrs.get('template_path')
            sect[c.name] = repo.try_fold(tp, meta) if tp is not None else None
    rend = amp.methods['render_main_page_html']
    ok = all(isinstance(r.value, ast.Call) and norm(r.value.func) == 'self.loaded_template.render' for r in returns_of(rend)) and returns_of(rend)
    rep.check('R18.d', fkey(rend), bool(ok), 'section HTML is an ashes render of the peripheral\'s own template' if ok else
              'AshesMetaPeripheral.render_main_page_html does not return self.loaded_template.render(...)', meta, rend.node)
    init = amp.methods['__init__']
    ok = any(isinstance(s, ast.Assign) and norm(s.targets[0]) == 'self.loaded_template' and 'self.template_path' in norm(s.value) for s in stmts_of(init.node))
    rep.check('R18.d', fkey(init), ok, 'loaded_template is loaded from self.template_path' if ok else 'loaded_template does not come from template_path', meta, init.node)
    for cname, tp in sorted(sect.items()):
        rep.check('R18.d', '%s::%s.template_path' % (META, cname), tp in files, '%s renders %s' % (cname, tp) if tp in files else
                  '%s renders %r, which is not a shipped meta template' % (cname, tp), meta)
    base_render = meta.cls('MetaPeripheral').methods['render_main_page_html']
    ok = all(isinstance(r.value, ast.Constant) and r.value.value is None for r in returns_of(base_render))
    rep.check('R18.d', fkey(base_render), ok, 'non-template peripherals contribute no raw content' if ok else
              'MetaPeripheral.render_main_page_html returns raw content', meta, base_render.node)
    class _F(object):
        def __init__(self, name):
            self.name = 'clastic/' + name
            self.relpath = 'clastic/' + name
    for f in files:
        with open(os.path.join(pkg_dir, f), encoding='utf-8') as fh:
            text = fh.read()
        allow = ('{content|s}',) if f == 'meta_base.html' else ()
        check_template_escaping(rep, 'R18.d', repo, _F(f), f, text, allow=allow)
    aw = autoescape_writes(repo)
    rep.check('R18.d', 'clastic::autoescape_filter', not aw, 'no code in clastic assigns autoescape_filter' if not aw else
              'autoescape_filter is assigned somewhere in clastic', meta)
    mi = meta.func('MetaApplication.__init__')
    ok = any(isinstance(s, ast.Assign) and norm(s.targets[0]) == 'self._main_page_render' and "'meta_base.html'" in norm(s.value) for s in stmts_of(mi.node))
    rep.check('R18.d', fkey(mi, 'main template'), ok, 'the main page is rendered from meta_base.html' if ok else 'the main page template changed', meta, mi.node)
    rep.floor('R18.d', 40)
