"""CLI:  python -m vt check C07 [--tier quick|thorough] [--root /repo]
          python -m vt all [--tier quick]
          python -m vt explain C07
          python -m vt replay <violation.json>
          python -m vt selftest [--jobs N] [--only C07]
"""
import argparse
import importlib
import json
import os
import sys
import traceback

from .core import AnalysisError, Report, finish, EXIT_ANALYSIS, EXIT_OK, EXIT_VIOLATION
from .loader import Repo

ALL = ['C%02d' % i for i in range(1, 21)]


def run_check(pid, tier, root, quiet=False):
    try:
        modname = 'vt.props.%s' % pid.lower()
        try:
            pm = importlib.import_module(modname)
        except ImportError as e:
            if getattr(e, 'name', None) == modname:
                print('ANALYSIS-ERROR property=%s no check registered' % pid)
                return EXIT_ANALYSIS
            raise
        repo = Repo(root)
        rep = Report(pid, tier, repo)
        pm.run(rep)
        if tier == 'thorough':
            if hasattr(pm, 'run_thorough'):
                pm.run_thorough(rep)
            from .core import is_known, known_set
            _kt = known_set(pid)
            if not any(not o.ok for o in rep.obligations if not is_known(pid, o.rule, o.key, _kt)):
                # self-validation of the rules of this property on scratch copies (evidence about the checker;
                # the verdict below is about /repo only)
                from . import selftest
                rc2 = selftest.run(only=pid, root=root, quiet=True)
                s = dict(selftest.run.last_summary or {})
                s['mismatches'] = [r for r in (selftest.run.last_results or []) if r['status'] not in ('ok', 'skipped')]
                rep.extra['self_validation'] = s
                for r in s['mismatches']:
                    print('SELFTEST-MISMATCH property=%s variant=%s %s' % (pid, r['id'], r['detail'][:300]))
        seed = int(os.environ.get('VERIF_SEED', '0') or 0)
        return finish(rep, seed=seed, quiet=quiet)
    except AnalysisError as e:
        print('ANALYSIS-ERROR property=%s %s' % (pid, e))
        return EXIT_ANALYSIS
    except Exception:
        tb = traceback.format_exc()
        print('ANALYSIS-ERROR property=%s internal error in checker:\n%s' % (pid, tb))
        return EXIT_ANALYSIS


def main(argv=None):
    ap = argparse.ArgumentParser(prog='vt')
    sub = ap.add_subparsers(dest='cmd', required=True)
    c = sub.add_parser('check')
    c.add_argument('pid')
    c.add_argument('--tier', default=os.environ.get('VERIF_TIER') or 'quick', choices=['quick', 'thorough'])
    c.add_argument('--root', default=os.environ.get('VT_ROOT', '/repo'))
    a = sub.add_parser('all')
    a.add_argument('--tier', default='quick', choices=['quick', 'thorough'])
    a.add_argument('--root', default=os.environ.get('VT_ROOT', '/repo'))
    e = sub.add_parser('explain')
    e.add_argument('pid')
    r = sub.add_parser('replay')
    r.add_argument('path')
    s = sub.add_parser('selftest')
    s.add_argument('--jobs', type=int, default=min(16, os.cpu_count() or 4))
    s.add_argument('--only', default=None)
    s.add_argument('--root', default=os.environ.get('VT_ROOT', '/repo'))
    s.add_argument('-v', action='store_true')
    sh = sub.add_parser('show')     # print the normalised form of a module (debugging aid)
    sh.add_argument('module')
    sh.add_argument('--root', default=os.environ.get('VT_ROOT', '/repo'))
    args = ap.parse_args(argv)
    if args.cmd == 'show':
        import ast as _ast
        m = Repo(args.root).mod(args.module)
        print('# %s: %d helper call(s) inlined' % (m.relpath, m.inlined_calls))
        print(_ast.unparse(m.tree))
        return 0

    if args.cmd == 'check':
        pid = args.pid.upper()
        return run_check(pid, args.tier, args.root)
    if args.cmd == 'all':
        worst = 0
        for pid in ALL:
            rc = run_check(pid, args.tier, args.root)
            worst = max(worst, rc)
        return worst
    if args.cmd == 'explain':
        pm = importlib.import_module('vt.props.%s' % args.pid.lower())
        print(pm.__doc__)
        return 0
    if args.cmd == 'replay':
        with open(args.path) as f:
            data = json.load(f)
        for v in data['violations']:
            print('%s [%s] %s -- %s' % (v.get('where'), v['rule'], v['key'], v['detail']))
        return run_check(data['property'], 'quick', data.get('root', '/repo'))
    if args.cmd == 'selftest':
        from . import selftest
        return selftest.run(only=args.only, root=args.root, jobs=args.jobs, verbose=args.v)
    return 2


if __name__ == '__main__':
    sys.exit(main())
