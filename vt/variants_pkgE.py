"""Variants for C10 / C11: distilled refactoring shapes the rules were taught to follow (T) and the breaking counterparts
of the judgements that became role-based (B)."""
from .variants import B, T, S, C, R, A, E, ST, CK, STATS, GZ, CC, PF, RS, FL, META, CE

_BIND_ALL_LOOP = ('        for rt in self.app.routes:\n'
                  '            if isinstance(rt, NullRoute):\n'
                  '                continue\n'
                  '            bound_rt = rt.bind(app, **kwargs)\n'
                  '            ret.append(bound_rt)\n'
                  '\n'
                  '        return ret\n')
_RENDER_ERROR_SEL = ('        if rebind_render_error:\n'
                     "            render_error = getattr(app.error_handler, 'render_error', None)\n"
                     '        else:\n'
                     '            render_error = route.render_error\n'
                     '        if callable(render_error):\n'
                     '            check_render_error(render_error, self.resources)\n'
                     '        self.render_error = render_error\n')
_RENDER_SEL = ('        if callable(unbound_route.render):\n'
               '            # explicit callable renders always take precedence\n'
               '            render = unbound_route.render\n'
               '            render_factory = None\n'
               '        elif bind_render and render_factory and unbound_route.render is not None:\n'
               '            render = render_factory(unbound_route.render)\n'
               '        else:\n'
               '            # default to carrying through values from the route\n'
               '            render = route.render if callable(route.render) else _noop_render\n'
               "            render_factory = getattr(route, 'render_factory', None)\n"
               '        self.render_factory = render_factory\n'
               '        self.render = render\n')
_RESOURCES = ("        app_resources = getattr(app, 'resources', {})\n"
              '        self.resources = dict(app_resources)\n'
              "        self.resources.update(getattr(route, 'resources', {}))\n")
_ADD_DEFAULTS = ("        kwargs.setdefault('rebind_render', getattr(rf, 'rebind_render', True))\n"
                 "        kwargs.setdefault('inherit_slashes', getattr(rf, 'inherit_slashes', True))\n")
_ADD_BIND = ("        if callable(getattr(rf, 'bind_all', None)):\n"
             '            bound_routes = rf.bind_all(self, **kwargs)\n'
             '        else:\n'
             '            bound_routes = [rf.bind(self, **kwargs)]\n')
_REQ_ID = ('        request = self.request_type(environ)\n'
           '        try:\n'
           "            # some request objects might not be amenable to assignment\n"
           '            request.request_id = next(_REQ_ID_ITER)\n'
           '        except Exception:\n'
           '            pass\n'
           '        else:\n'
           '            request.request_guid = int2hexguid(request.request_id)\n')

# ------------------------------------------------------------------ SubApplication.bind_all
T('e_bind_all_listcomp', ['C10', 'C11'],
  (A, '        ret = []\n\n        kwargs[\'prefix\']', "        kwargs['prefix']"),
  (A, _BIND_ALL_LOOP, '        return [rt.bind(app, **kwargs) for rt in self.app.routes\n                if not isinstance(rt, NullRoute)]\n'))
T('e_bind_all_positive_guard', ['C10', 'C11'],
  (A, _BIND_ALL_LOOP, '        for rt in self.app.routes:\n            if not isinstance(rt, NullRoute):\n'
                      '                ret.append(rt.bind(app, **kwargs))\n\n        return ret\n'))
T('e_bind_all_routes_temp', ['C10', 'C11'],
  (A, '        for rt in self.app.routes:\n            if isinstance(rt, NullRoute):\n                continue\n            bound_rt',
      '        inner_routes = self.app.routes\n        for rt in inner_routes:\n            if isinstance(rt, NullRoute):\n                continue\n            bound_rt'))
T('e_bind_all_kwargs_copy', ['C10', 'C11'],
  (A, "        kwargs['prefix'] = self.prefix\n        kwargs.setdefault('rebind_render', self.rebind_render)\n"
      "        kwargs.setdefault('inherit_slashes', self.inherit_slashes)\n",
      "        kwargs.setdefault('rebind_render', self.rebind_render)\n        kwargs.setdefault('inherit_slashes', self.inherit_slashes)\n"
      "        bind_kwargs = dict(kwargs, prefix=self.prefix)\n"),
  (A, '            bound_rt = rt.bind(app, **kwargs)\n            ret.append(bound_rt)', '            bound_rt = rt.bind(app, **bind_kwargs)\n            ret.append(bound_rt)'))
B('e_bind_all_prefix_only_default', ['C10'], 'R10.a',
  (A, "        kwargs['prefix'] = self.prefix\n", "        kwargs.setdefault('prefix', self.prefix)\n"))
B('e_bind_all_prefix_under_callers', ['C10'], 'R10.a',
  (A, "        kwargs['prefix'] = self.prefix\n        kwargs.setdefault('rebind_render', self.rebind_render)\n"
      "        kwargs.setdefault('inherit_slashes', self.inherit_slashes)\n",
      "        kwargs.setdefault('rebind_render', self.rebind_render)\n        kwargs.setdefault('inherit_slashes', self.inherit_slashes)\n"
      "        bind_kwargs = dict({'prefix': self.prefix}, **kwargs)\n"),
  (A, '            bound_rt = rt.bind(app, **kwargs)\n            ret.append(bound_rt)', '            bound_rt = rt.bind(app, **bind_kwargs)\n            ret.append(bound_rt)'))
B('e_bind_all_listcomp_keeps_null_route', ['C10'], 'R10.a',
  (A, '        ret = []\n\n        kwargs[\'prefix\']', "        kwargs['prefix']"),
  (A, _BIND_ALL_LOOP, '        return [rt.bind(app, **kwargs) for rt in self.app.routes]\n'))
B('e_bind_all_listcomp_reversed', ['C10'], 'R10.a',
  (A, '        ret = []\n\n        kwargs[\'prefix\']', "        kwargs['prefix']"),
  (A, _BIND_ALL_LOOP, '        return [rt.bind(app, **kwargs) for rt in reversed(self.app.routes)\n                if not isinstance(rt, NullRoute)]\n'))
B('e_bind_all_listcomp_extra_filter', ['C10'], 'R10.a',
  (A, '        ret = []\n\n        kwargs[\'prefix\']', "        kwargs['prefix']"),
  (A, _BIND_ALL_LOOP, '        return [rt.bind(app, **kwargs) for rt in self.app.routes\n'
                      '                if not isinstance(rt, NullRoute) and rt.methods]\n'))
B('e_bind_all_rebind_render_forced', ['C10'], 'R10.e',
  (A, "        kwargs.setdefault('rebind_render', self.rebind_render)\n", "        kwargs['rebind_render'] = self.rebind_render\n"))
B('e_bind_all_lazy_genexp', ['C11'], 'R11.b',
  (A, '        ret = []\n\n        kwargs[\'prefix\']', "        kwargs['prefix']"),
  (A, _BIND_ALL_LOOP, '        return (rt.bind(app, **kwargs) for rt in self.app.routes\n                if not isinstance(rt, NullRoute))\n'))

# ------------------------------------------------------------------ BoundRoute.__init__: render_error
T('e_render_error_stored_directly', ['C10', 'C11'],
  (R, _RENDER_ERROR_SEL,
      '        if not rebind_render_error:\n            self.render_error = route.render_error\n        else:\n'
      "            self.render_error = getattr(app.error_handler, 'render_error', None)\n"
      '        if callable(self.render_error):\n            check_render_error(self.render_error, self.resources)\n'))
T('e_render_error_condexpr', ['C10', 'C11'],
  (R, '        if rebind_render_error:\n'
      "            render_error = getattr(app.error_handler, 'render_error', None)\n"
      '        else:\n'
      '            render_error = route.render_error\n',
      "        render_error = getattr(app.error_handler, 'render_error', None) if rebind_render_error else route.render_error\n"))
B('e_render_error_route_first', ['C10'], 'R10.d',
  (R, _RENDER_ERROR_SEL,
      '        self.render_error = route.render_error\n        if rebind_render_error and not callable(self.render_error):\n'
      "            self.render_error = getattr(app.error_handler, 'render_error', None)\n"
      '        if callable(self.render_error):\n            check_render_error(self.render_error, self.resources)\n'))
B('e_render_error_checked_is_not_stored', ['C10'], 'R10.d',
  (R, '        self.render_error = render_error\n', '        self.render_error = render_error\n        self.render_error = route.render_error\n'))
B('e_render_error_checked_against_app_resources', ['C10'], 'R10.d',
  (R, '            check_render_error(render_error, self.resources)', '            check_render_error(render_error, app_resources)'))

# ------------------------------------------------------------------ BoundRoute.__init__: render selection
T('e_render_named_temporaries', ['C10', 'C11'],
  (R, '        bind_render = rebind_render or route.render is _noop_render or not callable(route.render)\n',
      '        unbound_render = self.unbound_route.render\n        current_render = route.render\n'
      '        bind_render = (rebind_render or current_render is _noop_render or not callable(current_render))\n'),
  (R, 'render_factory = first(reversed(render_factory_list), key=callable)', 'newest_factory = first(reversed(render_factory_list), key=callable)'),
  (R, _RENDER_SEL,
      '        if callable(unbound_render):\n            self.render = unbound_render\n            self.render_factory = None\n'
      '        elif bind_render and newest_factory and unbound_render is not None:\n'
      '            self.render = newest_factory(unbound_render)\n            self.render_factory = newest_factory\n'
      '        else:\n            carried = current_render if callable(current_render) else _noop_render\n'
      "            self.render = carried\n            self.render_factory = getattr(route, 'render_factory', None)\n"),
  (R, 'unbound_route.endpoint, render, provided)', 'unbound_route.endpoint, self.render, provided)'))
B('e_render_carry_through_prefers_noop', ['C10'], 'R10.e',
  (R, '            render = route.render if callable(route.render) else _noop_render\n',
      '            render = _noop_render if callable(route.render) else route.render\n'))
B('e_render_factory_without_bind_render', ['C10'], 'R10.e',
  (R, '        elif bind_render and render_factory and unbound_route.render is not None:', '        elif render_factory and unbound_route.render is not None:'))
B('e_render_overwritten_after_selection', ['C10'], 'R10.e',
  (R, '        self.render = render\n', '        self.render = render\n        if rebind_render:\n            self.render = route.render\n'))

# ------------------------------------------------------------------ BoundRoute.__init__: prefix, resources
T('e_pattern_percent_format', ['C10'],
  (R, '        self.pattern = prefix + route.pattern', "        self.pattern = '%s%s' % (prefix, route.pattern)"))
B('e_pattern_prefix_appended', ['C10'], 'R10.b',
  (R, '        self.pattern = prefix + route.pattern', "        self.pattern = '%s%s' % (route.pattern, prefix)"))
T('e_resources_named_temporary', ['C10', 'C11'],
  (R, _RESOURCES, "        merged_resources = dict(getattr(app, 'resources', {}))\n"
                  "        merged_resources.update(getattr(route, 'resources', {}))\n        self.resources = merged_resources\n"),
  (R, '            check_render_error(render_error, self.resources)', '            check_render_error(render_error, merged_resources)'))
B('e_resources_temp_is_the_apps_dict', ['C11'], 'R11.a',
  (R, _RESOURCES, "        merged_resources = getattr(app, 'resources', {})\n"
                  "        merged_resources.update(getattr(route, 'resources', {}))\n        self.resources = merged_resources\n"))
B('e_resources_kept_by_reference_when_route_has_none', ['C11'], 'R11.a',
  (R, _RESOURCES, "        app_resources = getattr(app, 'resources', {})\n        route_resources = getattr(route, 'resources', {})\n"
                  '        if route_resources:\n            self.resources = dict(app_resources)\n            self.resources.update(route_resources)\n'
                  '        else:\n            self.resources = app_resources\n'))

# ------------------------------------------------------------------ Application.__init__ / add
T('e_app_init_conditional_copies', ['C11'],
  (A, '        self.resources = dict(resources or {})\n', '        self.resources = dict(resources) if resources else {}\n'),
  (A, '        self.middlewares = list(middlewares or [])\n', '        self.middlewares = list(middlewares) if middlewares else []\n'))
B('e_app_init_conditional_alias', ['C11'], 'R11.a',
  (A, '        self.resources = dict(resources or {})\n', '        self.resources = resources if resources else {}\n'))
T('e_add_option_loop', ['C10', 'C11'],
  (A, _ADD_DEFAULTS, "        for opt_name in ('rebind_render', 'inherit_slashes'):\n"
                     '            kwargs.setdefault(opt_name, getattr(rf, opt_name, True))\n'))
T('e_add_if_not_in', ['C10', 'C11'],
  (A, "        kwargs.setdefault('rebind_render', getattr(rf, 'rebind_render', True))\n",
      "        rf_rebind_render = getattr(rf, 'rebind_render', True)\n        if 'rebind_render' not in kwargs:\n"
      "            kwargs['rebind_render'] = rf_rebind_render\n"))
B('e_add_rebind_render_forced', ['C10'], 'R10.e',
  (A, "        kwargs.setdefault('rebind_render', getattr(rf, 'rebind_render', True))\n",
      "        kwargs['rebind_render'] = getattr(rf, 'rebind_render', True)\n"))
T('e_add_named_bind_all', ['C10', 'C11'],
  (A, _ADD_BIND, "        bind_all = getattr(rf, 'bind_all', None)\n        if callable(bind_all):\n"
                 '            bound_routes = bind_all(self, **kwargs)\n        else:\n            bound_routes = [rf.bind(self, **kwargs)]\n'))
T('e_add_flag_then_negated_test', ['C10', 'C11'],
  (A, _ADD_BIND, "        has_bind_all = callable(getattr(rf, 'bind_all', None))\n        if not has_bind_all:\n"
                 '            bound_routes = [rf.bind(self, **kwargs)]\n        else:\n            bound_routes = rf.bind_all(self, **kwargs)\n'))
T('e_add_enumerate_insert', ['C11'],
  (A, '        for br in bound_routes:\n            self.routes.insert(index, br)\n            index += 1\n',
      '        for offset, br in enumerate(bound_routes):\n            self.routes.insert(index + offset, br)\n'))
B('e_add_enumerate_over_iterator', ['C11'], 'R11.b',
  (A, '            bound_routes = rf.bind_all(self, **kwargs)\n', '            bound_routes = iter(rf.bind_all(self, **kwargs))\n'),
  (A, '        for br in bound_routes:\n            self.routes.insert(index, br)\n            index += 1\n',
      '        for offset, br in enumerate(bound_routes):\n            self.routes.insert(index + offset, br)\n'))
B('e_add_named_bind_all_after_insert', ['C11'], 'R11.b',
  (A, _ADD_BIND, "        bind_all = getattr(rf, 'bind_all', None)\n        if callable(bind_all):\n"
                 '            self.routes.insert(index, self._null_route)\n'
                 '            bound_routes = bind_all(self, **kwargs)\n            self.routes.pop(index)\n'
                 '        else:\n            bound_routes = [rf.bind(self, **kwargs)]\n'))

# ------------------------------------------------------------------ cast_to_route_factory / dispatch
T('e_cast_guard_clauses', ['C10', 'C11'],
  (A, '    elif isinstance(in_arg, Sequence):\n        try:\n            if isinstance(in_arg[1], Application):\n'
      '                return SubApplication(*in_arg)\n            if callable(in_arg[1]):',
      '    elif isinstance(in_arg, Sequence):\n        try:\n            target = in_arg[1]\n            if isinstance(target, Application):\n'
      '                return SubApplication(*in_arg)\n            if callable(target):'))
B('e_cast_subapp_for_any_callable', ['C10'], 'R10.a',
  (A, '            if isinstance(in_arg[1], Application):\n                return SubApplication(*in_arg)\n',
      '            if callable(in_arg[1]) and hasattr(in_arg[1], \'routes\'):\n                return SubApplication(*in_arg)\n'))
T('e_dispatch_error_handler_inline', ['C10'],
  (A, '        err_handler = self.error_handler\n        base_params', '        base_params'),
  (A, r're:\berr_handler\.(not_found_type|uncaught_to_response)\b', r'self.error_handler.\1'))
B('e_dispatch_foreign_error_handler', ['C10'], 'R10.d',
  (A, '                    ret = err_handler.uncaught_to_response(**uncaught_params)',
      '                    ret = route.bound_apps[0].error_handler.uncaught_to_response(**uncaught_params)'))

# ------------------------------------------------------------------ process-wide state
T('e_request_id_helper', ['C11'],
  (A, _REQ_ID, '        request = self.request_type(environ)\n        self._tag_request(request)\n'),
  (A, '    def __call__(self, environ, start_response):\n',
      '    @staticmethod\n    def _tag_request(request):\n        try:\n            request.request_id = next(_REQ_ID_ITER)\n'
      '        except Exception:\n            return\n        request.request_guid = int2hexguid(request.request_id)\n\n'
      '    def __call__(self, environ, start_response):\n'))
B('e_request_id_helper_shared', ['C11'], 'R11.d',
  (A, _REQ_ID, '        request = self.request_type(environ)\n        self._tag_request(request)\n'),
  (A, '    def __call__(self, environ, start_response):\n',
      '    @staticmethod\n    def _tag_request(request):\n        try:\n            request.request_id = next(_REQ_ID_ITER)\n'
      '        except Exception:\n            return\n        request.request_guid = int2hexguid(request.request_id)\n\n'
      '    def __call__(self, environ, start_response):\n'),
  (A, '    def dispatch(self, request):\n        ret = None\n', '    def dispatch(self, request):\n        ret = None\n        self._tag_request(request)\n'))
T('e_merge_returns_renamed_list', ['C11'],
  (C, r're:\bmerged\b', 'result'))

# ================================================================== second batch: conditions read propositionally, keywords by role
_POPS = ("        prefix = kwargs.pop('prefix', '')\n"
         "        rebind_render = kwargs.pop('rebind_render', True)\n"
         "        inherit_slashes = kwargs.pop('inherit_slashes', True)\n"
         "        rebind_render_error = kwargs.pop('rebind_render_error', True)\n")
_BIND_RENDER = 'bind_render = rebind_render or route.render is _noop_render or not callable(route.render)'
_FIRST = '        render_factory = first(reversed(render_factory_list), key=callable)\n'
_CAST_SEQ = ('            if isinstance(in_arg[1], Application):\n'
             '                return SubApplication(*in_arg)\n'
             '            if callable(in_arg[1]):\n'
             '                return Route(*in_arg)\n')
_UNBOUND = "        self.unbound_route = unbound_route = getattr(route, 'unbound_route', route)\n"
_BOUND_APPS = "        self.bound_apps = getattr(route, 'bound_apps', []) + [app]\n"

# ---- bind_render in other spellings
T('e_bind_render_de_morgan', ['C10'],
  (R, _BIND_RENDER, 'keep_render = not rebind_render and route.render is not _noop_render and callable(route.render)\n        bind_render = not keep_render'))
T('e_bind_render_if_chain', ['C10'],
  (R, '        ' + _BIND_RENDER + '\n',
      '        if rebind_render:\n            bind_render = True\n        elif route.render is _noop_render:\n            bind_render = True\n'
      '        else:\n            bind_render = not callable(route.render)\n'))
B('e_bind_render_drops_noop_case', ['C10'], 'R10.e',
  (R, _BIND_RENDER, 'bind_render = rebind_render or not callable(route.render)'))
B('e_bind_render_widened', ['C10'], 'R10.e',
  (R, _BIND_RENDER, 'bind_render = rebind_render or route.render is _noop_render or not callable(route.render) or bool(app.debug)'))
B('e_bind_render_de_morgan_slip', ['C10'], 'R10.e',
  (R, _BIND_RENDER, 'keep_render = not rebind_render or route.render is not _noop_render and callable(route.render)\n        bind_render = not keep_render'))
B('e_bind_render_if_chain_slip', ['C10'], 'R10.e',
  (R, '        ' + _BIND_RENDER + '\n',
      '        if rebind_render:\n            bind_render = True\n        elif route.render is _noop_render:\n            bind_render = False\n'
      '        else:\n            bind_render = not callable(route.render)\n'))

# ---- bind keywords in other spellings
T('e_flags_tuple_of_pops', ['C10', 'C11'],
  (R, _POPS, "        prefix, rebind_render = kwargs.pop('prefix', ''), kwargs.pop('rebind_render', True)\n"
             "        inherit_slashes, rebind_render_error = kwargs.pop('inherit_slashes', True), kwargs.pop('rebind_render_error', True)\n"))
T('e_flag_spelled_out_default', ['C10', 'C11'],
  (R, "        rebind_render_error = kwargs.pop('rebind_render_error', True)\n",
      "        rebind_render_error = True\n        if 'rebind_render_error' in kwargs:\n            rebind_render_error = kwargs.pop('rebind_render_error')\n"))
B('e_flag_spelled_out_wrong_default', ['C10'], 'R10.d',
  (R, "        rebind_render_error = kwargs.pop('rebind_render_error', True)\n",
      "        rebind_render_error = False\n        if 'rebind_render_error' in kwargs:\n            rebind_render_error = kwargs.pop('rebind_render_error')\n"))
T('e_flag_negated_local', ['C10', 'C11'],
  (R, "        rebind_render_error = kwargs.pop('rebind_render_error', True)\n", "        keep_own_render_error = not kwargs.pop('rebind_render_error', True)\n"),
  (R, "        if rebind_render_error:\n            render_error = getattr(app.error_handler, 'render_error', None)\n        else:\n            render_error = route.render_error\n",
      "        if keep_own_render_error:\n            render_error = route.render_error\n        else:\n            render_error = getattr(app.error_handler, 'render_error', None)\n"))
B('e_flag_negated_local_swapped', ['C10'], 'R10.d',
  (R, "        rebind_render_error = kwargs.pop('rebind_render_error', True)\n", "        keep_own_render_error = not kwargs.pop('rebind_render_error', True)\n"),
  (R, "        if rebind_render_error:\n            render_error = getattr(app.error_handler, 'render_error', None)\n        else:\n            render_error = route.render_error\n",
      "        if not keep_own_render_error:\n            render_error = route.render_error\n        else:\n            render_error = getattr(app.error_handler, 'render_error', None)\n"))

# ---- default-then-override
T('e_render_error_default_then_override', ['C10', 'C11'],
  (R, "        if rebind_render_error:\n            render_error = getattr(app.error_handler, 'render_error', None)\n        else:\n            render_error = route.render_error\n",
      "        render_error = route.render_error\n        if rebind_render_error:\n            render_error = getattr(app.error_handler, 'render_error', None)\n"))
B('e_render_error_override_swapped', ['C10'], 'R10.d',
  (R, "        if rebind_render_error:\n            render_error = getattr(app.error_handler, 'render_error', None)\n        else:\n            render_error = route.render_error\n",
      "        render_error = getattr(app.error_handler, 'render_error', None)\n        if rebind_render_error:\n            render_error = route.render_error\n"))
T('e_carry_through_default_then_override', ['C10', 'C11'],
  (R, '            render = route.render if callable(route.render) else _noop_render\n',
      '            render = route.render\n            if not callable(render):\n                render = _noop_render\n'))

# ---- the newest factory, spelled out
T('e_factory_search_loop', ['C10', 'C11'],
  (R, _FIRST, '        render_factory = None\n        for candidate in reversed(render_factory_list):\n            if callable(candidate):\n'
              '                render_factory = candidate\n                break\n'))
B('e_factory_search_loop_oldest_first', ['C10'], 'R10.e',
  (R, _FIRST, '        render_factory = None\n        for candidate in render_factory_list:\n            if callable(candidate):\n'
              '                render_factory = candidate\n                break\n'))
B('e_factory_search_loop_last_wins', ['C10'], 'R10.e',
  (R, _FIRST, '        render_factory = None\n        for candidate in reversed(render_factory_list):\n            if callable(candidate):\n'
              '                render_factory = candidate\n'))
T('e_factory_next_genexp', ['C10', 'C11'],
  (R, _FIRST, '        render_factory = next((rf for rf in reversed(render_factory_list) if callable(rf)), None)\n'))

# ---- getattr defaults spelled out
T('e_unbound_route_try_except', ['C10', 'C11'],
  (R, _UNBOUND, '        try:\n            unbound_route = route.unbound_route\n        except AttributeError:\n            unbound_route = route\n'
                '        self.unbound_route = unbound_route\n'))
B('e_unbound_route_try_except_none', ['C10'], 'R10.b',
  (R, _UNBOUND, '        try:\n            unbound_route = route.unbound_route\n        except AttributeError:\n            unbound_route = route\n'
                '        self.unbound_route = route\n'))
T('e_bound_apps_hasattr', ['C10', 'C11'],
  (R, _BOUND_APPS, "        if hasattr(route, 'bound_apps'):\n            self.bound_apps = route.bound_apps + [app]\n        else:\n            self.bound_apps = [app]\n"))
B('e_bound_apps_hasattr_prepends', ['C10'], 'R10.b',
  (R, _BOUND_APPS, "        if hasattr(route, 'bound_apps'):\n            self.bound_apps = [app] + route.bound_apps\n        else:\n            self.bound_apps = [app]\n"))
T('e_bound_apps_copy_then_append', ['C10', 'C11'],
  (R, _BOUND_APPS, "        self.bound_apps = list(getattr(route, 'bound_apps', []))\n        self.bound_apps.append(app)\n"))
B('e_bound_apps_copy_then_insert_front', ['C10'], 'R10.b',
  (R, _BOUND_APPS, "        self.bound_apps = list(getattr(route, 'bound_apps', []))\n        self.bound_apps.insert(0, app)\n"))

# ---- cast_to_route_factory through a selector local
T('e_cast_selector_local', ['C10', 'C11'],
  (A, _CAST_SEQ, '            if isinstance(in_arg[1], Application):\n                factory_type = SubApplication\n'
                 '            elif callable(in_arg[1]):\n                factory_type = Route\n            else:\n                factory_type = None\n'
                 '            if factory_type is not None:\n                return factory_type(*in_arg)\n'))
B('e_cast_selector_local_swapped', ['C10'], 'R10.a',
  (A, _CAST_SEQ, '            if callable(in_arg[1]) and not isinstance(in_arg[1], Application):\n                factory_type = SubApplication\n'
                 '            elif isinstance(in_arg[1], Application):\n                factory_type = Route\n            else:\n                factory_type = None\n'
                 '            if factory_type is not None:\n                return factory_type(*in_arg)\n'))

# ---- bind_all: pre-filter, extend, .get defaults
T('e_bind_all_prefilter_then_bind', ['C10', 'C11'],
  (A, '        ret = []\n\n        kwargs[\'prefix\']', "        kwargs['prefix']"),
  (A, _BIND_ALL_LOOP, '        inner = [rt for rt in self.app.routes if not isinstance(rt, NullRoute)]\n        return [rt.bind(app, **kwargs) for rt in inner]\n'))
B('e_bind_all_prefilter_sorted', ['C10'], 'R10.a',
  (A, '        ret = []\n\n        kwargs[\'prefix\']', "        kwargs['prefix']"),
  (A, _BIND_ALL_LOOP, '        inner = sorted((rt for rt in self.app.routes if not isinstance(rt, NullRoute)), key=lambda rt: rt.pattern)\n'
                      '        return [rt.bind(app, **kwargs) for rt in inner]\n'))
T('e_bind_all_extend_genexp', ['C10', 'C11'],
  (A, '        for rt in self.app.routes:\n            if isinstance(rt, NullRoute):\n                continue\n'
      '            bound_rt = rt.bind(app, **kwargs)\n            ret.append(bound_rt)\n',
      '        ret.extend(rt.bind(app, **kwargs) for rt in self.app.routes if not isinstance(rt, NullRoute))\n'))
B('e_bind_all_get_default_ignores_caller', ['C10'], 'R10.e',
  (A, "        kwargs.setdefault('rebind_render', self.rebind_render)\n", "        kwargs['rebind_render'] = dict().get('rebind_render', self.rebind_render)\n"))

# ---- C11: freshness judged where the write happens
T('e_route_methods_local_set', ['C11'],
  (R, "        self.methods = methods and set([m.upper() for m in methods])\n        if self.methods:\n",
      "        if methods:\n            methods = set([m.upper() for m in methods])\n        self.methods = methods\n        if self.methods:\n"))
B('e_meta_peripherals_aliased_then_extended', ['C11'], 'R11.d',
  (META, '        self.peripherals = list(base_peripherals)\n        self.peripherals.extend(peripherals or [])\n',
         '        self.peripherals = base_peripherals\n        self.peripherals += peripherals or []\n'))
T('e_meta_peripherals_copy_then_iadd', ['C11'],
  (META, '        self.peripherals = list(base_peripherals)\n        self.peripherals.extend(peripherals or [])\n',
         '        self.peripherals = list(base_peripherals)\n        self.peripherals += peripherals or []\n'))
T('e_linecache_key_named_parts', ['C11'],
  (S, "    code_hash = hashlib.sha1(code_str.encode('utf8')).hexdigest()[:16]\n",
      "    source_bytes = code_str.encode('utf8')\n    full_digest = hashlib.sha1(source_bytes).hexdigest()\n    code_hash = full_digest[:16]\n"))
B('e_linecache_key_without_hash', ['C11'], 'R11.d',
  (S, '    unique_filename = "<sinter generated %s %s>" % (name, code_hash)', '    unique_filename = "<sinter generated %s %s>" % (name, len(code_str))'))
T('e_add_index_reassigned', ['C11'],
  (A, '            self.routes.insert(index, br)\n            index += 1\n', '            self.routes.insert(index, br)\n            index = index + 1\n'))

# ---- third batch
T('e_flags_packed_and_unpacked', ['C10', 'C11'],
  (R, "        prefix = kwargs.pop('prefix', '')\n        rebind_render = kwargs.pop('rebind_render', True)\n",
      "        prefix_ = kwargs.pop('prefix', '')\n        rebind_render_ = kwargs.pop('rebind_render', True)\n"),
  (R, "        if kwargs:\n            raise TypeError('unexpected keyword args: %r' % kwargs.keys())\n\n        self.pattern = prefix + route.pattern",
      "        if kwargs:\n            raise TypeError('unexpected keyword args: %r' % kwargs.keys())\n"
      "        flags = (prefix_, rebind_render_)\n        prefix, rebind_render = flags\n\n        self.pattern = prefix + route.pattern"))
T('e_bind_all_get_default', ['C10', 'C11'],
  (A, "        kwargs['prefix'] = self.prefix\n        kwargs.setdefault('rebind_render', self.rebind_render)\n"
      "        kwargs.setdefault('inherit_slashes', self.inherit_slashes)\n",
      "        kwargs.setdefault('inherit_slashes', self.inherit_slashes)\n        bind_kwargs = dict(kwargs, prefix=self.prefix)\n"
      "        bind_kwargs['rebind_render'] = kwargs.get('rebind_render', self.rebind_render)\n"),
  (A, '            bound_rt = rt.bind(app, **kwargs)\n            ret.append(bound_rt)', '            bound_rt = rt.bind(app, **bind_kwargs)\n            ret.append(bound_rt)'))
B('e_bind_all_get_default_of_other_key', ['C10'], 'R10.e',
  (A, "        kwargs['prefix'] = self.prefix\n        kwargs.setdefault('rebind_render', self.rebind_render)\n"
      "        kwargs.setdefault('inherit_slashes', self.inherit_slashes)\n",
      "        kwargs.setdefault('inherit_slashes', self.inherit_slashes)\n        bind_kwargs = dict(kwargs, prefix=self.prefix)\n"
      "        bind_kwargs['rebind_render'] = kwargs.get('inherit_slashes', self.rebind_render)\n"),
  (A, '            bound_rt = rt.bind(app, **kwargs)\n            ret.append(bound_rt)', '            bound_rt = rt.bind(app, **bind_kwargs)\n            ret.append(bound_rt)'))
T('e_routes_reset_in_ctor_helper', ['C11'],
  (A, '        routes = routes or []\n        self.routes = []\n        self._null_route = NullRoute().bind(self)\n        for entry in routes:\n            self.add(entry)\n',
      '        self._init_routes(routes or [])\n'),
  (A, '    def set_error_handler(self, error_handler=None):\n',
      '    def _init_routes(self, entries):\n        self.routes = []\n        self._null_route = NullRoute().bind(self)\n'
      '        for entry in entries:\n            self.add(entry)\n\n    def set_error_handler(self, error_handler=None):\n'))
B('e_routes_reset_helper_called_from_add', ['C11'], 'R11',
  (A, '        routes = routes or []\n        self.routes = []\n        self._null_route = NullRoute().bind(self)\n        for entry in routes:\n            self.add(entry)\n',
      '        self._init_routes(routes or [])\n'),
  (A, '    def set_error_handler(self, error_handler=None):\n',
      '    def _init_routes(self, entries):\n        self.routes = []\n        self._null_route = NullRoute().bind(self)\n'
      '        for entry in entries:\n            self.add(entry)\n\n    def set_error_handler(self, error_handler=None):\n'),
  (A, '        check_render_error(error_handler.render_error, self.resources)\n', '        check_render_error(error_handler.render_error, self.resources)\n        if not self.debug and error_handler is None:\n            self._init_routes([])\n'))

# ---- the requested index (R11.c)
B('e_add_index_zero_taken_for_none', ['C11'], 'R11.c',
  (A, '        if index is None:\n            index = len(self.routes)\n', '        index = index or len(self.routes)\n'))
B('e_add_index_default_front', ['C11'], 'R11.c',
  (A, '        if index is None:\n            index = len(self.routes)\n', '        if index is None:\n            index = 0\n'))
T('e_add_index_condexpr_local', ['C11'],
  (A, '        if index is None:\n            index = len(self.routes)\n', '        insert_at = len(self.routes) if index is None else index\n'),
  (A, '            self.routes.insert(index, br)\n            index += 1\n', '            self.routes.insert(insert_at, br)\n            insert_at += 1\n'))
T('e_add_zip_count_positions', ['C11'],
  (A, '        for br in bound_routes:\n            self.routes.insert(index, br)\n            index += 1\n',
      '        for position, br in zip(itertools.count(index), bound_routes):\n            self.routes.insert(position, br)\n'))
T('e_add_enumerate_from_index', ['C11'],
  (A, '        for br in bound_routes:\n            self.routes.insert(index, br)\n            index += 1\n',
      '        for position, br in enumerate(bound_routes, index):\n            self.routes.insert(position, br)\n'))

# ---- request-time ownership (R11.a): per-request objects keep containers of their own; nothing on the request path
# ---- writes a Route / BoundRoute / Application
_DS_INIT = '        self.allowed_methods = set()\n'
_DS_UPDATE = '        if methods:\n            self.allowed_methods.update(methods)\n'
_DISPATCH_UPDATE = '                dispatch_state.update_methods(route.methods)\n'
B('e_ds_adopts_first_method_set_then_ior', ['C11'], 'R11.a',
  (A, _DS_INIT, '        self.allowed_methods = None\n'),
  (A, _DS_UPDATE, '        if not methods:\n            return\n        if not self.allowed_methods:\n            self.allowed_methods = methods\n'
                  '        else:\n            self.allowed_methods |= methods\n'))
B('e_ds_method_set_adopted_by_dispatch', ['C11'], 'R11.a',
  (A, _DISPATCH_UPDATE, '                if not dispatch_state.allowed_methods:\n                    dispatch_state.allowed_methods = route.methods\n'
                        '                else:\n                    dispatch_state.update_methods(route.methods)\n'))
B('e_ds_adopts_set_handed_out_by_route_accessor', ['C11'], 'R11.a',
  (A, _DS_UPDATE, '        if methods and not self.allowed_methods:\n            self.allowed_methods = methods\n'
                  '        elif methods:\n            self.allowed_methods.update(methods)\n'),
  (A, _DISPATCH_UPDATE, '                dispatch_state.update_methods(route.get_methods())\n'),
  (R, '    def match_method(self, method):\n', '    def get_methods(self):\n        return self.methods\n\n    def match_method(self, method):\n'))
B('e_ds_mutable_default_shared_by_all_requests', ['C11'], 'R11.a',
  (A, '    def __init__(self):\n        self.exceptions = []\n        self.allowed_methods = set()\n',
      '    def __init__(self, allowed_methods=set()):\n        self.exceptions = []\n        self.allowed_methods = allowed_methods\n'))
B('e_ds_seeded_with_null_route_methods', ['C11'], 'R11.a',
  (A, '        dispatch_state = DispatchState()\n        err_handler = self.error_handler\n',
      '        err_handler = self.error_handler\n        dispatch_state = DispatchState(self._null_route.methods)\n'),
  (A, '    def __init__(self):\n        self.exceptions = []\n        self.allowed_methods = set()\n',
      '    def __init__(self, base_methods=None):\n        self.exceptions = []\n        self.allowed_methods = base_methods if base_methods is not None else set()\n'))
B('e_dispatch_unions_into_local_alias_of_route_methods', ['C11'], 'R11.a',
  (A, _DISPATCH_UPDATE, '                seen_methods = route.methods\n                seen_methods |= dispatch_state.allowed_methods\n'
                        '                dispatch_state.allowed_methods = set(seen_methods)\n'))
B('e_match_result_stored_on_the_unbound_route', ['C11'], 'R11.a',
  (R, '            return None\n        return ret\n\n    def match_method', '            return None\n        self.unbound_route.last_params = ret\n        return ret\n\n    def match_method'))
T('e_ds_lazy_method_set_copied_on_adoption', ['C11'],
  (A, _DS_INIT, '        self.allowed_methods = None\n'),
  (A, _DS_UPDATE, '        if not methods:\n            return\n        if self.allowed_methods is None:\n            self.allowed_methods = set(methods)\n'
                  '        else:\n            self.allowed_methods.update(methods)\n'))
T('e_ds_own_set_ior', ['C11'],
  (A, _DS_UPDATE, '        if methods:\n            self.allowed_methods |= set(methods)\n'))
T('e_ds_own_set_rebound_to_union', ['C11'],
  (A, _DS_UPDATE, '        if methods:\n            self.allowed_methods = self.allowed_methods | set(methods)\n'))
T('e_ds_own_set_through_local_alias', ['C11'],
  (A, _DS_UPDATE, '        allowed = self.allowed_methods\n        if methods:\n            allowed.update(methods)\n'))
T('e_ds_ctor_seed_copied', ['C11'],
  (A, '    def __init__(self):\n        self.exceptions = []\n        self.allowed_methods = set()\n',
      '    def __init__(self, allowed_methods=None):\n        self.exceptions = []\n        self.allowed_methods = set(allowed_methods or ())\n'))
T('e_dispatch_route_methods_named_temporary', ['C11'],
  (A, _DISPATCH_UPDATE, '                route_methods = route.methods\n                dispatch_state.update_methods(route_methods)\n'))
T('e_dispatch_union_into_own_copy_of_route_methods', ['C11'],
  (A, _DISPATCH_UPDATE, '                seen_methods = set(route.methods)\n                seen_methods |= dispatch_state.allowed_methods\n'
                        '                dispatch_state.allowed_methods = seen_methods\n'))
T('e_ds_fields_rebound_never_updated_in_place', ['C11'],
  (A, '        self.attempted_routes.append(route)\n', '        self.attempted_routes = self.attempted_routes + [route]\n'),
  (A, '        self.exceptions.append(exception)\n', '        self.exceptions = self.exceptions + [exception]\n'),
  (A, _DS_UPDATE, '        if methods:\n            self.allowed_methods = self.allowed_methods | set(methods)\n'))
B('e_ds_rebound_to_route_set_then_updated_elsewhere', ['C11'], 'R11.a',
  (A, _DS_UPDATE, '        if methods:\n            self.allowed_methods = self.allowed_methods or methods\n            self.allowed_methods.update(methods)\n'))
B('e_ds_adoption_by_setattr', ['C11'], 'R11.a',
  (A, _DS_INIT, '        self.allowed_methods = None\n'),
  (A, _DS_UPDATE, "        if methods and self.allowed_methods is None:\n            setattr(self, 'allowed_methods', methods)\n"
                  '        elif methods:\n            self.allowed_methods.update(methods)\n'))
B('e_ds_adoption_in_tuple_assignment', ['C11'], 'R11.a',
  (A, _DS_INIT, '        self.allowed_methods = None\n        self.mismatches = 0\n'),
  (A, _DS_UPDATE, '        if methods and self.allowed_methods is None:\n            self.allowed_methods, self.mismatches = methods, 1\n'
                  '        elif methods:\n            self.allowed_methods.update(methods)\n'))
B('e_ds_adoption_condexpr_named_temporary', ['C11'], 'R11.a',
  (A, _DS_INIT, '        self.allowed_methods = None\n'),
  (A, _DS_UPDATE, '        if not methods:\n            return\n        current = self.allowed_methods\n'
                  '        merged = methods if current is None else current\n        merged.update(methods)\n        self.allowed_methods = merged\n'))

# ================================================================== fourth batch
# ---- R11.e: what bindings accumulate is built on the route being re-bound, never on the original unbound route
_PATTERN = '        self.pattern = prefix + route.pattern\n'
_ROUTE_RES = "        self.resources.update(getattr(route, 'resources', {}))\n"
_MERGE = "        self.middlewares = tuple(merge_middlewares(getattr(route, 'middlewares', []), app_mws))\n"
B('e_pattern_prefix_on_the_unbound_pattern', ['C10', 'C11'], {'C10': 'R10.b', 'C11': 'R11.e'},
  (R, _PATTERN, '        self.pattern = prefix + unbound_route.pattern\n'))
B('e_pattern_from_the_original_through_a_temporary', ['C11'], 'R11.e',
  (R, _PATTERN, "        base_pattern = self.unbound_route.pattern\n        self.pattern = '%s%s' % (prefix, base_pattern)\n"))
B('e_resources_overlaid_with_the_unbound_routes', ['C11'], 'R11.e',
  (R, _ROUTE_RES, "        self.resources.update(getattr(unbound_route, 'resources', {}))\n"))
B('e_middlewares_merged_from_the_unbound_routes', ['C11'], 'R11.e',
  (R, _MERGE, "        own_mws = unbound_route.middlewares\n        self.middlewares = tuple(merge_middlewares(own_mws, app_mws))\n"))
B('e_rebinding_reads_the_original_only_when_rebinding', ['C11'], 'R11.e',
  (R, _PATTERN, "        source = route.unbound_route if hasattr(route, 'unbound_route') else route\n        self.pattern = prefix + source.pattern\n"))
B('e_slash_mode_kept_from_the_unbound_route', ['C11'], 'R11.e',
  (R, 'self.slash_mode = app.slash_mode if inherit_slashes else route.slash_mode', 'self.slash_mode = app.slash_mode if inherit_slashes else unbound_route.slash_mode'))
B('e_resources_not_built_on_the_routes', ['C11'], 'R11.e',
  (R, _ROUTE_RES, ''))
T('e_pattern_of_the_rebound_route_named', ['C10', 'C11'],
  (R, _PATTERN, '        inner = route\n        inner_pattern = inner.pattern\n        self.pattern = prefix + inner_pattern\n'))
T('e_methods_read_off_the_unbound_route', ['C10', 'C11'],
  (R, '        self.methods = route.methods\n', '        self.methods = unbound_route.methods\n'))
T('e_scope_regrouped_with_temporaries', ['C10', 'C11'],
  (R, _RESOURCES, "        self.resources = dict(getattr(app, 'resources', {}))\n        self.resources.update(getattr(route, 'resources', {}))\n"
                  "        route_mws = getattr(route, 'middlewares', [])\n"),
  (R, _MERGE, '        self.middlewares = tuple(merge_middlewares(route_mws, app_mws))\n'))

# ---- R10.b: the chain of applications is a new list per binding (explicit re-binding distinction, in-place growth)
_HEAD = ("        self.unbound_route = unbound_route = getattr(route, 'unbound_route', route)\n"
         "        self.bound_apps = getattr(route, 'bound_apps', []) + [app]\n")
_REBINDING = ('        rebinding = isinstance(route, BoundRoute)\n'
              '        unbound_route = route.unbound_route if rebinding else route\n')
T('e_rebinding_flag_chain_concatenated', ['C10', 'C11'],
  (R, _HEAD, _REBINDING + '        bound_apps = route.bound_apps if rebinding else []\n        bound_apps = bound_apps + [app]\n'
                          '        self.unbound_route = unbound_route\n        self.bound_apps = bound_apps\n'))
T('e_rebinding_flag_chain_copied_then_iadd', ['C10', 'C11'],
  (R, _HEAD, _REBINDING + '        bound_apps = list(route.bound_apps) if rebinding else []\n        bound_apps += [app]\n'
                          '        self.unbound_route = unbound_route\n        self.bound_apps = bound_apps\n'))
B('e_rebinding_flag_chain_iadd_on_the_routes_list', ['C10', 'C11'], {'C10': 'R10.b', 'C11': 'R11.a'},
  (R, _HEAD, _REBINDING + '        bound_apps = route.bound_apps if rebinding else []\n        bound_apps += [app]\n'
                          '        self.unbound_route = unbound_route\n        self.bound_apps = bound_apps\n'))
B('e_chain_local_alias_appended', ['C10', 'C11'], {'C10': 'R10.b', 'C11': 'R11.a'},
  (R, _BOUND_APPS, "        chain = getattr(route, 'bound_apps', [])\n        chain.append(app)\n        self.bound_apps = chain\n"))
B('e_chain_or_default_extended', ['C10', 'C11'], {'C10': 'R10.b', 'C11': 'R11.a'},
  (R, _BOUND_APPS, "        self.bound_apps = getattr(route, 'bound_apps', None) or []\n        self.bound_apps.extend([app])\n"))
B('e_chain_restarted_at_every_binding', ['C10'], 'R10.b',
  (R, _BOUND_APPS, '        self.bound_apps = [app]\n'))
B('e_chain_rebinding_flag_inverted', ['C10'], 'R10.b',
  (R, _HEAD, _REBINDING + '        bound_apps = ([] if rebinding else list(route.bound_apps)) + [app]\n'
                          '        self.unbound_route = unbound_route\n        self.bound_apps = bound_apps\n'))
T('e_chain_local_copy_appended', ['C10', 'C11'],
  (R, _BOUND_APPS, "        chain = list(getattr(route, 'bound_apps', []))\n        chain.append(app)\n        self.bound_apps = chain\n"))
T('e_chain_star_display', ['C10', 'C11'],
  (R, _BOUND_APPS, "        self.bound_apps = [*getattr(route, 'bound_apps', []), app]\n"))
B('e_unbound_route_rebinding_flag_swapped', ['C10'], 'R10.b',
  (R, _HEAD, '        rebinding = isinstance(route, BoundRoute)\n        unbound_route = route if rebinding else route.unbound_route\n'
             "        self.unbound_route = unbound_route\n        self.bound_apps = getattr(route, 'bound_apps', []) + [app]\n"))

# ---- R10.d: the null route's error types, looked up behind a call that is handed the application
_SENTINEL = ('        err_handler = _application.error_handler\n'
             '        if _dispatch_state.exceptions:\n'
             '            return _dispatch_state.exceptions[-1]\n'
             '        elif _dispatch_state.allowed_methods:\n'
             '            MNAType = err_handler.method_not_allowed_type\n'
             '            return MNAType(allowed_methods=_dispatch_state.allowed_methods)\n'
             '        else:\n'
             '            NFType = err_handler.not_found_type\n'
             '            return NFType(dispatch_state=_dispatch_state,\n'
             '                          request=request,\n'
             '                          application=_application)\n')
_STATE_METHOD = ('    def unanswered(self, request, application):\n'
                 '        err_handler = application.error_handler\n'
                 '        if self.exceptions:\n'
                 '            return self.exceptions[-1]\n'
                 '        if self.allowed_methods:\n'
                 '            return err_handler.method_not_allowed_type(allowed_methods=self.allowed_methods)\n'
                 '        return err_handler.not_found_type(dispatch_state=self, request=request, application=application)\n\n'
                 '    def add_route(self, route):\n')
T('e_sentinel_decision_moved_to_the_dispatch_state', ['C10', 'C11'],
  (R, _SENTINEL, '        return _dispatch_state.unanswered(request, _application)\n'),
  (A, '    def add_route(self, route):\n', _STATE_METHOD))
B('e_sentinel_decision_moved_and_asked_of_the_innermost_app', ['C10'], 'R10.d',
  (R, _SENTINEL, '        return _dispatch_state.unanswered(request, _route.bound_apps[0])\n'),
  (A, '    def add_route(self, route):\n', _STATE_METHOD))
B('e_sentinel_decision_moved_error_types_of_the_class', ['C10'], 'R10.d',
  (R, _SENTINEL, '        return _dispatch_state.unanswered(request, _application)\n'),
  (A, '    def add_route(self, route):\n', _STATE_METHOD.replace('        err_handler = application.error_handler\n', '        err_handler = ErrorHandler\n')))

# ---- bind options kept in a named-tuple container filled by a class method (front-end: dissolved into the pops)
_OPTS_CLASS = ("class _Options(namedtuple('_Options', ['prefix', 'rebind_render', 'rebind_render_error'])):\n"
               '    __slots__ = ()\n\n'
               '    @classmethod\n'
               '    def from_kwargs(cls, kwargs):\n'
               "        opts = cls(prefix=kwargs.pop('prefix', ''), rebind_render=kwargs.pop('rebind_render', True),\n"
               "                   rebind_render_error=kwargs.pop('rebind_render_error', %s))\n"
               '        if kwargs:\n'
               "            raise TypeError('unexpected keyword args: %%r' %% kwargs.keys())\n"
               '        return opts\n\n\n'
               'class BoundRoute(object):\n')
_OPTS_USE = ("        inherit_slashes = kwargs.pop('inherit_slashes', True)\n"
             '        opts = _Options.from_kwargs(kwargs)\n'
             '        prefix, rebind_render = opts.prefix, opts.rebind_render\n'
             '        rebind_render_error = opts.rebind_render_error\n')
_POPS_AND_CHECK = _POPS + "        if kwargs:\n            raise TypeError('unexpected keyword args: %r' % kwargs.keys())\n"
T('e_bind_options_in_a_named_tuple_container', ['C10', 'C11'],
  (R, 'import re\n', 'import re\nfrom collections import namedtuple\n'),
  (R, 'class BoundRoute(object):\n', _OPTS_CLASS % 'True'),
  (R, _POPS_AND_CHECK, _OPTS_USE))
B('e_bind_options_container_error_rebinding_off_by_default', ['C10'], 'R10.d',
  (R, 'import re\n', 'import re\nfrom collections import namedtuple\n'),
  (R, 'class BoundRoute(object):\n', _OPTS_CLASS % 'False'),
  (R, _POPS_AND_CHECK, _OPTS_USE))
B('e_bind_options_container_prefix_field_swapped', ['C10'], 'R10.b',
  (R, 'import re\n', 'import re\nfrom collections import namedtuple\n'),
  (R, 'class BoundRoute(object):\n', _OPTS_CLASS % 'True'),
  (R, _POPS_AND_CHECK, _OPTS_USE.replace('prefix, rebind_render = opts.prefix, opts.rebind_render', 'prefix, rebind_render = opts.rebind_render, opts.prefix')))

# ---- R11.e at the sites that start a re-binding
B('e_bound_route_rebinds_its_unbound_route', ['C11'], 'R11.e',
  (R, '        return BoundRoute(self, app, **kwargs)\n\n    def iter_routes(self):\n        yield self\n\n    @property',
      '        return BoundRoute(self.unbound_route, app, **kwargs)\n\n    def iter_routes(self):\n        yield self\n\n    @property'))
B('e_bind_all_rebinds_the_unbound_routes', ['C11'], 'R11.e',
  (A, '            bound_rt = rt.bind(app, **kwargs)\n', '            bound_rt = rt.unbound_route.bind(app, **kwargs)\n'))
B('e_bind_all_rebinds_the_unbound_routes_named', ['C11'], 'R11.e',
  (A, '            bound_rt = rt.bind(app, **kwargs)\n', '            declared = rt.unbound_route\n            bound_rt = declared.bind(app, **kwargs)\n'))
T('e_bound_route_rebinds_itself_named', ['C10', 'C11'],
  (R, '        return BoundRoute(self, app, **kwargs)\n\n    def iter_routes(self):\n        yield self\n\n    @property',
      '        inner = self\n        rebound = BoundRoute(inner, app, **kwargs)\n        return rebound\n\n    def iter_routes(self):\n        yield self\n\n    @property'))

# ---- R10.c: the executed chain is compiled at every binding from the list merged at that binding
_CHAIN = '        self._execute = make_middleware_chain(self.middlewares, unbound_route.endpoint, render, provided)\n'
B('e_chain_shared_when_the_stack_compares_equal', ['C10'], 'R10.c',
  (R, _CHAIN, '        chain_key = (self.middlewares, render, frozenset(provided))\n'
              "        if getattr(route, '_chain_key', None) == chain_key:\n            self._execute = route._execute\n        else:\n    "
              + _CHAIN + '        self._chain_key = chain_key\n'))
B('e_chain_taken_over_when_there_is_one', ['C10'], 'R10.c',
  (R, _CHAIN, "        self._execute = getattr(route, '_execute', None) or make_middleware_chain(self.middlewares, unbound_route.endpoint, render, provided)\n"))
B('e_chain_kept_when_the_application_adds_no_middleware', ['C10'], 'R10.c',
  (R, _CHAIN, "        if not app_mws and hasattr(route, '_execute'):\n            inner_chain = route._execute\n            self._execute = inner_chain\n"
              '        else:\n    ' + _CHAIN))
B('e_chain_compiled_from_the_unmerged_list', ['C10'], 'R10.c',
  (R, _CHAIN, "        own_mws = tuple(getattr(route, 'middlewares', ()))\n"
              '        self._execute = make_middleware_chain(own_mws, unbound_route.endpoint, render, provided)\n'))
T('e_chain_compiled_through_named_temporaries', ['C10', 'C11'],
  (R, _MERGE, "        merged = tuple(merge_middlewares(getattr(route, 'middlewares', []), app_mws))\n        self.middlewares = merged\n"),
  (R, _CHAIN, '        chain = make_middleware_chain(merged, unbound_route.endpoint, render, provided)\n        self._execute = chain\n'))

# ================================================================== fifth batch (round f)
# ---- R11.a through the analysed functions binding calls: whatever a callee updates in place is, at that call, an object
# this binding allocated; and a value a callee hands back is judged as what its returns hand out (its parameters read as
# the arguments of the call).  (C10's R10.c "resource layers" lives in chain.py and does not read a merge behind a call:
# the helper shapes below are C11 only.)
_CLS = 'class BoundRoute(object):\n'
_OVERLAY = ('def overlay_resources(own, inherited):\n'
            '    merged = %s\n'
            '    for name, value in inherited.items():\n'
            '        merged.setdefault(name, value)\n'
            '    return merged\n\n\n')
_OVERLAY_CALL = "        self.resources = overlay_resources(getattr(route, 'resources', None), getattr(app, 'resources', {}))\n"
_FILL = ('def fill_resources(target, more):\n'
         '    target.update(more)\n'
         '    return target\n\n\n')
B('e_resources_helper_fills_the_mapping_it_is_handed', ['C11'], 'R11.a',
  (R, _CLS, _OVERLAY % 'own or {}' + _CLS), (R, _RESOURCES, _OVERLAY_CALL))
T('e_resources_helper_fills_a_copy', ['C11'],
  (R, _CLS, _OVERLAY % 'dict(own or {})' + _CLS), (R, _RESOURCES, _OVERLAY_CALL))
B('e_resources_helper_updates_the_applications_mapping', ['C11'], 'R11.a',
  (R, _CLS, 'def combine_resources(route_resources, app_resources):\n    app_resources.update(route_resources)\n'
            '    return dict(app_resources)\n\n\n' + _CLS),
  (R, _RESOURCES, "        self.resources = combine_resources(getattr(route, 'resources', {}), getattr(app, 'resources', {}))\n"))
T('e_resources_helper_returns_a_star_display', ['C11'],
  (R, _CLS, 'def combine_resources(route_resources, app_resources):\n    return {**app_resources, **(route_resources or {})}\n\n\n' + _CLS),
  (R, _RESOURCES, "        self.resources = combine_resources(getattr(route, 'resources', None), getattr(app, 'resources', {}))\n"))
B('e_resources_routes_mapping_updated_inline', ['C11'], 'R11.a',
  (R, _RESOURCES, "        app_resources = getattr(app, 'resources', {})\n        for name in app_resources:\n"
                  "            if name not in route.resources:\n                route.resources[name] = app_resources[name]\n"
                  '        self.resources = dict(route.resources)\n'))
B('e_resources_setdefault_loop_on_the_routes_mapping', ['C11'], 'R11.a',
  (R, _RESOURCES, "        self.resources = getattr(route, 'resources', {})\n"
                  "        for name, value in getattr(app, 'resources', {}).items():\n            self.resources.setdefault(name, value)\n"))
B('e_resources_helper_hands_back_its_updated_argument', ['C11'], 'R11.a',
  (R, _CLS, _FILL + _CLS),
  (R, _RESOURCES, "        app_resources = getattr(app, 'resources', {})\n"
                  "        self.resources = fill_resources(app_resources, getattr(route, 'resources', {}))\n"))
T('e_resources_helper_is_handed_a_copy_to_fill', ['C11'],
  (R, _CLS, _FILL + _CLS),
  (R, _RESOURCES, "        app_resources = getattr(app, 'resources', {})\n"
                  "        self.resources = fill_resources(dict(app_resources), getattr(route, 'resources', {}))\n"))
B('e_resources_updated_two_calls_down', ['C11'], 'R11.a',
  (R, _CLS, _FILL + "def bound_resources(route, app):\n"
                    "    return fill_resources(getattr(app, 'resources', {}), getattr(route, 'resources', {}))\n\n\n" + _CLS),
  (R, _RESOURCES, '        self.resources = bound_resources(route, app)\n'))
T('e_resources_copied_two_calls_down', ['C11'],
  (R, _CLS, _FILL + "def bound_resources(route, app):\n"
                    "    return fill_resources(dict(getattr(app, 'resources', {})), getattr(route, 'resources', {}))\n\n\n" + _CLS),
  (R, _RESOURCES, '        self.resources = bound_resources(route, app)\n'))
B('e_resources_method_updates_the_applications_mapping', ['C11'], 'R11.a',
  (R, '    def bind(self, app, **kwargs):\n        return BoundRoute(self, app, **kwargs)\n',
      "    def merged_resources(self, route, app):\n        res = getattr(app, 'resources', None) or {}\n"
      "        res.update(getattr(route, 'resources', {}))\n        return res\n\n"
      '    def bind(self, app, **kwargs):\n        return BoundRoute(self, app, **kwargs)\n'),
  (R, _RESOURCES, '        self.resources = self.merged_resources(route, app)\n'))
T('e_resources_method_builds_a_new_mapping', ['C11'],
  (R, '    def bind(self, app, **kwargs):\n        return BoundRoute(self, app, **kwargs)\n',
      "    def merged_resources(self, route, app):\n        res = dict(getattr(app, 'resources', None) or {})\n"
      "        res.update(getattr(route, 'resources', {}))\n        return res\n\n"
      '    def bind(self, app, **kwargs):\n        return BoundRoute(self, app, **kwargs)\n'),
  (R, _RESOURCES, '        self.resources = self.merged_resources(route, app)\n'))
B('e_middlewares_helper_extends_the_routes_list', ['C11'], 'R11.a',
  (R, _CLS, 'def stack_middlewares(own, outer):\n    stack = own if own else []\n    stack[:0] = [mw for mw in outer if mw not in stack]\n'
            '    return stack\n\n\n' + _CLS),
  (R, "        self.middlewares = tuple(merge_middlewares(getattr(route, 'middlewares', []), app_mws))\n",
      "        self.middlewares = tuple(stack_middlewares(getattr(route, 'middlewares', []), app_mws))\n"))
T('e_resources_star_display_inline', ['C10', 'C11'],
  (R, _RESOURCES, "        self.resources = {**getattr(app, 'resources', {}), **getattr(route, 'resources', {})}\n"))
T('e_resources_dict_call_with_star_overlay', ['C10', 'C11'],
  (R, _RESOURCES, "        self.resources = dict(getattr(app, 'resources', {}), **getattr(route, 'resources', {}))\n"))

# ---- R10.b: what a bound route derives from a URL pattern is derived from the pattern of this binding
_COMPILE = ('        self.regex, self.converters = _compile_path_pattern(self.pattern,\n'
            '                                                            self.slash_mode)\n')
_PATH_ARGS = '        self.path_args = self.converters.keys()\n'
B('e_path_args_taken_over_when_the_route_has_them', ['C10'], 'R10.b',
  (R, _PATH_ARGS, "        self.path_args = getattr(route, 'path_args', None) or self.converters.keys()\n"))
B('e_matcher_compiled_from_the_routes_pattern', ['C10'], 'R10.b',
  (R, _COMPILE, '        self.regex, self.converters = _compile_path_pattern(route.pattern, self.slash_mode)\n'))
B('e_converters_kept_from_the_route_being_rebound', ['C10'], 'R10.b',
  (R, _COMPILE, '        self.regex, converters = _compile_path_pattern(self.pattern, self.slash_mode)\n'
                "        self.converters = getattr(route, 'converters', converters)\n"))
B('e_path_args_read_off_the_route_by_a_helper', ['C10'], 'R10.b',
  (R, _CLS, "def url_names(route, converters):\n    return getattr(route, 'path_args', None) or tuple(converters)\n\n\n" + _CLS),
  (R, _PATH_ARGS, '        self.path_args = url_names(route, self.converters)\n'))
B('e_url_provider_names_of_the_original_route', ['C10'], 'R10.b',
  (R, "        src_provides_map = {'url': set(self.converters),", "        src_provides_map = {'url': set(getattr(unbound_route, 'converters', self.converters)),"))
B('e_matcher_compiled_from_the_unprefixed_pattern_named', ['C10'], 'R10.b',
  (R, _COMPILE, '        inner_pattern = route.pattern\n        self.regex, self.converters = _compile_path_pattern(inner_pattern, self.slash_mode)\n'))
T('e_path_args_tuple_of_the_converters', ['C10', 'C11'],
  (R, _PATH_ARGS, '        self.path_args = tuple(self.converters)\n'))
T('e_pattern_and_matcher_through_named_temporaries', ['C10', 'C11'],
  (R, '        self.pattern = prefix + route.pattern\n', '        pattern = prefix + route.pattern\n        self.pattern = pattern\n'),
  (R, _COMPILE + _PATH_ARGS, '        regex, converters = _compile_path_pattern(self.pattern, self.slash_mode)\n'
                             '        self.regex = regex\n        self.converters = converters\n        self.path_args = list(converters)\n'))
T('e_path_args_listed_by_a_helper_from_the_converters', ['C10', 'C11'],
  (R, _CLS, 'def url_names(converters):\n    return tuple(converters.keys())\n\n\n' + _CLS),
  (R, _PATH_ARGS, '        self.path_args = url_names(self.converters)\n'))

# ---- R11.c: the new routes form one block in their own order (the k-th goes to start + k)
_INS_LOOP = '        for br in bound_routes:\n            self.routes.insert(index, br)\n            index += 1\n'
B('e_add_back_to_front_at_the_requested_index', ['C11'], 'R11.c',
  (A, _INS_LOOP, '        for br in bound_routes[::-1]:\n            self.routes.insert(index, br)\n'))
B('e_add_position_never_advanced', ['C11'], 'R11.c',
  (A, _INS_LOOP, '        for br in bound_routes:\n            self.routes.insert(index, br)\n'))
B('e_add_offsets_over_the_reversed_block', ['C11'], 'R11.c',
  (A, _INS_LOOP, '        for offset, br in enumerate(reversed(bound_routes)):\n            self.routes.insert(index + offset, br)\n'))
B('e_add_position_advanced_only_for_leaf_routes', ['C11'], 'R11.c',
  (A, _INS_LOOP, '        for br in bound_routes:\n            self.routes.insert(index, br)\n            if not br.is_branch:\n                index += 1\n'))
B('e_add_back_to_front_floor_clamped_only', ['C11'], 'R11.c',
  (A, _INS_LOOP, '        index = max(index, 0)\n        for br in reversed(bound_routes):\n            self.routes.insert(index, br)\n'))
T('e_add_back_to_front_at_a_position_in_the_table', ['C11'],
  (A, _INS_LOOP, '        index = min(index, len(self.routes))\n        for br in reversed(bound_routes):\n            self.routes.insert(index, br)\n'))

# ---- a bind option the caller wrote (False included) wins over the route factory's default
_ADD_SLASH_DEFAULT = "        kwargs.setdefault('inherit_slashes', getattr(rf, 'inherit_slashes', True))\n"
_ADD_RENDER_DEFAULT = "        kwargs.setdefault('rebind_render', getattr(rf, 'rebind_render', True))\n"
B('e_add_explicit_false_slash_option_taken_for_unset', ['C10'], 'R10.e',
  (A, _ADD_SLASH_DEFAULT, "        if not kwargs.get('inherit_slashes'):\n            kwargs['inherit_slashes'] = getattr(rf, 'inherit_slashes', True)\n"))
B('e_add_explicit_false_render_option_replaced_by_or', ['C10'], 'R10.e',
  (A, _ADD_RENDER_DEFAULT, "        kwargs['rebind_render'] = kwargs.get('rebind_render') or getattr(rf, 'rebind_render', True)\n"))
T('e_add_options_defaulted_when_absent', ['C10', 'C11'],
  (A, _ADD_RENDER_DEFAULT, "        if 'rebind_render' not in kwargs:\n            kwargs['rebind_render'] = getattr(rf, 'rebind_render', True)\n"))
B('e_add_slash_option_of_the_factory_forced', ['C10'], 'R10.e',
  (A, _ADD_SLASH_DEFAULT, "        kwargs['inherit_slashes'] = getattr(rf, 'inherit_slashes', True)\n"))
T('e_add_slash_option_read_back_with_the_default', ['C10', 'C11'],
  (A, _ADD_SLASH_DEFAULT, "        kwargs['inherit_slashes'] = kwargs.get('inherit_slashes', getattr(rf, 'inherit_slashes', True))\n"))
B('e_resources_private_helper_fills_the_mapping_it_is_handed', ['C11'], 'R11.a',
  (R, _CLS, (_OVERLAY % 'own or {}').replace('overlay_resources', '_overlay_resources') + _CLS),
  (R, _RESOURCES, _OVERLAY_CALL.replace('overlay_resources', '_overlay_resources')))
T('e_resources_private_helper_fills_a_copy', ['C11'],
  (R, _CLS, (_OVERLAY % 'dict(own or {})').replace('overlay_resources', '_overlay_resources') + _CLS),
  (R, _RESOURCES, _OVERLAY_CALL.replace('overlay_resources', '_overlay_resources')))
# the merging helper lives in another module of the package and is called through the module
_SINTER_HELPER = ('def fill_mapping(target, more):\n    target.update(more)\n    return target\n\n\n'
                  'def get_fb(f, drop_self=True):\n')
B('e_resources_filled_by_a_function_of_another_module', ['C11'], 'R11.a',
  (S, 'def get_fb(f, drop_self=True):\n', _SINTER_HELPER),
  (R, 'import re\n', 'import re\nfrom . import sinter\n'),
  (R, _RESOURCES, "        self.resources = sinter.fill_mapping(getattr(app, 'resources', {}), getattr(route, 'resources', {}))\n"))
T('e_resources_copy_filled_by_a_function_of_another_module', ['C11'],
  (S, 'def get_fb(f, drop_self=True):\n', _SINTER_HELPER),
  (R, 'import re\n', 'import re\nfrom . import sinter\n'),
  (R, _RESOURCES, "        self.resources = sinter.fill_mapping(dict(getattr(app, 'resources', {})), getattr(route, 'resources', {}))\n"))
B('e_resources_helper_in_place_union_on_its_argument', ['C11'], 'R11.a',
  (R, _CLS, 'def overlay_resources(own, inherited):\n    merged = own if own is not None else {}\n'
            '    merged |= {k: v for k, v in inherited.items() if k not in merged}\n    return merged\n\n\n' + _CLS),
  (R, _RESOURCES, _OVERLAY_CALL))
B('e_resources_procedure_fills_the_routes_mapping_then_copied', ['C11'], 'R11.a',
  (R, _CLS, 'def fill_missing(target, source):\n    for name in source:\n        if name not in target:\n'
            '            target[name] = source[name]\n\n\n' + _CLS),
  (R, _RESOURCES, "        route_resources = getattr(route, 'resources', {})\n"
                  "        fill_missing(route_resources, getattr(app, 'resources', {}))\n        self.resources = dict(route_resources)\n"))
T('e_resources_procedure_fills_a_copy_of_the_routes_mapping', ['C11'],
  (R, _CLS, 'def fill_missing(target, source):\n    for name in source:\n        if name not in target:\n'
            '            target[name] = source[name]\n\n\n' + _CLS),
  (R, _RESOURCES, "        route_resources = dict(getattr(route, 'resources', {}))\n"
                  "        fill_missing(route_resources, getattr(app, 'resources', {}))\n        self.resources = route_resources\n"))

# ================================================================== sixth pass (round g)
# ---- R11.f: what binding declares as provided, execute / execute_error offer (a bound route is self-contained)
_EXEC_INJ = ("        injectables = {'_route': self,\n                       'request': request,\n"
             "                       '_application': self.bound_apps[-1]}\n        injectables.update(self.resources)\n"
             "        injectables.update(kwargs)\n")
_EXEC_TAIL = "        injectables.update(self.resources)\n        injectables.update(kwargs)\n        return inject(self._execute, injectables)\n"
_ERR_TAIL = "        injectables.update(self.resources)\n        injectables.update(kwargs)\n        return inject(self.render_error, injectables)\n"
B('g_execute_relies_on_the_dispatchers_resources', ['C11'], 'R11.f',
  (R, _EXEC_TAIL, "        injectables.update(kwargs)\n        return inject(self._execute, injectables)\n"))
B('g_execute_error_drops_the_stored_resources', ['C11'], 'R11.f',
  (R, _ERR_TAIL, "        injectables.update(kwargs)\n        return inject(self.render_error, injectables)\n"))
B('g_execute_merges_the_last_applications_resources', ['C11'], 'R11.f',
  (R, _EXEC_TAIL, "        injectables.update(self.bound_apps[-1].resources)\n        injectables.update(kwargs)\n"
                  "        return inject(self._execute, injectables)\n"))
B('g_execute_injectables_one_display_without_resources', ['C11'], 'R11.f',
  (R, _EXEC_INJ, "        injectables = {'_route': self, 'request': request, '_application': self.bound_apps[-1], **kwargs}\n"))
T('g_execute_resources_spread_in_the_display', ['C11'],
  (R, _EXEC_INJ, "        injectables = {'_route': self, 'request': request, '_application': self.bound_apps[-1], **self.resources}\n"
                 "        injectables.update(kwargs)\n"))
T('g_execute_error_resources_through_a_named_temporary', ['C11'],
  (R, _ERR_TAIL, "        own = self.resources\n        injectables.update(own)\n        injectables.update(kwargs)\n"
                 "        return inject(self.render_error, injectables)\n"))
T('g_execute_builtins_display_overlaid_by_dict_call', ['C11'],
  (R, _EXEC_INJ, "        injectables = dict({'_route': self, 'request': request, '_application': self.bound_apps[-1]}, **self.resources)\n"
                 "        injectables.update(kwargs)\n"))
T('g_declared_names_from_a_local_that_is_the_attribute', ['C11'],
  (R, "                            'resources': set(self.resources)}\n", "                            'resources': set(self.resources.keys())}\n"))

# ---- R11.e: on a re-bind the choice between the application's value and the route's is this binding's (flag / application)
_RE_SEL = ("        if rebind_render_error:\n            render_error = getattr(app.error_handler, 'render_error', None)\n"
           "        else:\n            render_error = route.render_error\n")
_SLASH_SEL = '        self.slash_mode = app.slash_mode if inherit_slashes else route.slash_mode\n'
B('g_render_error_kept_when_the_route_has_a_callable_one', ['C11'], 'R11.e',
  (R, _RE_SEL, "        if rebind_render_error and not callable(route.render_error):\n"
               "            render_error = getattr(app.error_handler, 'render_error', None)\n"
               "        else:\n            render_error = route.render_error\n"))
B('g_render_error_own_value_tested_through_a_local_guard', ['C11'], 'R11.e',
  (R, _RE_SEL, "        own_render_error = getattr(route, 'render_error', None)\n        has_own = own_render_error is not None\n"
               "        if has_own or not rebind_render_error:\n            render_error = route.render_error\n"
               "        else:\n            render_error = getattr(app.error_handler, 'render_error', None)\n"))
B('g_render_error_rebound_on_the_first_bind_only', ['C11'], 'R11.e',
  (R, _RE_SEL, "        if rebind_render_error and not hasattr(route, 'bound_apps'):\n"
               "            render_error = getattr(app.error_handler, 'render_error', None)\n"
               "        else:\n            render_error = route.render_error\n"))
B('g_slash_mode_inherited_only_while_the_route_has_the_default', ['C11'], 'R11.e',
  (R, _SLASH_SEL, '        if inherit_slashes and route.slash_mode == S_REDIRECT:\n            self.slash_mode = app.slash_mode\n'
                  '        else:\n            self.slash_mode = route.slash_mode\n'))
T('g_render_error_choice_by_inverted_flag', ['C11'],
  (R, _RE_SEL, "        keep_own = not rebind_render_error\n        if keep_own:\n            render_error = route.render_error\n"
               "        else:\n            render_error = getattr(app.error_handler, 'render_error', None)\n"))
T('g_slash_mode_choice_spelled_out', ['C11'],
  (R, _SLASH_SEL, '        if not inherit_slashes:\n            self.slash_mode = route.slash_mode\n'
                  '        else:\n            self.slash_mode = app.slash_mode\n'))

# ---- R10.c: dispatch decides the slash handling with the mode of the route it is handling
_D_REDIRECT = '                    if route.slash_mode == S_REDIRECT:\n'
_D_STRICT = '                    elif route.slash_mode == S_STRICT:\n'
_D_HEAD = '        err_handler = self.error_handler\n'
B('g_dispatch_redirects_by_the_applications_mode', ['C10'], 'R10.c',
  (A, _D_REDIRECT, '                    if self.slash_mode == S_REDIRECT:\n'))
B('g_dispatch_strict_by_the_outermost_applications_mode', ['C10'], 'R10.c',
  (A, _D_STRICT, '                    elif route.bound_apps[-1].slash_mode == S_STRICT:\n'))
B('g_dispatch_mode_hoisted_out_of_the_route_loop', ['C10'], 'R10.c',
  (A, _D_HEAD, _D_HEAD + '        mode = self.slash_mode\n'),
  (A, _D_REDIRECT, '                    if mode == S_REDIRECT:\n'),
  (A, _D_STRICT, '                    elif mode == S_STRICT:\n'))
B('g_dispatch_mode_of_the_unbound_route', ['C10'], 'R10.c',
  (A, _D_STRICT, '                    elif route.unbound_route.slash_mode == S_STRICT:\n'))
T('g_dispatch_mode_of_the_route_named_once', ['C10'],
  (A, _D_REDIRECT, '                    mode = route.slash_mode\n                    if mode == S_REDIRECT:\n'),
  (A, _D_STRICT, '                    elif mode == S_STRICT:\n'))
T('g_dispatch_mode_through_an_alias_of_the_route', ['C10'],
  (A, _D_REDIRECT, '                    handled = route\n                    if handled.slash_mode == S_REDIRECT:\n'))

# ---- R10.e: the stand-in the first bind stores when no factory interpreted the render argument is the marker the next bind tests
_CARRY = '            render = route.render if callable(route.render) else _noop_render\n'
_NOOP_DEF = 'def _noop_render(context):\n    return context\n'
B('g_standin_render_made_by_a_private_factory', ['C10'], 'R10.e',
  (R, _NOOP_DEF, _NOOP_DEF + '\n\ndef _pending_render(arg):\n    def pending(context):\n'
                             "        raise TypeError('no render function for %r' % (arg,))\n    return pending\n"),
  (R, _CARRY, '            if callable(route.render):\n                render = route.render\n            elif unbound_route.render is None:\n'
              '                render = _noop_render\n            else:\n                render = _pending_render(unbound_route.render)\n'))
B('g_standin_render_is_a_lambda_per_binding', ['C10'], 'R10.e',
  (R, _CARRY, '            render = route.render if callable(route.render) else (lambda context: context)\n'))
B('g_standin_render_made_by_a_private_lambda_factory', ['C10'], 'R10.e',
  (R, _NOOP_DEF, _NOOP_DEF + '\n\ndef _passthrough_for(arg):\n    if arg is None:\n        return lambda context: context\n'
                             '    return lambda context: context\n'),
  (R, _CARRY, '            render = route.render if callable(route.render) else _passthrough_for(unbound_route.render)\n'))
T('g_standin_render_marker_through_a_named_temporary', ['C10'],
  (R, _CARRY, '            fallback = _noop_render\n            render = route.render if callable(route.render) else fallback\n'))

# ---- seventh pass (round x): the inventoried writer of the source cache moved, unchanged, into a new private module
_CCODE_DEF = ('def compile_code(code_str, name, env=None, verbose=_VERBOSE):\n'
              "    code_hash = hashlib.sha1(code_str.encode('utf8')).hexdigest()[:16]\n"
              '    unique_filename = "<sinter generated %s %s>" % (name, code_hash)\n'
              "    code = compile(code_str, unique_filename, 'single')\n"
              '    if verbose:\n'
              '        print(code_str)\n'
              '    exec(code, env)\n'
              '\n'
              '    linecache.cache[unique_filename] = (\n'
              '        len(code_str),\n'
              '        None,\n'
              '        code_str.splitlines(True),\n'
              '        unique_filename,\n'
              '    )\n'
              '    return env[name]\n')
_CCODE_HEAD = '# -*- coding: utf-8 -*-\nimport hashlib\nimport linecache\n\n_VERBOSE = False\n\n\n'
_CCODE_NEW = 'clastic/_srccache.py'


def _ccode_moved(text, back="from ._srccache import compile_code\n", keep=False, extra=""):
    return ((S, _CCODE_DEF, _CCODE_DEF if keep else ""), (S, "_VERBOSE = False\n", "_VERBOSE = False\n" + back),
            (_CCODE_NEW, '__NEW__', _CCODE_HEAD + text + extra))
T('x_cache_writer_lives_in_a_new_private_module', ['C11'], *_ccode_moved(_CCODE_DEF))
B('x_moved_cache_writer_keys_without_hash', ['C11'], 'R11.d',
  *_ccode_moved(_CCODE_DEF.replace('% (name, code_hash)', '% (name, len(code_str))')))
# a *new* writer of the same process-wide cache next to the moved one: not the inventoried function
B('x_second_cache_writer_in_the_new_module', ['C11'], 'R11.d',
  *_ccode_moved(_CCODE_DEF, extra='\n\ndef forget_code(filename):\n    linecache.cache.pop(filename, None)\n'))
# a function of the inventoried name in another module while the inventoried one is still where it was: a second writer
B('x_same_named_cache_writer_in_another_module', ['C11'], 'R11.d',
  *_ccode_moved(_CCODE_DEF, back="", keep=True))
# the moved module grows a module-level table that the moved writer fills: new process-wide state
B('x_moved_cache_writer_also_fills_a_new_table', ['C11'], 'R11.d',
  *_ccode_moved(_CCODE_DEF.replace('    return env[name]\n', '    _COMPILED[unique_filename] = env[name]\n    return env[name]\n'),
                extra='\n_COMPILED = {}\n'))
# moved and reached through the module rather than imported back under its name
_CCODE_CALL = "    return compile_code(call_str, inner_name, {'funcs': funcs}, verbose=verbose)\n"
_CCODE_CORE = (C, "from ..sinter import make_chain, get_arg_names, compile_code\n",
               "from ..sinter import make_chain, get_arg_names\nfrom .._srccache import compile_code\n")
T('x_cache_writer_in_a_new_module_called_through_it', ['C11'],
  *(_ccode_moved(_CCODE_DEF, back="from . import _srccache\n") +
    ((S, _CCODE_CALL, _CCODE_CALL.replace('compile_code(', '_srccache.compile_code(')), _CCODE_CORE)))
B('x_cache_writer_called_through_new_module_keys_without_hash', ['C11'], 'R11.d',
  *(_ccode_moved(_CCODE_DEF.replace('% (name, code_hash)', '% (name, len(code_str))'), back="from . import _srccache\n") +
    ((S, _CCODE_CALL, _CCODE_CALL.replace('compile_code(', '_srccache.compile_code(')), _CCODE_CORE)))
