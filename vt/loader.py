"""E0 -- loader / resolver.

Parses modules of the analysed tree (``<root>/clastic``) and, on demand, of the
pinned third-party packages (located with PathFinder, never imported).  Gives
qualified-name lookup of functions and classes, import-alias resolution,
module-level constant folding and a class table with a linearised MRO.
"""
import ast
import os
import sys
from importlib.machinery import PathFinder

from .core import AnalysisError, norm


class Unfoldable(Exception):
    pass


class Sym(object):
    """Opaque reference to a name that has no foldable value (a builtin, a function, a class ...); produced by
    ``Repo.fold(..., sym=True)`` so that tables mixing constants and callables can still be folded structurally."""

    def __init__(self, name):
        self.name = name

    def __eq__(self, other):
        return isinstance(other, Sym) and other.name == self.name

    def __ne__(self, other):
        return not self == other

    def __hash__(self):
        return hash(('Sym', self.name))

    def __repr__(self):
        return '<%s>' % self.name


class FuncInfo(object):
    def __init__(self, mod, node, qualname, cls=None):
        self.mod, self.node, self.qualname, self.cls = mod, node, qualname, cls

    @property
    def name(self):
        return self.node.name

    @property
    def key(self):
        return '%s::%s' % (self.mod.name, self.qualname)

    def params(self):
        a = self.node.args
        return [x.arg for x in a.posonlyargs + a.args + a.kwonlyargs]

    def __repr__(self):
        return '<Func %s>' % self.key


class ClassInfo(object):
    def __init__(self, mod, node, qualname):
        self.mod, self.node, self.qualname = mod, node, qualname
        self.methods = {}      # name -> FuncInfo
        self.class_attrs = {}  # name -> value expr (or None)

    @property
    def name(self):
        return self.node.name

    @property
    def key(self):
        return '%s::%s' % (self.mod.name, self.qualname)

    def __repr__(self):
        return '<Class %s>' % self.key


class ModuleInfo(object):
    def __init__(self, repo, name, path, external=False):
        self.repo, self.name, self.path, self.external = repo, name, path, external
        with open(path, 'rb') as f:
            raw = f.read()
        self.src = raw.decode('utf-8')
        try:
            self.tree = ast.parse(self.src, filename=path)
        except SyntaxError as e:
            raise AnalysisError('cannot parse %s: %s' % (path, e))
        self.inlined_calls = 0
        if not external and not os.environ.get('VT_NO_NORMALIZE'):
            # behaviour-preserving normalisation of the parsed tree (see normalize.py); positions are kept
            from . import normalize
            normalize.materialize_private_imports(self.tree, path)
            self.tree, self.inlined_calls = normalize.normalize_tree(self.tree, lambda ident: repo.mentioned_outside(ident, path))
        if external:
            self.relpath = 'site-packages/' + name.replace('.', '/') + '.py'
        else:
            self.relpath = os.path.relpath(path, repo.root)
        self.is_pkg = os.path.basename(path) == '__init__.py'
        self.functions = {}   # qualname -> FuncInfo (incl. methods & nested)
        self.classes = {}     # qualname -> ClassInfo
        self.imports = {}     # local name -> (module name, attr or None)
        self.assigns = {}     # module-level name -> list of value exprs
        self.augassigns = {}  # module-level name -> {index into assigns[name]: AugAssign stmt} (straight-line top level only)
        self.parents = {}
        self._index()

    # -- indexing --------------------------------------------------------
    def _index(self):
        for parent in ast.walk(self.tree):
            for child in ast.iter_child_nodes(parent):
                self.parents[child] = parent
        self._index_body(self.tree.body, '', None, toplevel=True)

    def _pkg(self):
        if self.is_pkg:
            return self.name
        return self.name.rpartition('.')[0]

    def _abs_module(self, node):
        if node.level == 0:
            return node.module
        base = self._pkg().split('.') if self._pkg() else []
        if node.level > 1:
            base = base[:len(base) - (node.level - 1)]
        if node.module:
            base = base + node.module.split('.')
        return '.'.join(base)

    def _index_body(self, body, prefix, cls, toplevel=False, nested=False):
        for st in body:
            if isinstance(st, (ast.FunctionDef, ast.AsyncFunctionDef)):
                qn = prefix + st.name
                fi = FuncInfo(self, st, qn, cls)
                self.functions[qn] = fi
                if cls is not None:
                    cls.methods[st.name] = fi
                elif toplevel:
                    self.assigns.setdefault(st.name, []).append(st)
                self._index_body(st.body, qn + '.', None)
            elif isinstance(st, ast.ClassDef):
                qn = prefix + st.name
                ci = ClassInfo(self, st, qn)
                self.classes[qn] = ci
                if toplevel:
                    self.assigns.setdefault(st.name, []).append(st)
                self._index_body(st.body, qn + '.', ci)
            elif isinstance(st, (ast.Import, ast.ImportFrom)) and (toplevel or True):
                self._index_import(st)
            elif isinstance(st, ast.Assign):
                for t in st.targets:
                    # "A, B = x, y": element-wise values (plain names on the left, same length, no star)
                    pairs = {}
                    if isinstance(t, (ast.Tuple, ast.List)) and isinstance(st.value, (ast.Tuple, ast.List)) and \
                            len(t.elts) == len(st.value.elts) and \
                            not any(isinstance(e, ast.Starred) for e in list(t.elts) + list(st.value.elts)):
                        pairs = dict((e.id, v) for e, v in zip(t.elts, st.value.elts) if isinstance(e, ast.Name))
                    for n in _target_names(t):
                        if cls is not None:
                            cls.class_attrs[n] = st.value if isinstance(t, ast.Name) else None
                        elif toplevel:
                            self.assigns.setdefault(n, []).append(st.value if isinstance(t, ast.Name) else pairs.get(n))
            elif isinstance(st, ast.AnnAssign) and isinstance(st.target, ast.Name):
                if cls is not None:
                    cls.class_attrs[st.target.id] = st.value
                elif toplevel:
                    self.assigns.setdefault(st.target.id, []).append(st.value)
            elif isinstance(st, ast.AugAssign) and isinstance(st.target, ast.Name) and toplevel:
                lst = self.assigns.setdefault(st.target.id, [])
                lst.append(None)
                if not nested and cls is None:
                    self.augassigns.setdefault(st.target.id, {})[len(lst) - 1] = st
            elif isinstance(st, (ast.If, ast.Try, ast.With, ast.For, ast.While)):
                # module/class level conditional definitions (py2/py3 shims etc.)
                for sub in _sub_bodies(st):
                    self._index_body(sub, prefix, cls, toplevel=toplevel, nested=True)
                if isinstance(st, ast.For) and toplevel:
                    for n in _target_names(st.target):
                        self.assigns.setdefault(n, []).append(None)

    def _index_import(self, st):
        if isinstance(st, ast.Import):
            for a in st.names:
                local = a.asname or a.name.split('.')[0]
                self.imports[local] = (a.name if a.asname else a.name.split('.')[0], None)
        else:
            modname = self._abs_module(st)
            for a in st.names:
                if a.name == '*':
                    continue
                self.imports[a.asname or a.name] = (modname, a.name)

    # -- lookups -----------------------------------------------------------
    def func(self, qualname):
        try:
            fi = self.functions[qualname]
        except KeyError:
            fi = None
            # ``Class.method`` that the class now inherits from a base class of the analysed tree (the method was moved
            # into a mixin / base): the function the name resolves to through the MRO is the one to analyse
            cname, _, mname = qualname.rpartition('.')
            if cname in self.classes and mname:
                try:
                    fi = self.repo.find_method(self.classes[cname], mname)
                except Exception:
                    fi = None
                if fi is not None and fi.mod.external:
                    fi = None
            if fi is None:
                # a function / class that moved to another module of the package and is imported back under its name:
                # the anchor is the definition the name still resolves to
                other, rest = self._moved(qualname)
                if other is not None:
                    try:
                        return other.func(rest)
                    except AnalysisError:
                        pass
                raise AnalysisError('anchor vanished: function %s::%s' % (self.name, qualname))
        self.repo.functions_touched.add(fi.key)
        return fi

    def _moved(self, qualname, _depth=0):
        """``name[.rest]`` whose head this module imports from another module of the analysed package:
        -> (that module, the qualified name there); (None, None) otherwise."""
        head, _, rest = qualname.partition('.')
        tgt = self.imports.get(head)
        if not tgt or tgt[1] is None or _depth > 3:
            return None, None
        modname, attr = tgt
        if not self.repo.is_internal(modname):
            return None, None
        try:
            m = self.repo.mod(modname)
        except AnalysisError:
            # ``from .pkg import name`` where name is itself a module
            return None, None
        return m, attr + ('.' + rest if rest else '')

    def cls(self, qualname):
        try:
            return self.classes[qualname]
        except KeyError:
            other, rest = self._moved(qualname)
            if other is not None:
                try:
                    return other.cls(rest)
                except AnalysisError:
                    pass
            raise AnalysisError('anchor vanished: class %s::%s' % (self.name, qualname))

    def enclosing_function(self, node):
        cur = self.parents.get(node)
        while cur is not None:
            if isinstance(cur, (ast.FunctionDef, ast.AsyncFunctionDef, ast.Lambda)):
                return cur
            cur = self.parents.get(cur)
        return None

    def func_of_node(self, fnode):
        for fi in self.functions.values():
            if fi.node is fnode:
                return fi
        return None

    def const(self, name):
        """Folded value of a module-level name (single static assignment)."""
        return self.repo.fold(ast.Name(id=name, ctx=ast.Load()), self)


def _sub_bodies(st):
    if isinstance(st, ast.If):
        return [st.body, st.orelse]
    if isinstance(st, ast.Try):
        return [st.body] + [h.body for h in st.handlers] + [st.orelse, st.finalbody]
    if isinstance(st, (ast.For, ast.While)):
        return [st.body, st.orelse]
    if isinstance(st, ast.With):
        return [st.body]
    return []


def _has_sym(v):
    if isinstance(v, Sym):
        return True
    if isinstance(v, dict):
        return _has_sym(list(v.keys())) or _has_sym(list(v.values()))
    if isinstance(v, (list, tuple, set, frozenset)):
        return any(_has_sym(x) for x in v)
    return False


def _bind_target(t, item, env):
    """Bind a comprehension target (name or nested tuple of names) to a folded item."""
    if isinstance(t, ast.Name):
        env[t.id] = item
        return
    if isinstance(t, (ast.Tuple, ast.List)) and not any(isinstance(e, ast.Starred) for e in t.elts):
        try:
            items = list(item)
        except Exception:
            raise Unfoldable('cannot unpack %r' % (item,))
        if isinstance(item, (set, frozenset, Sym)) or len(items) != len(t.elts):
            raise Unfoldable('cannot unpack %r' % (item,))
        for e, x in zip(t.elts, items):
            _bind_target(e, x, env)
        return
    raise Unfoldable('comprehension target')


def _target_names(t):
    if isinstance(t, ast.Name):
        return [t.id]
    if isinstance(t, (ast.Tuple, ast.List)):
        out = []
        for e in t.elts:
            out.extend(_target_names(e))
        return out
    if isinstance(t, ast.Starred):
        return _target_names(t.value)
    return []


class Repo(object):
    """The analysed tree."""

    PKG = 'clastic'

    def __init__(self, root):
        self.root = os.path.abspath(root)
        self._mods = {}
        self._words = None
        self.functions_touched = set()
        if not os.path.isdir(os.path.join(self.root, self.PKG)):
            raise AnalysisError('no %s package under %s' % (self.PKG, self.root))

    # -- modules -----------------------------------------------------------
    def _path_of(self, name):
        parts = name.split('.')
        base = os.path.join(self.root, *parts)
        if os.path.isfile(base + '.py'):
            return base + '.py'
        if os.path.isfile(os.path.join(base, '__init__.py')):
            return os.path.join(base, '__init__.py')
        return None

    def is_internal(self, name):
        return name == self.PKG or name.startswith(self.PKG + '.')

    def mentioned_outside(self, ident, own_path):
        """Does any source file of the package other than ``own_path`` contain the identifier ``ident`` (as a word,
        anywhere: code, string, comment)?  Used by the front-end before it treats a private definition as local to its
        module.  Test directories are not part of the analysed program and are not consulted."""
        if self._words is None:
            import re
            self._words = {}
            pkgdir = os.path.join(self.root, self.PKG)
            for dp, dn, fn in os.walk(pkgdir):
                dn[:] = [d for d in dn if d not in ('__pycache__', 'tests')]
                for f in fn:
                    if f.endswith('.py'):
                        fp = os.path.join(dp, f)
                        try:
                            with open(fp, 'rb') as fh:
                                txt = fh.read().decode('utf-8', 'replace')
                        except IOError:
                            continue
                        self._words[os.path.abspath(fp)] = set(re.findall(r'[A-Za-z_][A-Za-z0-9_]*', txt))
        own = os.path.abspath(own_path)
        return any(ident in w for fp, w in self._words.items() if fp != own)

    def mod(self, name):
        if name in self._mods:
            return self._mods[name]
        if self.is_internal(name):
            path = self._path_of(name)
            if path is None:
                raise AnalysisError('anchor vanished: module %s' % name)
            m = ModuleInfo(self, name, path)
        else:
            path = self._find_external(name)
            if path is None:
                raise AnalysisError('third-party module %s not found' % name)
            m = ModuleInfo(self, name, path, external=True)
        self._mods[name] = m
        if not m.external and not os.environ.get('VT_NO_NORMALIZE'):
            from . import normalize
            normalize.kw_to_pos(m, self)
        return m

    def try_mod(self, name):
        try:
            return self.mod(name)
        except AnalysisError:
            return None

    def _find_external(self, name):
        parts = name.split('.')
        path = None
        spec = None
        for i in range(len(parts)):
            sub = '.'.join(parts[:i + 1])
            spec = PathFinder.find_spec(sub, path)
            if spec is None:
                return None
            path = spec.submodule_search_locations
        origin = spec.origin
        if origin and origin.endswith('.py'):
            return origin
        return None

    def all_internal_modules(self, include_tests=False):
        out = []
        pkgdir = os.path.join(self.root, self.PKG)
        for dp, dn, fn in os.walk(pkgdir):
            dn[:] = sorted(d for d in dn if d != '__pycache__')
            rel = os.path.relpath(dp, self.root).replace(os.sep, '.')
            if not include_tests and ('.tests' in rel or rel.endswith('tests')):
                continue
            for f in sorted(fn):
                if not f.endswith('.py'):
                    continue
                if f == '__init__.py':
                    out.append(rel)
                else:
                    out.append(rel + '.' + f[:-3])
        return [self.mod(n) for n in out]

    def analysed(self):
        return sorted(m.relpath for m in self._mods.values())

    # -- name resolution ---------------------------------------------------
    def resolve(self, mod, name, depth=0):
        """Resolve a module-level name to ('func'|'class'|'value'|'module'|'external', mod, obj)."""
        if depth > 12:
            return ('unknown', mod, name)
        if name in mod.functions and '.' not in name:
            return ('func', mod, mod.functions[name])
        if name in mod.classes and '.' not in name:
            return ('class', mod, mod.classes[name])
        if name in mod.imports:
            modname, attr = mod.imports[name]
            if attr is None:
                target = self.try_mod(modname)
                return ('module', target, modname)
            # "from pkg import submodule"?
            sub = None
            if self.is_internal(modname) or True:
                sub = self.try_mod(modname + '.' + attr) if self._module_exists(modname + '.' + attr) else None
            target = self.try_mod(modname)
            if target is not None:
                r = self.resolve(target, attr, depth + 1)
                if r[0] != 'unknown':
                    return r
            if sub is not None:
                return ('module', sub, modname + '.' + attr)
            return ('external', None, '%s.%s' % (modname, attr))
        if name in mod.assigns:
            vals = [v for v in mod.assigns[name]]
            if len(vals) == 1 and isinstance(vals[0], ast.Name) and vals[0].id != name:
                return self.resolve(mod, vals[0].id, depth + 1)
            return ('value', mod, vals)
        return ('unknown', mod, name)

    def _module_exists(self, name):
        if self.is_internal(name):
            return self._path_of(name) is not None
        try:
            return self._find_external(name) is not None
        except Exception:
            return False

    def resolve_class(self, mod, expr):
        """Resolve a base-class / isinstance expression to ClassInfo or a dotted external name."""
        if isinstance(expr, ast.Name):
            kind, m, obj = self.resolve(mod, expr.id)
            if kind == 'class':
                return obj
            if kind == 'external':
                return obj
            return expr.id  # builtin or unknown: name
        if isinstance(expr, ast.Attribute):
            base = expr.value
            if isinstance(base, ast.Name):
                kind, m, obj = self.resolve(mod, base.id)
                if kind == 'module' and m is not None:
                    r = self.resolve(m, expr.attr)
                    if r[0] == 'class':
                        return r[2]
            return norm(expr)
        return norm(expr)

    def mro(self, ci, _seen=None):
        """Linearised list of ClassInfo / names (simple DFS, dedup keeping last -- adequate
        for attribute-set queries, which are order-insensitive)."""
        out = [ci]
        for b in ci.node.bases:
            r = self.resolve_class(ci.mod, b)
            if isinstance(r, ClassInfo):
                for x in self.mro(r):
                    if x not in out:
                        out.append(x)
            else:
                if r not in out:
                    out.append(r)
        return out

    def is_subclass(self, ci, other):
        """other: ClassInfo or bare class name."""
        for c in self.mro(ci):
            if c is other:
                return True
            if isinstance(other, str):
                if isinstance(c, ClassInfo) and c.name == other:
                    return True
                if isinstance(c, str) and c.rpartition('.')[2] == other:
                    return True
        return False

    def find_method(self, ci, name):
        for c in self.mro(ci):
            if not isinstance(c, ClassInfo):
                continue
            if name in c.methods:
                return c.methods[name]
            v = c.class_attrs.get(name)
            if isinstance(v, ast.Name) and v.id in c.methods:   # "__call__ = render_response"
                return c.methods[v.id]
        return None

    def class_attr(self, ci, name):
        """(defining ClassInfo, value expr) of a class-level attribute through the MRO."""
        for c in self.mro(ci):
            if isinstance(c, ClassInfo):
                if name in c.class_attrs:
                    return c, c.class_attrs[name]
                if name in c.methods:
                    return c, c.methods[name].node
        return None, None

    def subclasses(self, ci, mods=None):
        out = []
        for m in (mods or self.all_internal_modules()):
            for c in m.classes.values():
                if c is not ci and ci in self.mro(c):
                    out.append(c)
        return out

    # -- constant folding ----------------------------------------------------
    def fold(self, expr, mod, env=None, depth=0, sym=False):
        """Fold an expression made of literals and module-level constants.  Raises Unfoldable.
        sym=True: a name without a foldable value (builtin, function, class, import) folds to ``Sym(name)``
        instead of raising, so that tables such as ``[('int', int, _INT_PATTERN), ...]`` fold structurally."""
        if depth > 25:
            raise Unfoldable('depth')
        f = lambda e: self.fold(e, mod, env, depth + 1, sym)
        if isinstance(expr, ast.Constant):
            return expr.value
        if isinstance(expr, ast.Tuple):
            return tuple(f(e) for e in expr.elts)
        if isinstance(expr, ast.List):
            return [f(e) for e in expr.elts]
        if isinstance(expr, ast.Set):
            return set(f(e) for e in expr.elts)
        if isinstance(expr, ast.Dict):
            out = {}
            for k, v in zip(expr.keys, expr.values):
                if k is None:           # {**other, ...}
                    sub = f(v)
                    if not isinstance(sub, dict):
                        raise Unfoldable('dict unpack of a non-dict')
                    out.update(sub)
                else:
                    try:
                        out[f(k)] = f(v)
                    except TypeError as e:
                        raise Unfoldable(str(e))
            return out
        if isinstance(expr, ast.Name):
            if env and expr.id in env:
                return env[expr.id]
            try:
                return self._fold_name(expr, mod, depth, sym)
            except Unfoldable:
                if sym:
                    return Sym(expr.id)
                raise
        if isinstance(expr, (ast.ListComp, ast.SetComp, ast.GeneratorExp, ast.DictComp)):
            # comprehension over foldable iterables (a generator expression folds to the list of its items:
            # it is only ever consumed by the enclosing call)
            out = []
            for e2 in self._comp_envs(expr.generators, mod, env, depth, sym):
                if isinstance(expr, ast.DictComp):
                    out.append((self.fold(expr.key, mod, e2, depth + 1, sym), self.fold(expr.value, mod, e2, depth + 1, sym)))
                else:
                    out.append(self.fold(expr.elt, mod, e2, depth + 1, sym))
            try:
                if isinstance(expr, ast.DictComp):
                    return dict(out)
                if isinstance(expr, ast.SetComp):
                    return set(out)
            except Exception as e:
                raise Unfoldable(str(e))
            return out
        if isinstance(expr, ast.BinOp):
            l, r = f(expr.left), f(expr.right)
            try:
                if isinstance(expr.op, ast.Add):
                    return l + r
                if isinstance(expr.op, ast.Mod):
                    return l % r
                if isinstance(expr.op, ast.Mult):
                    return l * r
                if isinstance(expr.op, ast.BitOr):
                    return l | r
                if isinstance(expr.op, ast.Sub):
                    return l - r
                if isinstance(expr.op, ast.BitAnd):
                    return l & r
                if isinstance(expr.op, ast.Pow):
                    return l ** r
            except Exception as e:
                raise Unfoldable(str(e))
            raise Unfoldable('binop')
        if isinstance(expr, ast.BoolOp):
            v = None
            for e in expr.values:
                v = f(e)
                if isinstance(v, Sym):
                    raise Unfoldable('truth of %r' % v)
                if bool(v) is isinstance(expr.op, ast.Or):
                    return v
            return v
        if isinstance(expr, ast.IfExp):
            t = f(expr.test)
            if isinstance(t, Sym):
                raise Unfoldable('truth of %r' % t)
            return f(expr.body) if t else f(expr.orelse)
        if isinstance(expr, ast.Compare):
            left = f(expr.left)
            for op, c in zip(expr.ops, expr.comparators):
                right = f(c)
                if isinstance(left, Sym) or isinstance(right, Sym):
                    raise Unfoldable('comparison with %r' % (left if isinstance(left, Sym) else right))
                try:
                    if isinstance(op, ast.Eq):
                        r = left == right
                    elif isinstance(op, ast.NotEq):
                        r = left != right
                    elif isinstance(op, ast.In):
                        r = left in right
                    elif isinstance(op, ast.NotIn):
                        r = left not in right
                    elif isinstance(op, ast.Lt):
                        r = left < right
                    elif isinstance(op, ast.LtE):
                        r = left <= right
                    elif isinstance(op, ast.Gt):
                        r = left > right
                    elif isinstance(op, ast.GtE):
                        r = left >= right
                    else:
                        raise Unfoldable('compare op')
                except Unfoldable:
                    raise
                except Exception as e:
                    raise Unfoldable(str(e))
                if not r:
                    return False
                left = right
            return True
        if isinstance(expr, ast.JoinedStr):
            parts = []
            for v in expr.values:
                if isinstance(v, ast.Constant):
                    parts.append(str(v.value))
                elif isinstance(v, ast.FormattedValue) and v.format_spec is None and v.conversion == -1:
                    x = f(v.value)
                    if isinstance(x, Sym):
                        raise Unfoldable('fstring of %r' % x)
                    parts.append(str(x))
                else:
                    raise Unfoldable('fstring')
            return ''.join(parts)
        if isinstance(expr, ast.Call):
            fn = expr.func
            if isinstance(fn, ast.Name) and fn.id in ('set', 'frozenset', 'tuple', 'list', 'dict', 'sorted', 'len', 'str') \
                    and not expr.keywords:
                args = [f(a) for a in expr.args]
                if fn.id == 'str' and any(isinstance(a, Sym) for a in args):
                    raise Unfoldable('str of a symbol')
                try:
                    return {'set': set, 'frozenset': frozenset, 'tuple': tuple, 'list': list, 'dict': dict,
                            'sorted': sorted, 'len': len, 'str': str}[fn.id](*args)
                except Exception as e:
                    raise Unfoldable(str(e))
            if isinstance(fn, ast.Name) and fn.id == 'dict' and len(expr.args) <= 1 and expr.keywords:
                # dict(a=1), dict(base, a=1), dict(base, **more)
                try:
                    out = dict(f(expr.args[0])) if expr.args else {}
                except Unfoldable:
                    raise
                except Exception as e:
                    raise Unfoldable(str(e))
                for k in expr.keywords:
                    if k.arg is None:
                        sub = f(k.value)
                        if not isinstance(sub, dict):
                            raise Unfoldable('dict unpack of a non-dict')
                        out.update(sub)
                    else:
                        out[k.arg] = f(k.value)
                return out
            if isinstance(fn, ast.Name) and fn.id == 'zip' and not expr.keywords:
                args = [f(a) for a in expr.args]
                if any(isinstance(a, (set, frozenset, Sym)) for a in args):
                    raise Unfoldable('zip of unordered / symbolic operands')
                try:
                    return list(zip(*args))
                except Exception as e:
                    raise Unfoldable(str(e))
            if isinstance(fn, ast.Attribute) and fn.attr in ('format', 'join', 'replace', 'rstrip', 'lstrip', 'strip',
                                                             'lower', 'upper', 'keys', 'values', 'items', 'split'):
                recv = f(fn.value)
                args = [f(a) for a in expr.args]
                kw = dict((k.arg, f(k.value)) for k in expr.keywords if k.arg)
                if isinstance(recv, Sym) or (fn.attr in ('format', 'join') and _has_sym(args + list(kw.values()))):
                    raise Unfoldable('string operation on a symbol')
                try:
                    r = getattr(recv, fn.attr)(*args, **kw)
                except Exception as e:
                    raise Unfoldable(str(e))
                if fn.attr in ('keys', 'values', 'items'):
                    r = list(r)
                return r
            if isinstance(fn, ast.Name) and not (env and fn.id in env):
                # a module-level function that only returns an expression of its parameters and of module
                # constants (``def _fill(src): return src.replace(MARK, BLOCK)``) folds to that expression
                kind, m, obj = self.resolve(mod, fn.id)
                if kind == 'func' and m is not None and not any(isinstance(a, ast.Starred) for a in expr.args) \
                        and all(k.arg for k in expr.keywords):
                    return self._fold_call(obj, [f(a) for a in expr.args], dict((k.arg, f(k.value)) for k in expr.keywords), depth)
            raise Unfoldable('call %s' % norm(fn))
        if isinstance(expr, ast.Subscript):
            v = f(expr.value)
            try:
                if isinstance(expr.slice, ast.Slice):
                    lo = f(expr.slice.lower) if expr.slice.lower else None
                    hi = f(expr.slice.upper) if expr.slice.upper else None
                    if expr.slice.step is not None:
                        return v[lo:hi:f(expr.slice.step)]
                    return v[lo:hi]
                return v[f(expr.slice)]
            except Unfoldable:
                raise
            except Exception as e:
                raise Unfoldable(str(e))
        if isinstance(expr, ast.UnaryOp) and isinstance(expr.op, (ast.USub, ast.Not)):
            v = f(expr.operand)
            if isinstance(v, Sym):
                raise Unfoldable('operation on %r' % v)
            try:
                return -v if isinstance(expr.op, ast.USub) else (not v)
            except Exception as e:
                raise Unfoldable(str(e))
        if isinstance(expr, ast.Attribute):
            # module.CONST
            if isinstance(expr.value, ast.Name):
                kind, m, obj = self.resolve(mod, expr.value.id)
                if kind == 'module' and m is not None:
                    return self.fold(ast.Name(id=expr.attr, ctx=ast.Load()), m, None, depth + 1, sym)
                if kind == 'class' and m is not None and not m.external:
                    # Namespace.CONST: a class-level constant of a class of the tree that nothing in the tree stores to
                    owner, val = self.class_attr(obj, expr.attr)
                    if owner is not None and isinstance(val, ast.expr) and not self._class_attr_stored(obj.name, expr.attr):
                        return self.fold(val, owner.mod, None, depth + 1, sym)
            raise Unfoldable('attr')
        raise Unfoldable(type(expr).__name__)

    def _class_attr_stored(self, cls_name, attr):
        """Can ``<class object>.attr`` be assigned / deleted after the class body ran?  Looked for over the analysed package:
        an attribute store (or ``setattr`` / ``delattr``, also under a computed name) whose receiver may be the class
        object itself -- the class name, ``cls``, ``type(x)``, ``x.__class__``.  (Stores through an instance create an
        instance attribute and leave the class attribute alone.)"""
        cache = self.__dict__.get('_cls_attr_stores')
        if cache is None:
            cache = set()

            def class_like(e):
                if isinstance(e, ast.Name):
                    return e.id
                if isinstance(e, ast.Call) and isinstance(e.func, ast.Name) and e.func.id == 'type':
                    return '*'
                if isinstance(e, ast.Attribute) and e.attr == '__class__':
                    return '*'
                return None
            for m in self.all_internal_modules():
                for n in ast.walk(m.tree):
                    if isinstance(n, ast.Attribute) and isinstance(n.ctx, (ast.Store, ast.Del)):
                        r = class_like(n.value)
                        if r is not None:
                            cache.add((r, n.attr))
                    elif isinstance(n, ast.Call) and isinstance(n.func, ast.Name) and n.func.id in ('setattr', 'delattr') and len(n.args) >= 2:
                        r = class_like(n.args[0])
                        a = n.args[1]
                        if r is not None:
                            cache.add((r, a.value if isinstance(a, ast.Constant) and isinstance(a.value, str) else '*'))
            self._cls_attr_stores = cache
        for recv in (cls_name, 'cls', '*'):
            if (recv, attr) in cache or (recv, '*') in cache:
                # ``self`` / other instance names are in the table too (any plain name): only these receivers count
                return True
        return False

    def _fold_name(self, expr, mod, depth, sym):
        kind, m, obj = self.resolve(mod, expr.id)
        if kind == 'value':
            aug = getattr(m, 'augassigns', {}).get(expr.id, {}) if m is not None else {}
            vals = []
            for i, v in enumerate(obj):
                if v is None and i in aug:
                    vals.append(aug[i])          # module-level "X += ..." / "X |= ..." (straight-line code only)
                elif isinstance(v, ast.Name) and v.id == expr.id:
                    # tolerate the py2/py3 shim: "try: unicode = unicode / except NameError: unicode = str"
                    continue
                else:
                    vals.append(v)
            plain = lambda v: v is not None and not isinstance(v, (ast.FunctionDef, ast.ClassDef, ast.AugAssign))
            if len(vals) == 1 and plain(vals[0]):
                return self.fold(vals[0], m, None, depth + 1, sym)
            if len(vals) > 1 and plain(vals[0]) and all(plain(v) or isinstance(v, ast.AugAssign) for v in vals[1:]):
                # sequential module-level re-binding:  X = '...';  X = X.replace(...);  X += [...]
                cur = self.fold(vals[0], m, None, depth + 1, sym)
                for v in vals[1:]:
                    if isinstance(v, ast.AugAssign):
                        v = ast.BinOp(left=ast.Name(id=expr.id, ctx=ast.Load()), op=v.op, right=v.value)
                    cur = self.fold(v, m, {expr.id: cur}, depth + 1, sym)
                return cur
        raise Unfoldable('name %s' % expr.id)

    def _comp_envs(self, gens, mod, env, depth, sym, budget=None):
        """Environments (one per iteration that passes the filters) of a comprehension's ``for`` clauses."""
        if budget is None:
            budget = [20000]
        if not gens:
            yield dict(env or {})
            return
        g = gens[0]
        if g.is_async:
            raise Unfoldable('async comprehension')
        it = self.fold(g.iter, mod, env, depth + 1, sym)
        if isinstance(it, (set, frozenset)):
            raise Unfoldable('iteration order of a set')
        if not isinstance(it, (list, tuple, dict, str)):
            raise Unfoldable('iteration over %s' % type(it).__name__)
        for item in list(it):
            budget[0] -= 1
            if budget[0] < 0:
                raise Unfoldable('comprehension too large')
            e2 = dict(env or {})
            _bind_target(g.target, item, e2)
            keep = True
            for c in g.ifs:
                t = self.fold(c, mod, e2, depth + 1, sym)
                if isinstance(t, Sym):
                    raise Unfoldable('truth of %r' % t)
                if not t:
                    keep = False
                    break
            if keep:
                for e3 in self._comp_envs(gens[1:], mod, e2, depth, sym, budget):
                    yield e3

    def _fold_call(self, fi, args, kwargs, depth):
        """Value of a call of the straight-line function ``fi`` (docstring, ``name = expr`` lines, one final
        ``return expr``; no decorators, no * / ** parameters) on folded arguments.  Raises Unfoldable."""
        fn = fi.node
        a = fn.args
        if not isinstance(fn, ast.FunctionDef) or fn.decorator_list or a.vararg or a.kwarg or fi.cls is not None:
            raise Unfoldable('call %s' % fi.qualname)
        params = [x.arg for x in a.posonlyargs + a.args]
        if len(args) > len(params):
            raise Unfoldable('call %s: arity' % fi.qualname)
        env = dict(zip(params, args))
        for k, v in kwargs.items():
            if k in env or k not in params + [x.arg for x in a.kwonlyargs]:
                raise Unfoldable('call %s: keyword %s' % (fi.qualname, k))
            env[k] = v
        defaults = dict(zip(params[len(params) - len(a.defaults):], a.defaults))
        defaults.update((x.arg, d) for x, d in zip(a.kwonlyargs, a.kw_defaults) if d is not None)
        for p in params + [x.arg for x in a.kwonlyargs]:
            if p not in env:
                if p not in defaults:
                    raise Unfoldable('call %s: missing %s' % (fi.qualname, p))
                env[p] = self.fold(defaults[p], fi.mod, None, depth + 1)
        body = list(fn.body)
        if body and isinstance(body[0], ast.Expr) and isinstance(body[0].value, ast.Constant) and isinstance(body[0].value.value, str):
            body = body[1:]
        if not body or not isinstance(body[-1], ast.Return) or body[-1].value is None:
            raise Unfoldable('call %s: not a straight-line function' % fi.qualname)
        for st in body[:-1]:
            if not (isinstance(st, ast.Assign) and len(st.targets) == 1 and isinstance(st.targets[0], ast.Name)):
                raise Unfoldable('call %s: not a straight-line function' % fi.qualname)
            env[st.targets[0].id] = self.fold(st.value, fi.mod, env, depth + 1)
        return self.fold(body[-1].value, fi.mod, env, depth + 1)

    def try_fold(self, expr, mod, default=None):
        try:
            return self.fold(expr, mod)
        except Unfoldable:
            return default
