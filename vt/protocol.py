"""E8 -- class protocol: which attributes does a class (per MRO member) define?"""
import ast

from .loader import ClassInfo

OBJECT_ATTRS = {'__class__', '__dict__', '__doc__', '__module__', '__init__', '__repr__', '__str__', '__eq__', '__ne__',
                '__hash__', '__getattribute__', '__setattr__', '__delattr__', '__reduce__', '__reduce_ex__', '__sizeof__',
                '__dir__', '__format__', '__new__', '__init_subclass__', '__subclasshook__', '__weakref__', '__lt__', '__le__',
                '__gt__', '__ge__'}
EXCEPTION_ATTRS = OBJECT_ATTRS | {'args', 'with_traceback', '__traceback__', '__cause__', '__context__',
                                  '__suppress_context__', 'add_note', '__notes__'}


def own_attrs(ci):
    """Attributes a single class body defines: methods, class attributes, self.x stores in its methods."""
    out = set(ci.methods) | set(ci.class_attrs)
    for fi in ci.methods.values():
        args = fi.node.args.args
        if not args:
            continue
        selfname = args[0].arg
        for n in ast.walk(fi.node):
            if isinstance(n, ast.Attribute) and isinstance(n.ctx, ast.Store) and isinstance(n.value, ast.Name) \
                    and n.value.id == selfname:
                out.add(n.attr)
    return out


def defined_attrs(repo, ci):
    """{attr: [defining ClassInfo, ...]} through the MRO (external bases contribute nothing but are listed in unknown)."""
    out = {}
    unknown = []
    for c in repo.mro(ci):
        if isinstance(c, ClassInfo):
            for a in own_attrs(c):
                out.setdefault(a, []).append(c)
        elif c not in ('object',):
            unknown.append(c)
    return out, unknown
