"""E6a -- Dust/ashes template reference tokenizer.

The tag grammar (``node_re``) and the comment grammar are read from the pinned
``ashes.py`` source by constant folding, so the tokenizer sees exactly the tags
ashes sees.  Escaping semantics (``Ashes.apply_filters`` in the pinned source):
a reference is HTML-escaped iff an explicit ``h`` filter is present, or the
filter list does not end in ``s`` while the autoescape filter in force is ``h``.
"""
import ast
import re

from .core import AnalysisError


class Tag(object):
    def __init__(self, kind, symbol, closing, refpath, contpath, filters, params, text, line, auto, selfclosing):
        self.kind, self.symbol, self.closing, self.refpath, self.contpath = kind, symbol, closing, refpath, contpath
        self.filters, self.params, self.text, self.line, self.auto = filters, params, text, line, auto
        self.selfclosing = selfclosing

    @property
    def escaped(self):
        if 'h' in self.filters:
            return True
        if self.filters and self.filters[-1] == 's':
            return False
        return self.auto == 'h'

    def __repr__(self):
        return '<Tag %s %s line %d>' % (self.kind, self.text, self.line)


_cache = {}


def ashes_grammar(repo):
    if 'g' in _cache:
        return _cache['g']
    m = repo.mod('ashes')
    pats = {}
    for st in m.tree.body:
        if isinstance(st, ast.Assign) and len(st.targets) == 1 and isinstance(st.targets[0], ast.Name) \
                and st.targets[0].id in ('node_re', 'comment_re') and isinstance(st.value, ast.Call):
            call = st.value
            try:
                pat = repo.fold(call.args[0], m)
            except Exception as e:
                raise AnalysisError('cannot fold ashes.%s: %s' % (st.targets[0].id, e))
            flags = 0
            for k in call.keywords:
                if k.arg == 'flags':
                    for n in ast.walk(k.value):
                        if isinstance(n, ast.Attribute):
                            flags |= getattr(re, n.attr)
            pats[st.targets[0].id] = re.compile(pat, flags)
    if 'node_re' not in pats or 'comment_re' not in pats:
        raise AnalysisError('ashes tag grammar not found in pinned ashes.py')
    # default autoescape filter of AshesEnv
    auto = None
    for c in m.classes.values():
        if 'autoescape_filter' in c.class_attrs:
            v = c.class_attrs['autoescape_filter']
            if isinstance(v, ast.Constant):
                auto = v.value
    if auto is None:
        raise AnalysisError('ashes default autoescape_filter not found')
    _cache['g'] = (pats['node_re'], pats['comment_re'], auto)
    return _cache['g']


def tokenize(repo, text, default_auto=None):
    node_re, comment_re, auto0 = ashes_grammar(repo)
    if default_auto is None:
        default_auto = auto0
    # comments vanish before tokenizing (keep line structure)
    text = comment_re.sub(lambda m: '\n' * m.group(0).count('\n'), text)
    tags = []
    auto_stack = [default_auto]
    for m in node_re.finditer(text):
        d = m.groupdict()
        line = text.count('\n', 0, m.start()) + 1
        symbol = d.get('symbol')
        closing = bool(d.get('closing'))
        refpath = d.get('refpath') or ''
        filters = [f for f in (d.get('filters') or '').split('|') if f]
        contpath = d.get('contpath')
        if closing:
            kind = 'close'
            if refpath == 'esc' and len(auto_stack) > 1:
                auto_stack.pop()
        elif symbol is None:
            kind = 'ref'
        elif symbol == '%':
            kind = 'pragma'
        elif symbol == '~':
            kind = 'special'
        elif symbol == ':':
            kind = 'else'
        elif symbol == '>':
            kind = 'partial'
        else:
            kind = 'section'
        tag = Tag(kind, symbol, closing, refpath, contpath, filters, d.get('params') or '', m.group(0), line,
                  auto_stack[-1], bool(d.get('selfclosing')))
        tags.append(tag)
        if kind == 'pragma' and refpath == 'esc' and not tag.selfclosing:
            ctx = contpath or 'h'
            auto_stack.append('' if ctx == 's' else ctx)
    return tags


def references(repo, text, default_auto=None):
    return [t for t in tokenize(repo, text, default_auto) if t.kind == 'ref']
