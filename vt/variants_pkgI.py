"""Variants for C16 (signed cookies): distilled forms of the rewrites the rule follows, and breaking counterparts."""
from .variants import B, T, S, C, R, A, E, ST, CK, STATS, GZ, CC, PF, RS, FL, META, CE

_UNSER = ('        string = string.strip(\'"\')  # this line is for a bug in werkzeug\'s\n'
          '                                    # test client cookie jar usage:\n'
          '                                    # https://github.com/pallets/werkzeug/issues/1060\n'
          '        try:\n'
          '            return super(cls, JSONCookie).unserialize(string, secret_key)\n'
          '        except Exception:\n'
          '            # malformed client data (e.g., a signature that is not\n'
          '            # valid base64): treat like any other invalid cookie\n'
          '            return cls((), secret_key, False)')
_UNQUOTE = ("        try:\n            value = base64.b64decode(value)\n            value = cls.serialization_method.loads(value.decode('utf8'))\n"
            "        except Exception as e:\n            raise UnquoteError()\n        return value")
_STAMP = ("        if self.expiry != NEVER and self.expiry != SESSION:\n"
          "            # let the cookie-specified value override, if present\n"
          "            if '_expires' not in cookie:\n"
          "                cookie['_expires'] = time.time() + self.expiry\n")
_KWARGS = ("        save_cookie_kwargs = dict(key=self.cookie_name,\n"
           "                                  domain=self.domain,\n"
           "                                  path=self.path,\n"
           "                                  secure=self.secure,\n"
           "                                  httponly=self.http_only)\n")
_SAVE = ("        if '_expires' in cookie:\n            save_cookie_kwargs['expires'] = cookie['_expires']\n"
         "        cookie.save_cookie(response, **save_cookie_kwargs)\n")
_LOAD = ("        cookie = self._cookie_type.load_cookie(request,\n"
         "                                               key=self.cookie_name,\n"
         "                                               secret_key=self.secret_key)\n")
_QUOTE = ("        ret = cls.serialization_method.dumps(value)\n"
          "        ret = ret.encode('utf8')  # b64encode wants values as bytes on py3\n")
_SECRET = '        self.secret_key = secret_key or self._get_random()\n'


def _unser(body):
    return (CK, _UNSER, body)


# ---------------------------------------------------------------- twins: JSONCookie
T('c16i_named_temporary', ['C16'],
  _unser('        unwrapped = string.strip(\'"\')\n        try:\n            return super(cls, JSONCookie).unserialize(unwrapped, secret_key)\n'
         '        except Exception:\n            return cls((), secret_key, False)'))
T('c16i_single_return', ['C16'],
  _unser('        string = string.strip(\'"\')\n        try:\n            loaded = super(cls, JSONCookie).unserialize(string, secret_key)\n'
         '        except Exception:\n            loaded = cls((), secret_key, False)\n        return loaded'))
T('c16i_try_else_return', ['C16'],
  _unser('        string = string.strip(\'"\')\n        try:\n            loaded = super(cls, JSONCookie).unserialize(string, secret_key)\n'
         '        except Exception:\n            return cls(data=None, secret_key=secret_key, new=False)\n        else:\n            return loaded'))
T('c16i_fallback_logs', ['C16'],
  (CK, 'import base64\n', 'import base64\nimport logging\n'),
  _unser('        string = string.strip(\'"\')\n        try:\n            return super(cls, JSONCookie).unserialize(string, secret_key)\n'
         '        except Exception:\n            logging.getLogger(__name__).debug("bad cookie", exc_info=True)\n'
         '            return cls((), secret_key, False)'))
T('c16i_empty_data_constant', ['C16'],
  (CK, 'NOW = \'now\'\n', 'NOW = \'now\'\n_NO_DATA = ()\n_JAR_QUOTE = \'"\'\n'),
  _unser('        string = string.strip(_JAR_QUOTE)\n        try:\n            return super(cls, JSONCookie).unserialize(string, secret_key)\n'
         '        except Exception:\n            return cls(_NO_DATA, secret_key, False)'))
T('c16i_unquote_try_else', ['C16'],
  (CK, _UNQUOTE, "        try:\n            raw = base64.b64decode(value).decode('utf-8')\n            loaded = cls.serialization_method.loads(raw)\n"
                 "        except Exception:\n            raise UnquoteError()\n        else:\n            return loaded"))
T('c16i_serializer_local', ['C16'],
  (CK, _QUOTE, "        serializer = cls.serialization_method\n        ret = serializer.dumps(value)\n        ret = ret.encode('utf-8')\n"))

# ---------------------------------------------------------------- twins: SignedCookieMiddleware
T('c16i_stamp_and_chain', ['C16'],
  (CK, _STAMP, "        if self.expiry != NEVER and self.expiry != SESSION and '_expires' not in cookie:\n"
               "            cookie['_expires'] = time.time() + self.expiry\n"))
T('c16i_stamp_positive_tests', ['C16'],
  (CK, _STAMP, "        if self.expiry == NEVER or SESSION == self.expiry:\n            pass\n        elif '_expires' in cookie:\n            pass\n"
               "        else:\n            cookie['_expires'] = time.time() + self.expiry\n"))
T('c16i_stamp_membership', ['C16'],
  (CK, _STAMP, "        timed = self.expiry not in (NEVER, SESSION)\n        if timed and '_expires' not in cookie:\n"
               "            cookie['_expires'] = time.time() + self.expiry\n"))
T('c16i_expires_key_constant', ['C16'],
  (CK, 'NOW = \'now\'\n', 'NOW = \'now\'\n_EXP = \'_expires\'\n'),
  (CK, _STAMP, "        if self.expiry != NEVER and self.expiry != SESSION:\n            if _EXP not in cookie:\n"
               "                cookie[_EXP] = time.time() + self.expiry\n"))
T('c16i_kwargs_dict_literal', ['C16'],
  (CK, _KWARGS, "        save_cookie_kwargs = {'key': self.cookie_name, 'domain': self.domain, 'path': self.path,\n"
                "                              'secure': self.secure, 'httponly': self.http_only}\n"))
T('c16i_kwargs_item_by_item', ['C16'],
  (CK, 'NOW = \'now\'\n', 'NOW = \'now\'\n_DOMAIN = \'domain\'\n'),
  (CK, _KWARGS, "        save_cookie_kwargs = {}\n        save_cookie_kwargs['key'] = self.cookie_name\n        save_cookie_kwargs[_DOMAIN] = self.domain\n"
                "        save_cookie_kwargs.update(path=self.path, secure=self.secure, httponly=self.http_only)\n"))
T('c16i_save_direct_keywords', ['C16'],
  (CK, _KWARGS, ''),
  (CK, _SAVE, "        cookie.save_cookie(response, key=self.cookie_name, domain=self.domain, path=self.path, secure=self.secure,\n"
              "                           httponly=self.http_only, expires=cookie.get('_expires'))\n"))
T('c16i_load_positional', ['C16'],
  (CK, _LOAD, "        cookie_type = self._cookie_type\n        cookie = cookie_type.load_cookie(request, self.cookie_name, self.secret_key)\n"))
T('c16i_next_kwargs_local', ['C16'],
  (CK, '        response = next(**{self.arg_name: cookie})\n', '        provided = {self.arg_name: cookie}\n        response = next(**provided)\n'))
T('c16i_secret_key_if', ['C16'],
  (CK, _SECRET, '        if not secret_key:\n            secret_key = self._get_random()\n        self.secret_key = secret_key\n'))
T('c16i_secret_key_branches', ['C16'],
  (CK, _SECRET, '        if secret_key:\n            self.secret_key = secret_key\n        else:\n            self.secret_key = self._get_random()\n'))
T('c16i_urandom_size_constant', ['C16'],
  (CK, 'NOW = \'now\'\n', 'NOW = \'now\'\n_KEY_BYTES = 20\n'),
  (CK, '        return os.urandom(20)\n', '        return os.urandom(_KEY_BYTES)\n'))
T('c16i_stamp_setdefault', ['C16'],
  (CK, _STAMP, "        if self.expiry != NEVER and self.expiry != SESSION:\n            cookie.setdefault('_expires', time.time() + self.expiry)\n"))

# ---------------------------------------------------------------- breaking counterparts
B('c16i_single_return_keeps_data', ['C16'], 'R16.a',
  _unser('        string = string.strip(\'"\')\n        try:\n            loaded = super(cls, JSONCookie).unserialize(string, secret_key)\n'
         '        except Exception:\n            loaded = cls(string, secret_key, False)\n        return loaded'))
B('c16i_single_return_handler_binds_nothing', ['C16'], 'R16.a',
  _unser('        string = string.strip(\'"\')\n        loaded = None\n        try:\n            loaded = super(cls, JSONCookie).unserialize(string, secret_key)\n'
         '        except Exception:\n            pass\n        return loaded'))
B('c16i_handler_falls_off', ['C16'], 'R16.a',
  _unser('        string = string.strip(\'"\')\n        try:\n            return super(cls, JSONCookie).unserialize(string, secret_key)\n'
         '        except Exception:\n            cls((), secret_key, False)'))
B('c16i_fallback_without_key', ['C16'], 'R16.a',
  _unser('        string = string.strip(\'"\')\n        try:\n            loaded = super(cls, JSONCookie).unserialize(string, secret_key)\n'
         '        except Exception:\n            loaded = cls(())\n        return loaded'))
B('c16i_result_discarded', ['C16'], 'R16.c',
  _unser('        string = string.strip(\'"\')\n        try:\n            loaded = super(cls, JSONCookie).unserialize(string, secret_key)\n'
         '            loaded = cls(dict(loaded, **{}), secret_key, True)\n'
         '        except Exception:\n            loaded = cls((), secret_key, False)\n        return loaded'))
B('c16i_string_transformed', ['C16'], 'R16.c',
  _unser('        unwrapped = string.strip(\'"\').lower()\n        try:\n            return super(cls, JSONCookie).unserialize(unwrapped, secret_key)\n'
         '        except Exception:\n            return cls((), secret_key, False)'))
B('c16i_other_key_delegated', ['C16'], 'R16.c',
  _unser('        string = string.strip(\'"\')\n        secret_key = secret_key or b"clastic"\n        try:\n'
         '            return super(cls, JSONCookie).unserialize(string, secret_key)\n'
         '        except Exception:\n            return cls((), secret_key, False)'))
B('c16i_unquote_handler_may_return', ['C16'], 'R16.b',
  (CK, _UNQUOTE, "        try:\n            value = base64.b64decode(value)\n            value = cls.serialization_method.loads(value.decode('utf8'))\n"
                 "        except Exception as e:\n            if value:\n                raise UnquoteError()\n        return value"))
B('c16i_charset_mismatch', ['C16'], 'R16.b',
  (CK, "cls.serialization_method.loads(value.decode('utf8'))", "cls.serialization_method.loads(value.decode('latin-1'))"))
B('c16i_serializer_mismatch', ['C16'], 'R16.b',
  (CK, _QUOTE, "        ret = repr(value)\n        ret = ret.encode('utf8')\n"))
B('c16i_stamp_set_expires_unconditional', ['C16'], 'R16.d',
  (CK, _STAMP, "        if self.expiry != NEVER and self.expiry != SESSION:\n            cookie.set_expires(time.time() + self.expiry)\n"))
B('c16i_stamp_when_present', ['C16'], 'R16.d',
  (CK, _STAMP, "        if self.expiry != NEVER and self.expiry != SESSION and '_expires' in cookie:\n"
               "            cookie['_expires'] = time.time() + self.expiry\n"))
B('c16i_stamp_session_not_excluded', ['C16'], 'R16.d',
  (CK, _STAMP, "        if self.expiry != NEVER and '_expires' not in cookie:\n            cookie['_expires'] = time.time() + self.expiry\n"))
B('c16i_stamp_wrong_polarity', ['C16'], 'R16.d',
  (CK, _STAMP, "        if self.expiry == NEVER or self.expiry == SESSION:\n            if '_expires' not in cookie:\n"
               "                cookie['_expires'] = time.time() + self.expiry\n"))
B('c16i_save_key_overwritten', ['C16'], 'R16.d',
  (CK, _SAVE, "        save_cookie_kwargs['key'] = self.arg_name\n" + _SAVE))
B('c16i_save_key_missing', ['C16'], 'R16.d',
  (CK, _KWARGS, "        save_cookie_kwargs = {'domain': self.domain, 'path': self.path, 'secure': self.secure, 'httponly': self.http_only}\n"))
B('c16i_secret_key_never_random', ['C16'], 'R16.d', (CK, _SECRET, '        self.secret_key = secret_key\n'))
B('c16i_secret_key_argument_ignored', ['C16'], 'R16.d', (CK, _SECRET, '        self.secret_key = self._get_random()\n'))
B('c16i_secret_key_fixed_fallback', ['C16'], 'R16.d',
  (CK, _SECRET, '        if not secret_key:\n            secret_key = b"clastic"\n        self.secret_key = secret_key\n'))
B('c16i_short_random_key', ['C16'], 'R16.d',
  (CK, 'NOW = \'now\'\n', 'NOW = \'now\'\n_KEY_BYTES = 4\n'),
  (CK, '        return os.urandom(20)\n', '        return os.urandom(_KEY_BYTES)\n'))
B('c16i_provided_under_other_name', ['C16'], 'R16.d',
  (CK, '        response = next(**{self.arg_name: cookie})\n', '        provided = {self.cookie_name: cookie}\n        response = next(**provided)\n'))
B('c16i_load_args_swapped', ['C16'], 'R16.d',
  (CK, _LOAD, "        cookie = self._cookie_type.load_cookie(request, self.secret_key, self.cookie_name)\n"))

# ---------------------------------------------------------------- the random default key, wherever it is written
T('c16i_random_inline', ['C16'], (CK, _SECRET, '        self.secret_key = secret_key or os.urandom(20)\n'))
T('c16i_random_method_renamed', ['C16'], (CK, r're:\b_get_random\b', '_fresh_key'))
T('c16i_provides_tuple_call', ['C16'], (CK, '        self.provides = (arg_name,)\n', '        names = [arg_name]\n        self.provides = tuple(names)\n'))
B('c16i_random_inline_short', ['C16'], 'R16.d', (CK, _SECRET, '        self.secret_key = secret_key or os.urandom(8)\n'))
B('c16i_random_method_not_random', ['C16'], 'R16.d', (CK, '        return os.urandom(20)\n', "        return b'\\x00' * 20\n"))

# ---------------------------------------------------------------- larger rewrites (helpers the loader dissolves)
_REQ = _LOAD + '        response = next(**{self.arg_name: cookie})\n' + _STAMP + _KWARGS + _SAVE + '        return response\n'
T('c16i_request_split_nested_helpers', ['C16'],
  (CK, _REQ,
   "        cookie = self._open(request)\n        response = next(**{self.arg_name: cookie})\n        self._close(cookie, response)\n        return response\n\n"
   "    def _open(self, request):\n        return self._cookie_type.load_cookie(request, key=self.cookie_name, secret_key=self.secret_key)\n\n"
   "    @staticmethod\n    def _is_timed(expiry):\n        return not (expiry == NEVER or expiry == SESSION)\n\n"
   "    def _touch(self, cookie):\n        if '_expires' in cookie or not self._is_timed(self.expiry):\n            return\n"
   "        cookie['_expires'] = time.time() + self.expiry\n\n"
   "    def _save_options(self, cookie):\n        options = dict(key=self.cookie_name, domain=self.domain, path=self.path)\n"
   "        options.update(secure=self.secure, httponly=self.http_only)\n        if '_expires' in cookie:\n            options['expires'] = cookie['_expires']\n"
   "        return options\n\n"
   "    def _close(self, cookie, response):\n        self._touch(cookie)\n        cookie.save_cookie(response, **self._save_options(cookie))\n"))
T('c16i_expiry_local_alias', ['C16'],
  (CK, _STAMP, "        expiry = self.expiry\n        if expiry != NEVER and expiry != SESSION:\n            if '_expires' not in cookie:\n"
               "                cookie['_expires'] = time.time() + expiry\n"))
T('c16i_unserialize_helpers', ['C16'],
  _unser('        try:\n            return super(cls, JSONCookie).unserialize(cls._unwrap(string), secret_key)\n'
         '        except Exception:\n            return cls._blank(secret_key)\n\n'
         '    @staticmethod\n    def _unwrap(text):\n        return text.strip(\'"\')\n\n'
         '    @classmethod\n    def _blank(cls, key):\n        return cls((), key, False)'))
T('c16i_unquote_module_helper', ['C16'],
  (CK, 'class JSONCookie(SecureCookie):\n', 'def _loads_b64(serializer, data):\n    text = base64.b64decode(data).decode(\'utf8\')\n    return serializer.loads(text)\n\n\n'
                                            'class JSONCookie(SecureCookie):\n'),
  (CK, _UNQUOTE, "        try:\n            return _loads_b64(cls.serialization_method, value)\n        except Exception:\n            raise UnquoteError()"))
T('c16i_quote_one_expression', ['C16'],
  (CK, _QUOTE + "        ret = b''.join(base64.b64encode(ret).splitlines()).strip()\n        return ret\n",
       "        return b''.join(base64.b64encode(cls.serialization_method.dumps(value).encode('utf8')).splitlines()).strip()\n"))
B('c16i_helper_condition_too_weak', ['C16'], 'R16.d',
  (CK, _STAMP, "        if '_expires' not in cookie and self._is_timed(self.expiry):\n            cookie['_expires'] = time.time() + self.expiry\n"),
  (CK, '    def _get_random(self):\n', "    @staticmethod\n    def _is_timed(expiry):\n        return expiry != NEVER\n\n    def _get_random(self):\n"))
T('c16i_helper_condition', ['C16'],
  (CK, _STAMP, "        if '_expires' not in cookie and self._is_timed(self.expiry):\n            cookie['_expires'] = time.time() + self.expiry\n"),
  (CK, '    def _get_random(self):\n', "    @staticmethod\n    def _is_timed(expiry):\n        return expiry not in (NEVER, SESSION)\n\n    def _get_random(self):\n"))
B('c16i_next_kwargs_extended', ['C16'], 'R16.d',
  (CK, '        response = next(**{self.arg_name: cookie})\n',
       '        provided = {self.arg_name: cookie}\n        provided[self.arg_name] = dict(cookie)\n        response = next(**provided)\n'))
T('c16i_two_save_sites', ['C16'],
  (CK, _SAVE, "        if '_expires' not in cookie.keys():\n            cookie.save_cookie(response, **save_cookie_kwargs)\n            return response\n"
              "        save_cookie_kwargs['expires'] = cookie['_expires']\n        cookie.save_cookie(response, **save_cookie_kwargs)\n"),
  (CK, "            if '_expires' not in cookie:\n", "            if '_expires' not in cookie.keys():\n"))
B('c16i_two_save_sites_one_missing', ['C16'], 'R16.d',
  (CK, _SAVE, "        if '_expires' not in cookie:\n            return response\n"
              "        save_cookie_kwargs['expires'] = cookie['_expires']\n        cookie.save_cookie(response, **save_cookie_kwargs)\n"))

# ---------------------------------------------------------------- R16.e: what one request learns stays in that request's objects
_EXPIRY_ATTR = '        self.expiry = expiry\n'
_BUILT_ONCE = (_EXPIRY_ATTR + "        self._save_cookie_kwargs = dict(key=self.cookie_name, domain=self.domain, path=self.path,\n"
               "                                        secure=self.secure, httponly=self.http_only)\n")
T('c16i_options_built_once_copied', ['C16'],
  (CK, _EXPIRY_ATTR, _BUILT_ONCE),
  (CK, _KWARGS, "        save_cookie_kwargs = dict(self._save_cookie_kwargs)\n"))
T('c16i_options_built_once_copy_method', ['C16'],
  (CK, _EXPIRY_ATTR, _EXPIRY_ATTR + "        self._save_options = {'key': cookie_name, 'domain': domain, 'path': path}\n"
                                    "        self._save_options.update(secure=secure, httponly=http_only)\n"),
  (CK, _KWARGS, "        save_cookie_kwargs = self._save_options.copy()\n"))
T('c16i_options_built_once_read_only', ['C16'],
  (CK, _EXPIRY_ATTR, _BUILT_ONCE),
  (CK, _KWARGS, ''),
  (CK, _SAVE, "        if '_expires' in cookie:\n            cookie.save_cookie(response, expires=cookie['_expires'], **self._save_cookie_kwargs)\n"
              "        else:\n            cookie.save_cookie(response, **self._save_cookie_kwargs)\n"))
T('c16i_options_cached_lazily', ['C16'],
  (CK, _EXPIRY_ATTR, _EXPIRY_ATTR + "        self._options = None\n"),
  (CK, _KWARGS, "        if self._options is None:\n"
                "            self._options = dict(domain=self.domain, path=self.path, secure=self.secure, httponly=self.http_only)\n"
                "        save_cookie_kwargs = dict(self._options, key=self.cookie_name)\n"))
T('c16i_options_merged_display', ['C16'],
  (CK, _EXPIRY_ATTR, _BUILT_ONCE),
  (CK, _KWARGS, "        shared = self._save_cookie_kwargs\n        save_cookie_kwargs = {**shared}\n"))
B('c16i_options_alias_item', ['C16'], 'R16.e',
  (CK, _EXPIRY_ATTR, _BUILT_ONCE),
  (CK, _KWARGS, "        save_cookie_kwargs = self._save_cookie_kwargs\n"))
B('c16i_options_alias_update', ['C16'], 'R16.e',
  (CK, _EXPIRY_ATTR, _BUILT_ONCE),
  (CK, _KWARGS, ''),
  (CK, _SAVE, "        options = self._save_cookie_kwargs\n        if '_expires' in cookie:\n            options.update(expires=cookie['_expires'])\n"
              "        cookie.save_cookie(response, **options)\n"))
B('c16i_options_attribute_written', ['C16'], 'R16.e',
  (CK, _EXPIRY_ATTR, _BUILT_ONCE),
  (CK, _KWARGS, ''),
  (CK, _SAVE, "        self._save_cookie_kwargs['expires'] = cookie.get('_expires')\n"
              "        cookie.save_cookie(response, **self._save_cookie_kwargs)\n"))
B('c16i_options_module_level', ['C16'], 'R16.e',
  (CK, 'NOW = \'now\'\n', 'NOW = \'now\'\n_SAVE_OPTIONS = {}\n'),
  (CK, _KWARGS, "        save_cookie_kwargs = _SAVE_OPTIONS\n        save_cookie_kwargs.update(key=self.cookie_name, domain=self.domain, path=self.path,\n"
                "                                  secure=self.secure, httponly=self.http_only)\n"))
B('c16i_options_class_level', ['C16'], 'R16.e',
  (CK, '    _cookie_type = JSONCookie\n', '    _cookie_type = JSONCookie\n    _save_defaults = {}\n'),
  (CK, _KWARGS, "        save_cookie_kwargs = type(self)._save_defaults\n        save_cookie_kwargs.update(key=self.cookie_name, domain=self.domain, path=self.path,\n"
                "                                  secure=self.secure, httponly=self.http_only)\n"))
B('c16i_cookie_kept_on_middleware', ['C16'], 'R16.e',
  (CK, '        response = next(**{self.arg_name: cookie})\n',
       '        self.current = cookie\n        response = next(**{self.arg_name: cookie})\n'))
B('c16i_expiry_remembered', ['C16'], 'R16.e',
  (CK, _EXPIRY_ATTR, _EXPIRY_ATTR + "        self._last_expires = {}\n"),
  (CK, _SAVE, "        if '_expires' in cookie:\n            self._last_expires.setdefault('expires', cookie['_expires'])\n"
              "        save_cookie_kwargs.update(self._last_expires)\n        cookie.save_cookie(response, **save_cookie_kwargs)\n"))
B('c16i_options_alias_in_public_helper', ['C16'], 'R16.e',
  (CK, _EXPIRY_ATTR, _BUILT_ONCE),
  (CK, _KWARGS, ''),
  (CK, _SAVE, "        cookie.save_cookie(response, **self.save_options(cookie))\n"),
  (CK, '    def _get_random(self):\n',
       "    def save_options(self, cookie):\n        options = self._save_cookie_kwargs\n        if '_expires' in cookie:\n"
       "            options['expires'] = cookie['_expires']\n        return options\n\n    def _get_random(self):\n"))

# ---------------------------------------------------------------- R16.b: quote() is total on what unquote() can return
_DUMPS = "        ret = cls.serialization_method.dumps(value)\n"
_ENCODE = "        ret = ret.encode('utf8')  # b64encode wants values as bytes on py3\n"
B('c16i_quote_raw_unicode', ['C16'], 'R16.b',
  (CK, _DUMPS, "        ret = cls.serialization_method.dumps(value, ensure_ascii=False)\n"))
B('c16i_quote_raw_unicode_options_constant', ['C16'], 'R16.b',
  (CK, 'NOW = \'now\'\n', 'NOW = \'now\'\n_COMPACT = dict(ensure_ascii=False, separators=(\',\', \':\'))\n'),
  (CK, _DUMPS, "        ret = cls.serialization_method.dumps(value, **_COMPACT)\n"))
B('c16i_quote_raw_unicode_one_expression', ['C16'], 'R16.b',
  (CK, _DUMPS + _ENCODE, "        escape = False\n        ret = bytes(json.dumps(value, ensure_ascii=escape, sort_keys=True), 'utf-8', 'strict')\n"))
B('c16i_quote_raw_unicode_surrogateescape', ['C16'], 'R16.b',
  (CK, _DUMPS + _ENCODE, "        ret = cls.serialization_method.dumps(value, ensure_ascii=False).strip()\n"
                         "        ret = ret.encode('utf8', errors='surrogateescape')\n"))
B('c16i_quote_size_limit_raises', ['C16'], 'R16.b',
  (CK, "        return ret\n\n    @classmethod\n    def unquote",
       "        if len(ret) > 4000:\n            raise ValueError('cookie too large')\n        return ret\n\n    @classmethod\n    def unquote"))
T('c16i_quote_explicit_escaping', ['C16'],
  (CK, _DUMPS, "        ret = cls.serialization_method.dumps(value, ensure_ascii=True, separators=(',', ':'))\n"))
T('c16i_quote_raw_unicode_surrogatepass', ['C16'],
  (CK, _DUMPS + _ENCODE, "        ret = cls.serialization_method.dumps(value, ensure_ascii=False)\n        ret = ret.encode('utf8', 'surrogatepass')\n"),
  (CK, "value.decode('utf8')", "value.decode('utf8', 'surrogatepass')"))
T('c16i_quote_raw_unicode_with_fallback', ['C16'],
  (CK, _DUMPS + _ENCODE, "        try:\n            ret = cls.serialization_method.dumps(value, ensure_ascii=False).encode('utf8')\n"
                         "        except UnicodeEncodeError:\n            ret = cls.serialization_method.dumps(value).encode('utf8')\n"))
T('c16i_quote_options_constant', ['C16'],
  (CK, 'NOW = \'now\'\n', 'NOW = \'now\'\n_COMPACT = dict(separators=(\',\', \':\'), sort_keys=True)\n'),
  (CK, _DUMPS, "        ret = cls.serialization_method.dumps(value, **_COMPACT)\n"))
B('c16i_options_mutable_default', ['C16'], 'R16.e',
  (CK, '    def request(self, next, request):\n', '    def request(self, next, request, _options={}):\n'),
  (CK, _KWARGS, "        save_cookie_kwargs = _options\n        save_cookie_kwargs.update(key=self.cookie_name, domain=self.domain, path=self.path,\n"
                "                                  secure=self.secure, httponly=self.http_only)\n"))
T('c16i_options_built_once_copy_module', ['C16'],
  (CK, 'import base64\n', 'import base64\nimport copy\n'),
  (CK, _EXPIRY_ATTR, _BUILT_ONCE),
  (CK, _KWARGS, "        template = self._save_cookie_kwargs\n        save_cookie_kwargs = copy.copy(template)\n"))

# ---------------------------------------------------------------- R16.f: the random default key is drawn per construction
_IMPORT = 'import base64\n'
_NOW = 'NOW = \'now\'\n'
_CLSATTR = '    _cookie_type = JSONCookie\n'
_INIT_TAIL = '                 data_expiry=None):\n'
_GET_RANDOM = '    def _get_random(self):\n'
B('c16i_key_default_argument_of_helper', ['C16'], 'R16.f',
  (CK, _NOW, _NOW + '\n\ndef _pick_secret_key(secret_key=None, random_key=os.urandom(20)):\n    return secret_key or random_key\n'),
  (CK, _SECRET, '        self.secret_key = _pick_secret_key(secret_key)\n'))
B('c16i_key_default_argument_of_constructor', ['C16'], 'R16.f',
  (CK, '                 secret_key=None,\n', '                 secret_key=os.urandom(20),\n'))
B('c16i_key_class_attribute', ['C16'], 'R16.f',
  (CK, _CLSATTR, _CLSATTR + '    _default_key = os.urandom(20)\n'),
  (CK, _SECRET, '        self.secret_key = secret_key or self._default_key\n'))
B('c16i_key_module_constant', ['C16'], 'R16.f',
  (CK, _NOW, _NOW + '_KEY = os.urandom(20)\n'),
  (CK, _SECRET, '        secret_key = secret_key or _KEY\n        self.secret_key = secret_key\n'))
B('c16i_key_memoised_factory', ['C16'], 'R16.f',
  (CK, _IMPORT, _IMPORT + 'import functools\n'),
  (CK, _NOW, _NOW + '\n\n@functools.lru_cache(maxsize=None)\ndef random_key():\n    return os.urandom(20)\n'),
  (CK, _SECRET, '        self.secret_key = secret_key or random_key()\n'))
B('c16i_key_memoised_staticmethod', ['C16'], 'R16.f',
  (CK, _IMPORT, _IMPORT + 'from functools import lru_cache\n'),
  (CK, _GET_RANDOM, '    @staticmethod\n    @lru_cache()\n    def _get_random():\n'))
B('c16i_key_lazy_module_global', ['C16'], 'R16.f',
  (CK, _NOW, _NOW + '_process_key = None\n'),
  (CK, _SECRET, '        global _process_key\n        if _process_key is None:\n            _process_key = os.urandom(20)\n'
                '        self.secret_key = secret_key or _process_key\n'))
B('c16i_key_lazy_class_attribute', ['C16'], 'R16.f',
  (CK, _CLSATTR, _CLSATTR + '    _shared_key = None\n'),
  (CK, _SECRET, '        if type(self)._shared_key is None:\n            type(self)._shared_key = os.urandom(20)\n'
                '        self.secret_key = secret_key or type(self)._shared_key\n'))
B('c16i_key_default_argument_through_factory', ['C16'], 'R16.f',
  (CK, _NOW, _NOW + '\n\ndef new_key(size=20):\n    return os.urandom(size)\n\n\ndef pick_key(given, fallback=new_key()):\n    return given or fallback\n'),
  (CK, _SECRET, '        self.secret_key = pick_key(secret_key)\n'))
T('c16i_key_public_factory', ['C16'],
  (CK, _NOW, _NOW + '\n\ndef new_key(size=20):\n    return os.urandom(size)\n'),
  (CK, _SECRET, '        self.secret_key = secret_key or new_key()\n'))
T('c16i_key_private_helper_constant_defaults', ['C16'],
  (CK, _NOW, _NOW + '\n\ndef _pick_secret_key(secret_key=None, size=20):\n    return secret_key or os.urandom(size)\n'),
  (CK, _SECRET, '        self.secret_key = _pick_secret_key(secret_key)\n'))
T('c16i_key_lambda_default_called', ['C16'],
  (CK, _INIT_TAIL, '                 data_expiry=None,\n                 _keygen=lambda: os.urandom(20)):\n'),
  (CK, _SECRET, '        self.secret_key = secret_key or _keygen()\n'))
T('c16i_key_module_partial', ['C16'],
  (CK, _IMPORT, _IMPORT + 'import functools\n'),
  (CK, _NOW, _NOW + '_new_key = functools.partial(os.urandom, 20)\n'),
  (CK, _SECRET, '        self.secret_key = secret_key or _new_key()\n'))
T('c16i_key_module_lambda', ['C16'],
  (CK, _NOW, _NOW + 'new_key = lambda size=20: os.urandom(size)\n'),
  (CK, _SECRET, '        self.secret_key = secret_key or new_key()\n'))
T('c16i_key_imported_name', ['C16'],
  (CK, _IMPORT, _IMPORT + 'from os import urandom\n'),
  (CK, _SECRET, '        self.secret_key = secret_key or urandom(20)\n'))
T('c16i_key_classmethod_factory', ['C16'],
  (CK, _SECRET, '        self.secret_key = secret_key or type(self).new_key()\n'),
  (CK, _GET_RANDOM, '    @classmethod\n    def new_key(cls):\n        return os.urandom(20)\n\n' + _GET_RANDOM))
T('c16i_key_memoised_per_instance', ['C16'],
  (CK, _IMPORT, _IMPORT + 'import functools\n'),
  (CK, _GET_RANDOM, '    @functools.lru_cache()\n' + _GET_RANDOM))
B('c16i_key_public_factory_short', ['C16'], 'R16.d',
  (CK, _NOW, _NOW + '\n\ndef new_key(size=20):\n    return os.urandom(size)\n'),
  (CK, _SECRET, '        self.secret_key = secret_key or new_key(8)\n'))
B('c16i_key_constant_default_argument', ['C16'], 'R16.d',
  (CK, '                 secret_key=None,\n', "                 secret_key=b'clastic',\n"))

# ---------------------------------------------------------------- the codec / MAC plumbing seen along the MRO (mixin first in the bases)
_CLS_HEAD = 'class JSONCookie(SecureCookie):\n    serialization_method = json\n'
_UNSER_HEAD = '    @classmethod\n    def unserialize(cls, string, secret_key):\n'
T('c16i_codec_mixin_first', ['C16'],
  (CK, _CLS_HEAD, 'class _Codec(object):\n    serialization_method = json\n'),
  (CK, _UNSER_HEAD, '\nclass JSONCookie(_Codec, SecureCookie):\n\n' + _UNSER_HEAD))
T('c16i_serializer_import_alias', ['C16'],
  (CK, 'import json\n', 'import json as _json\n'),
  (CK, '    serialization_method = json\n', '    serialization_method = _json\n'))
B('c16i_codec_mixin_raw_unicode', ['C16'], 'R16.b',
  (CK, _CLS_HEAD, 'class _Codec(object):\n    serialization_method = json\n'),
  (CK, _UNSER_HEAD, '\nclass JSONCookie(_Codec, SecureCookie):\n\n' + _UNSER_HEAD),
  (CK, "        ret = cls.serialization_method.dumps(value)\n", "        ret = cls.serialization_method.dumps(value, ensure_ascii=False)\n"))
B('c16i_mixin_overrides_hash_method', ['C16'], 'R16.c',
  (CK, _CLS_HEAD, 'class _Codec(object):\n    serialization_method = json\n    hash_method = staticmethod(lambda *a: None)\n'),
  (CK, _UNSER_HEAD, '\nclass JSONCookie(_Codec, SecureCookie):\n\n' + _UNSER_HEAD))
B('c16i_mixin_overrides_serialize', ['C16'], 'R16.c',
  (CK, _CLS_HEAD, 'class _Codec(object):\n    serialization_method = json\n\n    def serialize(self, expires=None):\n        return b"?".join([b"", b""])\n'),
  (CK, _UNSER_HEAD, '\nclass JSONCookie(_Codec, SecureCookie):\n\n' + _UNSER_HEAD))
B('c16i_mixin_serializer_mismatch', ['C16'], 'R16.b',
  (CK, 'import json\n', 'import json\nimport pickle\n'),
  (CK, _CLS_HEAD, 'class _Codec(object):\n    serialization_method = json\n'),
  (CK, _UNSER_HEAD, '\nclass JSONCookie(_Codec, SecureCookie):\n    serialization_method = pickle\n\n' + _UNSER_HEAD),
  (CK, "        ret = cls.serialization_method.dumps(value)\n", "        ret = json.dumps(value)\n"))

# ---------------------------------------------------------------- R16.h: a modified cookie is written back (should_save / constructor overrides)
_SM = '    serialization_method = json\n'
_INIT3 = '    def __init__(self, data=None, secret_key=None, new=True):\n        super(JSONCookie, self).__init__(data, secret_key, new)\n'
_SHOULD = '\n    @property\n    def should_save(self):\n'


def _jc(body, *more):
    return ((CK, _SM, _SM + '\n' + body),) + more


B('c16i_should_save_shallow_snapshot', ['C16'], 'R16.h',
  *_jc(_INIT3 + '        self._client_state = dict(self)\n' + _SHOULD + '        return self.modified and self != self._client_state\n'))
B('c16i_should_save_copy_method_snapshot', ['C16'], 'R16.h',
  *_jc(_INIT3 + '        self._sent = self.copy()\n' + _SHOULD + '        unchanged = self == self._sent\n        return self.modified and not unchanged\n'))
B('c16i_should_save_snapshot_is_the_data', ['C16'], 'R16.h',
  *_jc(_INIT3 + '        self._seen = data or {}\n' + _SHOULD + '        if not self.modified:\n            return False\n        return dict(self) != self._seen\n'))
B('c16i_should_save_comprehension_snapshot', ['C16'], 'R16.h',
  *_jc(_INIT3 + '        self._held = {k: v for k, v in self.items()}\n' + _SHOULD + '        return self.modified and self._held != dict(self)\n'))
B('c16i_should_save_never', ['C16'], 'R16.h', *_jc('    should_save = False\n'.replace('    should_save = False\n', '    @property\n    def should_save(self):\n        return False\n')))
B('c16i_should_save_falls_off', ['C16'], 'R16.h', *_jc('    @property\n    def should_save(self):\n        if self.modified:\n            return True\n'))
B('c16i_constructor_drops_key', ['C16'], 'R16.h',
  *_jc('    def __init__(self, data=None, secret_key=None, new=True):\n        super(JSONCookie, self).__init__(data, None, new)\n'))
B('c16i_constructor_adds_data', ['C16'], 'R16.h',
  *_jc(_INIT3 + "        self['_seen'] = time.time()\n"))
B('c16i_constructor_base_call_conditional', ['C16'], 'R16.h',
  *_jc('    def __init__(self, data=None, secret_key=None, new=True):\n        if data:\n            SecureCookie.__init__(self, data, secret_key, new)\n'))
T('c16i_should_save_deep_snapshot', ['C16'],
  (CK, 'import base64\n', 'import base64\nimport copy\n'),
  *_jc(_INIT3 + '        self._client_state = copy.deepcopy(dict(self))\n' + _SHOULD + '        return self.modified and self != self._client_state\n'))
T('c16i_should_save_serialised_snapshot', ['C16'],
  *_jc(_INIT3 + '        self._client_state = json.dumps(dict(self), sort_keys=True)\n' + _SHOULD +
       '        return self.modified and json.dumps(dict(self), sort_keys=True) != self._client_state\n'))
T('c16i_should_save_restated', ['C16'], *_jc('    @property\n    def should_save(self):\n        return self.modified\n'))
T('c16i_should_save_delegated', ['C16'], *_jc('    @property\n    def should_save(self):\n        return super(JSONCookie, self).should_save\n'))
T('c16i_constructor_pass_through', ['C16'],
  *_jc('    def __init__(self, *args, **kwargs):\n        super(JSONCookie, self).__init__(*args, **kwargs)\n        self._loaded_at = None\n'))
T('c16i_constructor_unbound_base_call', ['C16'],
  *_jc('    def __init__(self, data=None, secret_key=None, new=True):\n        SecureCookie.__init__(self, data, secret_key=secret_key, new=new)\n        self._note = None\n'))

# ---------------------------------------------------------------- R16.g: one cookie object, unchanged, from verification to save
_NEXT = '        response = next(**{self.arg_name: cookie})\n'
_STRIP = '        string = string.strip(\'"\')\n'
B('c16i_unverified_shortcut', ['C16'], 'R16.g',
  _unser(_STRIP + '        if string.startswith("{"):\n            return cls(json.loads(string), secret_key, False)\n        try:\n'
         '            return super(cls, JSONCookie).unserialize(string, secret_key)\n        except Exception:\n            return cls((), secret_key, False)'))
B('c16i_verified_cookie_annotated', ['C16'], 'R16.g',
  _unser(_STRIP + '        try:\n            loaded = super(cls, JSONCookie).unserialize(string, secret_key)\n'
         '        except Exception:\n            loaded = cls((), secret_key, False)\n        loaded["raw"] = string\n        return loaded'))
B('c16i_verified_cookie_updated_in_else', ['C16'], 'R16.g',
  _unser(_STRIP + '        try:\n            loaded = super(cls, JSONCookie).unserialize(string, secret_key)\n'
         '        except Exception:\n            return cls((), secret_key, False)\n        else:\n            loaded.update(source="cookie")\n            return loaded'))
B('c16i_returns_none_for_blank', ['C16'], 'R16.g',
  _unser(_STRIP + '        if not string:\n            return None\n        try:\n'
         '            return super(cls, JSONCookie).unserialize(string, secret_key)\n        except Exception:\n            return cls((), secret_key, False)'))
B('c16i_cookie_rebound_before_endpoint', ['C16'], 'R16.g',
  (CK, _NEXT, '        if not cookie:\n            cookie = self._cookie_type({"guest": True}, self.secret_key)\n' + _NEXT))
B('c16i_cookie_copy_saved', ['C16'], 'R16.g',
  (CK, _KWARGS, '        cookie = self._cookie_type(dict(cookie), self.secret_key, False)\n' + _KWARGS))
B('c16i_middleware_stores_data', ['C16'], 'R16.g',
  (CK, _NEXT, _NEXT + "        cookie['last_seen'] = time.time()\n"))
B('c16i_middleware_counts_visits', ['C16'], 'R16.g',
  (CK, _NEXT, "        cookie.setdefault('visits', 0)\n" + _NEXT))
B('c16i_stamp_before_endpoint', ['C16'], 'R16.g',
  (CK, _NEXT + _STAMP, _STAMP + _NEXT))
B('c16i_stamp_from_request', ['C16'], 'R16.g',
  (CK, "                cookie['_expires'] = time.time() + self.expiry\n",
       "                ttl = request.args.get('ttl', self.expiry)\n                cookie['_expires'] = time.time() + float(ttl)\n"))
B('c16i_signed_expiry_from_request_mapping', ['C16'], 'R16.g',
  (CK, "            save_cookie_kwargs['expires'] = cookie['_expires']\n",
       "            save_cookie_kwargs['expires'] = request.args.get('until') or cookie['_expires']\n"))
B('c16i_signed_expiry_from_request_keyword', ['C16'], 'R16.g',
  (CK, "        cookie.save_cookie(response, **save_cookie_kwargs)\n",
       "        until = request.headers.get('X-Session-Until')\n        cookie.save_cookie(response, session_expires=until, **save_cookie_kwargs)\n"))
T('c16i_stamp_clock_local', ['C16'],
  (CK, "                cookie['_expires'] = time.time() + self.expiry\n",
       "                now = time.time()\n                lifetime = self.expiry\n                cookie['_expires'] = now + lifetime\n"))
T('c16i_blank_string_is_empty_cookie', ['C16'],
  _unser(_STRIP + '        if not string:\n            return cls((), secret_key, False)\n        try:\n'
         '            return super(cls, JSONCookie).unserialize(string, secret_key)\n        except Exception:\n            return cls((), secret_key, False)'))
T('c16i_cookie_alias_saved', ['C16'],
  (CK, "        cookie.save_cookie(response, **save_cookie_kwargs)\n", "        jar = cookie\n        jar.save_cookie(response, **save_cookie_kwargs)\n"))
T('c16i_expiry_from_cookie_local', ['C16'],
  (CK, "            save_cookie_kwargs['expires'] = cookie['_expires']\n",
       "            until = cookie['_expires']\n            save_cookie_kwargs['expires'] = until\n"))

# ---------------------------------------------------------------- R16.d: what is stamped is "now + configured expiry"
_STAMP_LINE = "                cookie['_expires'] = time.time() + self.expiry\n"
B('c16i_stamp_relative_number', ['C16'], 'R16.d', (CK, _STAMP_LINE, "                cookie['_expires'] = self.expiry\n"))
B('c16i_stamp_subtracted', ['C16'], 'R16.d', (CK, _STAMP_LINE, "                now = time.time()\n                cookie['_expires'] = now - self.expiry\n"))
B('c16i_stamp_now_only', ['C16'], 'R16.d',
  (CK, _STAMP, "        if self.expiry != NEVER and self.expiry != SESSION:\n            cookie.setdefault('_expires', int(time.time()))\n"))
T('c16i_stamp_reversed_sum_int', ['C16'], (CK, _STAMP_LINE, "                cookie['_expires'] = int(self.expiry + time.time())\n"))
T('c16i_stamp_imported_clock', ['C16'],
  (CK, 'import base64\n', 'import base64\nfrom time import time as _now\n'),
  (CK, _STAMP_LINE, "                lifetime = self.expiry\n                cookie['_expires'] = _now() + lifetime\n"))

# ---------------------------------------------------------------- R16.a: clastic's own decoding of client data is guarded too
B('c16i_own_decode_unguarded', ['C16'], 'R16.a',
  _unser('        string = string.strip(\'"\')\n        if isinstance(string, bytes):\n            string = string.decode("ascii")\n        try:\n'
         '            return super(cls, JSONCookie).unserialize(string, secret_key)\n        except Exception:\n            return cls((), secret_key, False)'))
B('c16i_own_split_unguarded', ['C16'], 'R16.a',
  _unser('        string = string.strip(\'"\')\n        mac, payload = string.split("?")\n        try:\n'
         '            return super(cls, JSONCookie).unserialize(mac + "?" + payload, secret_key)\n        except Exception:\n            return cls((), secret_key, False)'))
B('c16i_own_decode_in_middleware', ['C16'], 'R16.a',
  (CK, _LOAD, "        version = int(request.cookies.get(self.cookie_name + '_v', '1'))\n" + _LOAD))
T('c16i_own_decode_guarded', ['C16'],
  _unser('        string = string.strip(\'"\')\n        try:\n            if string.isdigit() and int(string) == 0:\n                return cls((), secret_key, False)\n'
         '            return super(cls, JSONCookie).unserialize(string, secret_key)\n        except Exception:\n            return cls((), secret_key, False)'))

# ---------------------------------------------------------------- the guard against malformed cookies written in the middleware instead
_UNSER_PLAIN = '        string = string.strip(\'"\')\n        return super(cls, JSONCookie).unserialize(string, secret_key)'
_LOAD_GUARDED = ("        try:\n            cookie = self._cookie_type.load_cookie(request, key=self.cookie_name, secret_key=self.secret_key)\n"
                 "        except Exception:\n            cookie = self._cookie_type(None, self.secret_key)\n")
T('c16i_guard_in_middleware_binds_empty_cookie', ['C16'], _unser(_UNSER_PLAIN), (CK, _LOAD, _LOAD_GUARDED))
B('c16i_guard_in_middleware_binds_request_data', ['C16'], 'R16.g', _unser(_UNSER_PLAIN),
  (CK, _LOAD, _LOAD_GUARDED.replace('self._cookie_type(None, self.secret_key)', 'self._cookie_type(dict(request.args), self.secret_key)')))
B('c16i_guard_in_middleware_without_key', ['C16'], 'R16.g', _unser(_UNSER_PLAIN),
  (CK, _LOAD, _LOAD_GUARDED.replace('self._cookie_type(None, self.secret_key)', 'self._cookie_type()')))

# ---------------------------------------------------------------- further spellings of the key plumbing / the stamp
T('c16i_key_size_class_constant', ['C16'],
  (CK, _CLSATTR, _CLSATTR + '    KEY_BYTES = 20\n'),
  (CK, '        return os.urandom(20)\n', '        return os.urandom(self.KEY_BYTES)\n'))
B('c16i_key_size_class_constant_short', ['C16'], 'R16.d',
  (CK, _CLSATTR, _CLSATTR + '    KEY_BYTES = 8\n'),
  (CK, '        return os.urandom(20)\n', '        return os.urandom(self.KEY_BYTES)\n'))
T('c16i_key_hex_encoded', ['C16'],
  (CK, 'import base64\n', 'import base64\nimport binascii\n'),
  (CK, '        return os.urandom(20)\n', '        return binascii.hexlify(os.urandom(20))\n'))
B('c16i_key_hex_encoded_module_constant', ['C16'], 'R16.f',
  (CK, 'import base64\n', 'import base64\nimport binascii\n'),
  (CK, _NOW, _NOW + '_FALLBACK_KEY = binascii.hexlify(os.urandom(20))\n'),
  (CK, '        return os.urandom(20)\n', '        return _FALLBACK_KEY\n'))
T('c16i_stamp_through_set_expires', ['C16'],
  (CK, "                cookie['_expires'] = time.time() + self.expiry\n", "                cookie.set_expires(time.time() + self.expiry)\n"))

# ---------------------------------------------------------------- R16.d: the response saved on is the response returned
_RET = '        cookie.save_cookie(response, **save_cookie_kwargs)\n        return response\n'
B('c16i_response_rebound_after_save', ['C16'], 'R16.d',
  (CK, 'from .core import Middleware\n', 'from .core import Middleware\nfrom werkzeug.wrappers import Response\n'),
  (CK, _RET, '        cookie.save_cookie(response, **save_cookie_kwargs)\n        if response is None:\n            response = Response(status=204)\n        return response\n'))
B('c16i_response_alias_rebound_before_save', ['C16'], 'R16.d',
  (CK, 'from .core import Middleware\n', 'from .core import Middleware\nfrom werkzeug.wrappers import Response\n'),
  (CK, _RET, '        out = response\n        if out.status_code >= 500:\n            out = Response(status=out.status_code)\n'
             '        cookie.save_cookie(out, **save_cookie_kwargs)\n        return response\n'))
T('c16i_response_alias_saved_and_returned', ['C16'],
  (CK, _RET, '        out = response\n        cookie.save_cookie(out, **save_cookie_kwargs)\n        return out\n'))

# ---------------------------------------------------------------- R16.d: "no _expires entry" through one lookup with a sentinel default
_SENT = (CK, 'NOW = \'now\'\n', 'NOW = \'now\'\n_MISSING = object()\n')
_SAVE_SENT = ("        if expires is not _MISSING:\n            save_cookie_kwargs['expires'] = expires\n"
              "        cookie.save_cookie(response, **save_cookie_kwargs)\n")
_STAMP_SENT = ("        has_lifetime = self.expiry != NEVER and self.expiry != SESSION\n"
               "        expires = cookie.get('_expires', _MISSING)\n"
               "        if has_lifetime and expires is _MISSING:\n"
               "            expires = cookie['_expires'] = time.time() + self.expiry\n")
T('c16i_stamp_sentinel_lookup', ['C16'], _SENT, (CK, _STAMP, _STAMP_SENT), (CK, _SAVE, _SAVE_SENT))
T('c16i_stamp_sentinel_inline_reversed', ['C16'], _SENT,
  (CK, _STAMP, "        if self.expiry not in (NEVER, SESSION) and _MISSING is cookie.get('_expires', _MISSING):\n"
               "            cookie['_expires'] = time.time() + self.expiry\n"))
T('c16i_stamp_sentinel_guard_clause', ['C16'], _SENT,
  (CK, _STAMP, "        current = cookie.get('_expires', _MISSING)\n        if current is not _MISSING:\n            pass\n"
               "        elif self.expiry != NEVER and self.expiry != SESSION:\n            cookie['_expires'] = time.time() + self.expiry\n"))
B('c16i_stamp_sentinel_lookup_before_endpoint', ['C16'], 'R16.d', _SENT,
  (CK, _NEXT + _STAMP, "        expires = cookie.get('_expires', _MISSING)\n" + _NEXT + _STAMP_SENT.replace("        expires = cookie.get('_expires', _MISSING)\n", '')),
  (CK, _SAVE, _SAVE_SENT))
B('c16i_stamp_sentinel_wrong_polarity', ['C16'], 'R16.d', _SENT,
  (CK, _STAMP, _STAMP_SENT.replace('and expires is _MISSING', 'and expires is not _MISSING')), (CK, _SAVE, _SAVE_SENT))
B('c16i_stamp_sentinel_other_key', ['C16'], 'R16.d', _SENT,
  (CK, _STAMP, _STAMP_SENT.replace("cookie.get('_expires', _MISSING)", "cookie.get('expires', _MISSING)")), (CK, _SAVE, _SAVE_SENT))
B('c16i_stamp_lookup_default_none', ['C16'], 'R16.d',
  (CK, _STAMP, "        if self.expiry != NEVER and self.expiry != SESSION and cookie.get('_expires') is None:\n"
               "            cookie['_expires'] = time.time() + self.expiry\n"))
B('c16i_stamp_sentinel_rebound', ['C16'], 'R16.d',
  (CK, 'NOW = \'now\'\n', 'NOW = \'now\'\n_MISSING = object()\n_MISSING = None\n'),
  (CK, _STAMP, _STAMP_SENT), (CK, _SAVE, _SAVE_SENT))
B('c16i_stamp_sentinel_other_default', ['C16'], 'R16.d', _SENT,
  (CK, _STAMP, _STAMP_SENT.replace("cookie.get('_expires', _MISSING)", "cookie.get('_expires', NOW)")), (CK, _SAVE, _SAVE_SENT))
# ... and the membership test, when its outcome is kept in a flag: it has to be taken after the endpoint ran
T('c16i_absence_flag_after_endpoint', ['C16'],
  (CK, _STAMP, "        unstamped = '_expires' not in cookie\n        if self.expiry != NEVER and self.expiry != SESSION and unstamped:\n"
               "            cookie['_expires'] = time.time() + self.expiry\n"))
B('c16i_absence_flag_before_endpoint', ['C16'], 'R16.d',
  (CK, _NEXT + _STAMP, "        unstamped = '_expires' not in cookie\n" + _NEXT +
       "        if self.expiry != NEVER and self.expiry != SESSION and unstamped:\n            cookie['_expires'] = time.time() + self.expiry\n"))
B('c16i_absence_flag_before_hook', ['C16'], 'R16.d',
  (CK, _STAMP, "        unstamped = '_expires' not in cookie\n        self.after_endpoint(cookie, response)\n"
               "        if self.expiry != NEVER and self.expiry != SESSION and unstamped:\n            cookie['_expires'] = time.time() + self.expiry\n"),
  (CK, '    def _get_random(self):\n', "    def after_endpoint(self, cookie, response):\n        pass\n\n    def _get_random(self):\n"))

# ---------------------------------------------------------------- the cookie class (or its codec) lives in another module and is imported back
_CORE = 'clastic/middleware/core.py'
_CORE_ANCHOR = "_INNER_NAME = 'next'\n"
_DEP_IMPORT = 'from secure_cookie.cookie import SecureCookie, UnquoteError\n'
_JC_CLASS = ("class JSONCookie(SecureCookie):\n    serialization_method = json\n\n    @classmethod\n    def quote(cls, value):\n" + _QUOTE +
             "        ret = b''.join(base64.b64encode(ret).splitlines()).strip()\n        return ret\n\n    @classmethod\n    def unquote(cls, value):\n" +
             _UNQUOTE + "\n\n    @classmethod\n    def unserialize(cls, string, secret_key):\n" + _UNSER + "\n\n"
             "    def set_expires(self, epoch_time=NOW):\n        \"\"\"\n        epoch_time: Unix timestamp of the cookie expiry.\n        \"\"\"\n"
             "        if epoch_time == NOW:\n            epoch_time = 123456  # a day and a half after the epoch (long ago)\n"
             "        self['_expires'] = epoch_time\n\n\n")


def _moved(dep_import=_DEP_IMPORT, cls_text=_JC_CLASS, keep_dep_import=False):
    return ((CK, _JC_CLASS, ''),
            (CK, _DEP_IMPORT + '\nfrom .core import Middleware\n', (_DEP_IMPORT if keep_dep_import else '') + '\nfrom .core import Middleware, JSONCookie\n'),
            (_CORE, _CORE_ANCHOR, _CORE_ANCHOR + "NOW = 'now'\n\nimport json\nimport base64\n" + dep_import + '\n\n' + cls_text))


T('c16i_class_moved_to_sibling_module', ['C16'], *_moved())
T('c16i_class_moved_dependency_alias', ['C16'],
  *_moved(dep_import='from secure_cookie.cookie import SecureCookie\nfrom secure_cookie.cookie import UnquoteError as _BadPayload\n',
          cls_text=_JC_CLASS.replace('raise UnquoteError()', 'raise _BadPayload()')))
B('c16i_moved_class_own_unquote_error', ['C16'], 'R16.b',
  *_moved(dep_import='from secure_cookie.cookie import SecureCookie\n\n\nclass UnquoteError(Exception):\n    pass\n', keep_dep_import=True))
B('c16i_moved_class_raw_unicode', ['C16'], 'R16.b',
  *_moved(cls_text=_JC_CLASS.replace('dumps(value)', 'dumps(value, ensure_ascii=False)')))
B('c16i_moved_class_own_decode_unguarded', ['C16'], 'R16.a',
  *_moved(cls_text=_JC_CLASS.replace("        string = string.strip('\"')  # this", "        string = string.decode('ascii').strip('\"')  # this")))
B('c16i_unquote_error_alias_of_other_class', ['C16'], 'R16.b',
  (CK, _DEP_IMPORT, 'from secure_cookie.cookie import SecureCookie\n\nUnquoteError = ValueError\n'))
B('c16i_unquote_error_local_subclass_of_exception', ['C16'], 'R16.b',
  (CK, _DEP_IMPORT, 'from secure_cookie.cookie import SecureCookie\n\n\nclass UnquoteError(Exception):\n    pass\n'))
# the codec half only: a mixin in another module
_CODEC = ("class _JSONCodec(object):\n    serialization_method = json\n\n    @classmethod\n    def quote(cls, value):\n" + _QUOTE +
          "        ret = b''.join(base64.b64encode(ret).splitlines()).strip()\n        return ret\n\n    @classmethod\n    def unquote(cls, value):\n" +
          _UNQUOTE + "\n\n\n")
_JC_HEAD = _JC_CLASS[:_JC_CLASS.index('    @classmethod\n    def unserialize')]


def _codec_moved(dep_import='from secure_cookie.cookie import UnquoteError\n', codec=_CODEC):
    return ((CK, _JC_HEAD, 'class JSONCookie(_JSONCodec, SecureCookie):\n\n'),
            (CK, '\nfrom .core import Middleware\n', '\nfrom .core import Middleware, _JSONCodec\n'),
            (_CORE, _CORE_ANCHOR, _CORE_ANCHOR + "\nimport json\nimport base64\n" + dep_import + '\n\n' + codec))


T('c16i_codec_mixin_in_sibling_module', ['C16'], *_codec_moved())
B('c16i_codec_mixin_in_sibling_module_own_error', ['C16'], 'R16.b',
  *_codec_moved(dep_import='\n\nclass UnquoteError(ValueError):\n    pass\n'))
B('c16i_codec_mixin_in_sibling_module_charset', ['C16'], 'R16.b',
  *_codec_moved(codec=_CODEC.replace("value.decode('utf8')", "value.decode('utf-16')")))

# ---------------------------------------------------------------- R16.g: the expiry save_cookie is told to sign is the cookie's own entry
_EXP_LINE = "            save_cookie_kwargs['expires'] = cookie['_expires']\n"
B('c16i_signed_expiry_recomputed', ['C16'], 'R16.g',
  (CK, _SAVE, "        if self.expiry != NEVER and self.expiry != SESSION:\n            save_cookie_kwargs['expires'] = time.time() + self.expiry\n"
              "        cookie.save_cookie(response, **save_cookie_kwargs)\n"))
B('c16i_signed_expiry_keyword_recomputed', ['C16'], 'R16.g',
  (CK, _KWARGS, ''),
  (CK, _SAVE, "        lifetime = self.expiry if self.expiry not in (NEVER, SESSION) else None\n"
              "        cookie.save_cookie(response, key=self.cookie_name, domain=self.domain, path=self.path, secure=self.secure,\n"
              "                           httponly=self.http_only, session_expires=lifetime and time.time() + lifetime)\n"))
B('c16i_signed_expiry_read_before_endpoint', ['C16'], 'R16.g',
  (CK, _NEXT, "        until = cookie.get('_expires')\n" + _NEXT),
  (CK, _SAVE, "        if until is not None:\n            save_cookie_kwargs['expires'] = until\n        cookie.save_cookie(response, **save_cookie_kwargs)\n"))
B('c16i_signed_expiry_options_before_endpoint', ['C16'], 'R16.g',
  (CK, _KWARGS, ''),
  (CK, _NEXT, _KWARGS + "        if '_expires' in cookie:\n" + _EXP_LINE + _NEXT),
  (CK, _SAVE, "        cookie.save_cookie(response, **save_cookie_kwargs)\n"))
T('c16i_signed_expiry_fallback_when_absent', ['C16'],
  (CK, _SAVE, "        if '_expires' in cookie:\n" + _EXP_LINE +
              "        elif self.expiry != NEVER and self.expiry != SESSION:\n            save_cookie_kwargs['expires'] = time.time() + self.expiry\n"
              "        cookie.save_cookie(response, **save_cookie_kwargs)\n"))
T('c16i_signed_expiry_get_or_none', ['C16'],
  (CK, _SAVE, "        save_cookie_kwargs['expires'] = cookie.get('_expires') or None\n        cookie.save_cookie(response, **save_cookie_kwargs)\n"))
T('c16i_signed_expiry_stamp_rebinds_local', ['C16'], _SENT,
  (CK, _STAMP, "        expires = cookie.get('_expires', _MISSING)\n        if self.expiry != NEVER and self.expiry != SESSION and expires is _MISSING:\n"
               "            cookie['_expires'] = time.time() + self.expiry\n            expires = cookie['_expires']\n"),
  (CK, _SAVE, _SAVE_SENT))
B('c16i_signed_expiry_sentinel_unchecked', ['C16'], 'R16.g', _SENT,
  (CK, _STAMP, _STAMP_SENT),
  (CK, _SAVE, "        save_cookie_kwargs['expires'] = expires\n        cookie.save_cookie(response, **save_cookie_kwargs)\n"))

# ---------------------------------------------------------------- R16.b: unquote(quote(v)) is v, as far as the shape of the two pipelines goes
_B64 = "        ret = b''.join(base64.b64encode(ret).splitlines()).strip()\n        return ret\n"
_LOADS = "            value = cls.serialization_method.loads(value.decode('utf8'))\n"
_B64D = "            value = base64.b64decode(value)\n"
B('c16i_quote_truncates_payload', ['C16'], 'R16.b', (CK, _B64, _B64.replace('        return ret\n', '        return ret[:4093]  # browsers drop larger cookies\n')))
B('c16i_quote_truncates_text', ['C16'], 'R16.b', (CK, _ENCODE, "        ret = ret.encode('utf8')[:3000]\n"))
B('c16i_quote_serializes_text_of_value', ['C16'], 'R16.b', (CK, _DUMPS, "        ret = cls.serialization_method.dumps(str(value))\n"))
B('c16i_quote_value_defaulted', ['C16'], 'R16.b', (CK, _DUMPS, "        value = value or ''\n" + _DUMPS))
B('c16i_unquote_number_hook', ['C16'], 'R16.b',
  (CK, 'import base64\n', 'import base64\nimport decimal\n'),
  (CK, _LOADS, "            value = cls.serialization_method.loads(value.decode('utf8'), parse_float=decimal.Decimal)\n"))
B('c16i_unquote_result_defaulted', ['C16'], 'R16.b', (CK, _UNQUOTE, _UNQUOTE.replace('        return value', '        return value or None')))
B('c16i_unquote_result_wrapped', ['C16'], 'R16.b',
  (CK, _UNQUOTE, "        try:\n            raw = base64.b64decode(value).decode('utf8')\n            loaded = cls.serialization_method.loads(raw)\n"
                 "            if isinstance(loaded, list):\n                loaded = tuple(loaded)\n"
                 "        except Exception:\n            raise UnquoteError()\n        return loaded"))
B('c16i_unquote_skips_a_byte', ['C16'], 'R16.b', (CK, _B64D, "            value = base64.b64decode(value[1:])\n"))
T('c16i_quote_layout_replace', ['C16'], (CK, _B64, "        return base64.b64encode(ret).replace(b'\\n', b'')\n"))
T('c16i_quote_layout_named_pieces', ['C16'],
  (CK, _B64, "        lines = base64.b64encode(ret).splitlines()\n        joined = b''.join(lines)\n        return joined.strip()\n"))
T('c16i_unquote_loads_bytes', ['C16'],
  (CK, _B64D + _LOADS, "            value = cls.serialization_method.loads(base64.b64decode(value))\n"))
T('c16i_unquote_str_call', ['C16'],
  (CK, _B64D + _LOADS, "            text = str(base64.b64decode(value), 'utf8')\n            value = cls.serialization_method.loads(text)\n"))

# ---------------------------------------------------------------- R16.d: set_expires records the application's expiry where the dependency looks for it
_SETEXP = "        self['_expires'] = epoch_time\n"
_SETEXP_NOW = "        if epoch_time == NOW:\n            epoch_time = 123456  # a day and a half after the epoch (long ago)\n"
B('c16i_set_expires_other_key', ['C16'], 'R16.d', (CK, _SETEXP, "        self['expires'] = epoch_time\n"))
B('c16i_set_expires_attribute_not_item', ['C16'], 'R16.d', (CK, _SETEXP, "        self._expires = epoch_time\n"))
B('c16i_set_expires_now_returns_early', ['C16'], 'R16.d',
  (CK, _SETEXP_NOW + _SETEXP, "        if epoch_time == NOW:\n            return  # the browser forgets a session cookie by itself\n" + _SETEXP))
B('c16i_set_expires_keeps_existing', ['C16'], 'R16.d', (CK, _SETEXP, "        self.setdefault('_expires', epoch_time)\n"))
B('c16i_set_expires_only_if_absent', ['C16'], 'R16.d',
  (CK, _SETEXP, "        if '_expires' not in self:\n            self['_expires'] = epoch_time\n"))
B('c16i_set_expires_ignores_argument', ['C16'], 'R16.d', (CK, _SETEXP_NOW + _SETEXP, "        self['_expires'] = 123456\n"))
T('c16i_set_expires_update', ['C16'], (CK, _SETEXP, "        self.update(_expires=epoch_time)\n"))
T('c16i_set_expires_two_branches', ['C16'],
  (CK, 'NOW = \'now\'\n', 'NOW = \'now\'\n_EXPIRES = \'_expires\'\n_LONG_AGO = 123456\n'),
  (CK, _SETEXP_NOW + _SETEXP, "        if epoch_time == NOW:\n            self[_EXPIRES] = _LONG_AGO\n        else:\n            self[_EXPIRES] = epoch_time\n"))
T('c16i_set_expires_conditional_expression', ['C16'],
  (CK, _SETEXP_NOW + _SETEXP, "        self['_expires'] = 123456 if epoch_time == NOW else epoch_time\n"))

# ---------------------------------------------------------------- R16.e: a helper of request() that lives in another module writes what it writes
_CORE_CLASS = "class Middleware(object):\n"
B('c16i_options_kept_by_mixin_in_sibling_module', ['C16'], 'R16.e',
  (_CORE, _CORE_CLASS, "class SaveOptionsMixin(object):\n    def save_options(self, cookie, **options):\n        self._last_options = options\n"
                       "        if '_expires' in cookie:\n            self._last_options['expires'] = cookie['_expires']\n        return self._last_options\n\n\n" + _CORE_CLASS),
  (CK, '\nfrom .core import Middleware\n', '\nfrom .core import Middleware, SaveOptionsMixin\n'),
  (CK, 'class SignedCookieMiddleware(Middleware):\n', 'class SignedCookieMiddleware(SaveOptionsMixin, Middleware):\n'),
  (CK, _KWARGS, ''),
  (CK, _SAVE, "        cookie.save_cookie(response, **self.save_options(cookie, key=self.cookie_name, domain=self.domain, path=self.path,\n"
              "                                                         secure=self.secure, httponly=self.http_only))\n"))
B('c16i_cookie_remembered_by_function_in_sibling_module', ['C16'], 'R16.e',
  (_CORE, _CORE_CLASS, "_SEEN = {}\n\n\ndef remember(name, cookie):\n    _SEEN[name] = cookie\n\n\n" + _CORE_CLASS),
  (CK, '\nfrom .core import Middleware\n', '\nfrom .core import Middleware, remember\n'),
  (CK, _NEXT, "        remember(self.cookie_name, cookie)\n" + _NEXT))
T('c16i_reader_function_in_sibling_module', ['C16'],
  (_CORE, _CORE_CLASS, "def cookie_stats(name, cookie):\n    stats = {}\n    stats[name] = len(cookie)\n    return stats\n\n\n" + _CORE_CLASS),
  (CK, '\nfrom .core import Middleware\n', '\nfrom .core import Middleware, cookie_stats\n'),
  (CK, _NEXT, "        stats = cookie_stats(self.cookie_name, cookie)\n" + _NEXT))

# ---------------------------------------------------------------- R16.d: set_expires over the kinds of argument (None / 0 / a number / the marker)
_WITHDRAW = "            self.pop('_expires', None)\n            return\n"
T('c16i_set_expires_none_withdraws', ['C16'], (CK, _SETEXP, "        if epoch_time is None:\n" + _WITHDRAW + _SETEXP))
T('c16i_set_expires_none_withdraws_early_guard', ['C16'],
  (CK, _SETEXP_NOW + _SETEXP, "        if epoch_time is None or epoch_time == '':\n            del self['_expires']\n            return\n"
                              "        self['_expires'] = 123456 if epoch_time == NOW else epoch_time\n"))
T('c16i_set_expires_type_guard', ['C16'],
  (CK, _SETEXP, "        if not isinstance(epoch_time, (int, float)):\n            raise TypeError('epoch_time: a number or NOW')\n" + _SETEXP))
B('c16i_set_expires_falsy_withdraws', ['C16'], 'R16.d', (CK, _SETEXP, "        if not epoch_time:\n" + _WITHDRAW + _SETEXP))
B('c16i_set_expires_stores_only_truthy', ['C16'], 'R16.d', (CK, _SETEXP, "        if epoch_time:\n    " + _SETEXP))
B('c16i_set_expires_or_none', ['C16'], 'R16.d',
  (CK, _SETEXP, "        epoch_time = epoch_time or None\n        if epoch_time is None:\n" + _WITHDRAW + _SETEXP))
B('c16i_set_expires_nonpositive_ignored', ['C16'], 'R16.d',
  (CK, _SETEXP, "        if epoch_time is None or epoch_time <= 0:\n            return\n" + _SETEXP))
B('c16i_set_expires_stored_then_dropped', ['C16'], 'R16.d',
  (CK, _SETEXP, _SETEXP + "        if not self['_expires']:\n            del self['_expires']\n"))
# the same slip on the middleware's side: an entry of 0 is an entry
B('c16i_stamp_when_entry_falsy', ['C16'], 'R16.d',
  (CK, _STAMP, "        if self.expiry != NEVER and self.expiry != SESSION and not cookie.get('_expires'):\n"
               "            cookie['_expires'] = time.time() + self.expiry\n"))

# ---------------------------------------------------------------- R16.g: the kind of time value the dependency is handed as the expiry
_DTIMPORT = (CK, 'import base64\n', 'import base64\nfrom datetime import datetime, timezone\n')
_SETEXP_TAIL = "        self['_expires'] = epoch_time\n"


def _accessor(ret, uses_none_test=True):
    """get_expires() on the cookie class, used by request() instead of reaching into the dict."""
    return ((CK, _SETEXP_TAIL, _SETEXP_TAIL + "\n    def get_expires(self):\n        epoch_time = self.get('_expires')\n        if epoch_time is None:\n"
                               "            return None\n        return " + ret + "\n"),
            (CK, _SAVE, "        expires = cookie.get_expires()\n        if expires is not None:\n            save_cookie_kwargs['expires'] = expires\n"
                        "        cookie.save_cookie(response, **save_cookie_kwargs)\n"))


T('c16i_expiry_accessor_epoch', ['C16'], *_accessor('epoch_time'))
T('c16i_expiry_accessor_naive_utc', ['C16'], _DTIMPORT, *_accessor('datetime.utcfromtimestamp(epoch_time)'))
T('c16i_expiry_accessor_aware', ['C16'], _DTIMPORT, *_accessor('datetime.fromtimestamp(epoch_time, tz=timezone.utc)'))
T('c16i_expiry_accessor_local_made_aware', ['C16'], _DTIMPORT, *_accessor('datetime.fromtimestamp(epoch_time).astimezone()'))
T('c16i_expiry_inline_aware', ['C16'],
  (CK, 'import base64\n', 'import base64\nimport datetime as _dt\n'),
  (CK, _EXP_LINE, "            save_cookie_kwargs['expires'] = _dt.datetime.fromtimestamp(cookie['_expires'], _dt.timezone.utc)\n"))
B('c16i_expiry_accessor_mislabelled_utc', ['C16'], 'R16.g', _DTIMPORT, *_accessor('datetime.fromtimestamp(epoch_time).replace(tzinfo=timezone.utc)'))
B('c16i_expiry_accessor_utc_read_as_local', ['C16'], 'R16.g', _DTIMPORT, *_accessor('datetime.utcfromtimestamp(epoch_time).astimezone(timezone.utc)'))
B('c16i_expiry_inline_naive_local', ['C16'], 'R16.g',
  (CK, 'import base64\n', 'import base64\nimport datetime as _dt\n'),
  (CK, _EXP_LINE, "            save_cookie_kwargs['expires'] = _dt.datetime.fromtimestamp(cookie['_expires'])\n"))
B('c16i_expiry_keyword_naive_local_named', ['C16'], 'R16.g', _DTIMPORT,
  (CK, _SAVE, "        until = cookie.get('_expires')\n        when = datetime.fromtimestamp(until, None) if until is not None else None\n"
              "        cookie.save_cookie(response, session_expires=when, **save_cookie_kwargs)\n"))
B('c16i_expiry_accessor_not_the_entry', ['C16'], 'R16.g', _DTIMPORT,
  (CK, _SETEXP_TAIL, _SETEXP_TAIL + "\n    def get_expires(self):\n        return datetime.now(timezone.utc)\n"),
  (CK, _SAVE, "        save_cookie_kwargs['expires'] = cookie.get_expires()\n        cookie.save_cookie(response, **save_cookie_kwargs)\n"))

# ---------------------------------------------------------------- round x: the codec in a new private module; a property standing for the
# "expiry is a number" test; the save_cookie keywords from a table of (keyword, attribute) rows
_CODEC_MOD = 'clastic/middleware/_codec.py'
_QUOTE_BODY = _QUOTE + "        ret = b''.join(base64.b64encode(ret).splitlines()).strip()\n        return ret\n"
_PACK = ("def to_wire(serializer, obj):\n    ret = serializer.dumps(obj)\n    ret = ret.encode('utf8')\n"
         "    ret = b''.join(base64.b64encode(ret).splitlines()).strip()\n    return ret\n\n\n")
_UNPACK = ("def from_wire(serializer, data):\n    try:\n        data = base64.b64decode(data)\n        data = serializer.loads(data.decode('utf8'))\n"
           "    except Exception as e:\n        raise UnquoteError()\n    return data\n")
_UNPACK_BARE = ("def from_wire(serializer, data):\n    data = base64.b64decode(data)\n    return serializer.loads(data.decode('utf8'))\n")


def _codec_module(unpack=_UNPACK, drop_import=True):
    return ((_CODEC_MOD, '__NEW__', "import base64\n\nfrom secure_cookie.cookie import UnquoteError\n\n\n" + _PACK + unpack),
            (CK, 'import base64\n', '' if drop_import else 'import base64\n'),
            (CK, '\nfrom .core import Middleware\n', '\nfrom .core import Middleware\nfrom ._codec import to_wire as _to_wire, from_wire as _from_wire\n'),
            (CK, _QUOTE_BODY, "        return _to_wire(cls.serialization_method, value)\n"),
            (CK, _UNQUOTE, "        return _from_wire(cls.serialization_method, value)"))


T('c16x_codec_in_private_module', ['C16'], *_codec_module())
T('c16x_codec_in_private_module_import_kept', ['C16'], *_codec_module(drop_import=False))
B('c16x_codec_in_private_module_unguarded', ['C16'], 'R16.b', *_codec_module(unpack=_UNPACK_BARE))
B('c16x_codec_in_private_module_other_error', ['C16'], 'R16.b', *_codec_module(unpack=_UNPACK.replace('raise UnquoteError()', 'raise ValueError()')))

_STAMP_PROP = ("        if self._numeric_expiry and '_expires' not in cookie:\n"
               "            cookie['_expires'] = time.time() + self.expiry\n")


def _prop(body):
    return (CK, _GET_RANDOM, "    @property\n    def _numeric_expiry(self):\n" + body + "\n" + _GET_RANDOM)


T('c16x_stamp_property_guard', ['C16'], (CK, _STAMP, _STAMP_PROP),
  _prop("        if self.expiry != NEVER:\n            return self.expiry != SESSION\n        return False\n"))
T('c16x_stamp_property_guard_one_expression', ['C16'], (CK, _STAMP, _STAMP_PROP),
  _prop("        return not (self.expiry == NEVER or self.expiry == SESSION)\n"))
B('c16x_stamp_property_guard_one_marker', ['C16'], 'R16.d', (CK, _STAMP, _STAMP_PROP),
  _prop("        if self.expiry != NEVER:\n            return True\n        return False\n"))
B('c16x_stamp_property_guard_falls_to_true', ['C16'], 'R16.d', (CK, _STAMP, _STAMP_PROP),
  _prop("        if self.expiry != NEVER:\n            return self.expiry != SESSION\n        return True\n"))
B('c16x_stamp_property_is_plain_method', ['C16'], 'R16.d', (CK, _STAMP, _STAMP_PROP),
  (CK, _GET_RANDOM, "    def _numeric_expiry(self):\n        return self.expiry != NEVER and self.expiry != SESSION\n\n" + _GET_RANDOM))

_ROWS = "_SAVE_ATTRS = (('key', '%s'), ('domain', 'domain'), ('path', 'path'), ('secure', 'secure'), ('httponly', 'http_only'))\n"
_KWARGS_TABLE = "        save_cookie_kwargs = {kwarg: getattr(self, attr_name) for kwarg, attr_name in _SAVE_ATTRS}\n"
T('c16x_save_kwargs_from_table', ['C16'], (CK, 'NOW = \'now\'\n', 'NOW = \'now\'\n' + _ROWS % 'cookie_name'), (CK, _KWARGS, _KWARGS_TABLE))
B('c16x_save_kwargs_from_table_wrong_name', ['C16'], 'R16.d', (CK, 'NOW = \'now\'\n', 'NOW = \'now\'\n' + _ROWS % 'arg_name'), (CK, _KWARGS, _KWARGS_TABLE))
